/* LD_PRELOAD write journal for crash-state enumeration (C10).
 *
 * Records, in program order, every mutation of files below $VP_JOURNAL_ROOT made through
 * libc by this process (libhdf5 inside h5py, Python file objects, torch.save):
 *   kind 1  positional write (pwrite/pwrite64, or write/writev on a non-append fd: offset taken
 *           from lseek(fd,0,SEEK_CUR) before the call)
 *   kind 2  append write (fd opened with O_APPEND)
 *   kind 3  rename(src -> dst)           payload = absolute dst
 *   kind 4  open with O_CREAT|O_TRUNC / creat  (file exists and is empty afterwards)
 *   kind 5  ftruncate(len)               off = length
 *   kind 6  unlink
 *   kind 7  marker written by the harness through write(2) on fd -1? no: via getenv hook below
 * Record layout (little endian): u32 kind, u32 pathlen, u64 off, u64 len, path bytes, payload bytes.
 * A SIGKILL at any instant leaves exactly a prefix of this journal applied to the page cache
 * (plus possibly part of the last write), which is what the explorer materialises.
 */
#define _GNU_SOURCE
#include <dlfcn.h>
#include <errno.h>
#include <fcntl.h>
#include <limits.h>
#include <stdarg.h>
#include <stdint.h>
#include <stdio.h>
#include <stdlib.h>
#include <string.h>
#include <sys/stat.h>
#include <sys/types.h>
#include <sys/uio.h>
#include <unistd.h>

static int jfd = -1;
static char root[PATH_MAX];
static size_t rootlen = 0;
static int inited = 0;

static ssize_t (*real_write)(int, const void *, size_t);
static ssize_t (*real_pwrite)(int, const void *, size_t, off_t);
static ssize_t (*real_pwrite64)(int, const void *, size_t, off64_t);
static ssize_t (*real_writev)(int, const struct iovec *, int);
static ssize_t (*real_pwritev)(int, const struct iovec *, int, off_t);
static int (*real_rename)(const char *, const char *);
static int (*real_renameat)(int, const char *, int, const char *);
static int (*real_renameat2)(int, const char *, int, const char *, unsigned int);
static int (*real_ftruncate)(int, off_t);
static int (*real_ftruncate64)(int, off64_t);
static int (*real_unlink)(const char *);
static int (*real_unlinkat)(int, const char *, int);
static int (*real_open)(const char *, int, ...);
static int (*real_open64)(const char *, int, ...);
static int (*real_openat)(int, const char *, int, ...);
static int (*real_openat64)(int, const char *, int, ...);
static int (*real_creat)(const char *, mode_t);
static FILE *(*real_fopen)(const char *, const char *);
static FILE *(*real_fopen64)(const char *, const char *);

static void init(void) {
  if (inited) return;
  inited = 1;
  real_write = dlsym(RTLD_NEXT, "write");
  real_pwrite = dlsym(RTLD_NEXT, "pwrite");
  real_pwrite64 = dlsym(RTLD_NEXT, "pwrite64");
  real_writev = dlsym(RTLD_NEXT, "writev");
  real_pwritev = dlsym(RTLD_NEXT, "pwritev");
  real_rename = dlsym(RTLD_NEXT, "rename");
  real_renameat = dlsym(RTLD_NEXT, "renameat");
  real_renameat2 = dlsym(RTLD_NEXT, "renameat2");
  real_ftruncate = dlsym(RTLD_NEXT, "ftruncate");
  real_ftruncate64 = dlsym(RTLD_NEXT, "ftruncate64");
  real_unlink = dlsym(RTLD_NEXT, "unlink");
  real_unlinkat = dlsym(RTLD_NEXT, "unlinkat");
  real_open = dlsym(RTLD_NEXT, "open");
  real_open64 = dlsym(RTLD_NEXT, "open64");
  real_openat = dlsym(RTLD_NEXT, "openat");
  real_openat64 = dlsym(RTLD_NEXT, "openat64");
  real_creat = dlsym(RTLD_NEXT, "creat");
  real_fopen = dlsym(RTLD_NEXT, "fopen");
  real_fopen64 = dlsym(RTLD_NEXT, "fopen64");
  const char *r = getenv("VP_JOURNAL_ROOT");
  const char *j = getenv("VP_JOURNAL");
  if (r && j) {
    if (!realpath(r, root)) strncpy(root, r, sizeof(root) - 1);
    rootlen = strlen(root);
    jfd = real_open(j, O_WRONLY | O_CREAT | O_APPEND | O_CLOEXEC, 0644);
  }
}

static int abs_path(int dirfd, const char *p, char *out) {
  if (!p) return 0;
  if (p[0] == '/') {
    strncpy(out, p, PATH_MAX - 1);
    out[PATH_MAX - 1] = 0;
  } else {
    char base[PATH_MAX];
    if (dirfd == AT_FDCWD) {
      if (!getcwd(base, sizeof(base))) return 0;
    } else {
      char link[64];
      snprintf(link, sizeof(link), "/proc/self/fd/%d", dirfd);
      ssize_t n = readlink(link, base, sizeof(base) - 1);
      if (n <= 0) return 0;
      base[n] = 0;
    }
    snprintf(out, PATH_MAX, "%s/%s", base, p);
  }
  return 1;
}

static int under_root(const char *p) {
  return rootlen > 0 && strncmp(p, root, rootlen) == 0 && (p[rootlen] == '/' || p[rootlen] == 0);
}

static int fd_path(int fd, char *out) {
  if (jfd < 0 || fd == jfd || fd < 0) return 0;
  char link[64];
  snprintf(link, sizeof(link), "/proc/self/fd/%d", fd);
  ssize_t n = readlink(link, out, PATH_MAX - 1);
  if (n <= 0) return 0;
  out[n] = 0;
  /* " (deleted)" suffix: file unlinked while open */
  size_t L = strlen(out);
  if (L > 10 && strcmp(out + L - 10, " (deleted)") == 0) out[L - 10] = 0;
  return under_root(out);
}

static void rec(uint32_t kind, const char *path, uint64_t off, uint64_t len, const struct iovec *iov, int iovcnt) {
  if (jfd < 0) return;
  uint32_t pl = (uint32_t)strlen(path);
  uint64_t total = 0;
  for (int i = 0; i < iovcnt; i++) total += iov[i].iov_len;
  if (kind == 1 || kind == 2 || kind == 3) len = total;
  size_t hdr = 4 + 4 + 8 + 8;
  size_t sz = hdr + pl + total;
  char *buf = malloc(sz);
  if (!buf) return;
  memcpy(buf, &kind, 4);
  memcpy(buf + 4, &pl, 4);
  memcpy(buf + 8, &off, 8);
  memcpy(buf + 16, &len, 8);
  memcpy(buf + hdr, path, pl);
  size_t o = hdr + pl;
  for (int i = 0; i < iovcnt; i++) {
    memcpy(buf + o, iov[i].iov_base, iov[i].iov_len);
    o += iov[i].iov_len;
  }
  size_t w = 0;
  while (w < sz) {
    ssize_t n = real_write(jfd, buf + w, sz - w);
    if (n <= 0) break;
    w += (size_t)n;
  }
  free(buf);
}

static void rec_write(int fd, const struct iovec *iov, int cnt, int positional, uint64_t off) {
  char p[PATH_MAX];
  if (!fd_path(fd, p)) return;
  int fl = fcntl(fd, F_GETFL);
  if (!positional) {
    if (fl >= 0 && (fl & O_APPEND)) {
      rec(2, p, 0, 0, iov, cnt);
      return;
    }
    off_t cur = lseek(fd, 0, SEEK_CUR);
    off = cur < 0 ? 0 : (uint64_t)cur;
  }
  rec(1, p, off, 0, iov, cnt);
}

ssize_t write(int fd, const void *b, size_t n) {
  init();
  struct iovec v = {(void *)b, n};
  rec_write(fd, &v, 1, 0, 0);
  return real_write(fd, b, n);
}
ssize_t pwrite(int fd, const void *b, size_t n, off_t off) {
  init();
  struct iovec v = {(void *)b, n};
  rec_write(fd, &v, 1, 1, (uint64_t)off);
  return real_pwrite(fd, b, n, off);
}
ssize_t pwrite64(int fd, const void *b, size_t n, off64_t off) {
  init();
  struct iovec v = {(void *)b, n};
  rec_write(fd, &v, 1, 1, (uint64_t)off);
  return real_pwrite64(fd, b, n, off);
}
ssize_t writev(int fd, const struct iovec *iov, int cnt) {
  init();
  rec_write(fd, iov, cnt, 0, 0);
  return real_writev(fd, iov, cnt);
}
ssize_t pwritev(int fd, const struct iovec *iov, int cnt, off_t off) {
  init();
  rec_write(fd, iov, cnt, 1, (uint64_t)off);
  return real_pwritev(fd, iov, cnt, off);
}

static void rec_rename(int od, const char *o, int nd, const char *n) {
  char a[PATH_MAX], b[PATH_MAX];
  if (jfd < 0 || !abs_path(od, o, a) || !abs_path(nd, n, b)) return;
  if (!under_root(a) && !under_root(b)) return;
  struct iovec v = {b, strlen(b)};
  rec(3, a, 0, 0, &v, 1);
}
int rename(const char *o, const char *n) {
  init();
  rec_rename(AT_FDCWD, o, AT_FDCWD, n);
  return real_rename(o, n);
}
int renameat(int od, const char *o, int nd, const char *n) {
  init();
  rec_rename(od, o, nd, n);
  return real_renameat(od, o, nd, n);
}
int renameat2(int od, const char *o, int nd, const char *n, unsigned int f) {
  init();
  rec_rename(od, o, nd, n);
  return real_renameat2(od, o, nd, n, f);
}

int ftruncate(int fd, off_t len) {
  init();
  char p[PATH_MAX];
  if (fd_path(fd, p)) rec(5, p, (uint64_t)len, 0, NULL, 0);
  return real_ftruncate(fd, len);
}
int ftruncate64(int fd, off64_t len) {
  init();
  char p[PATH_MAX];
  if (fd_path(fd, p)) rec(5, p, (uint64_t)len, 0, NULL, 0);
  return real_ftruncate64(fd, len);
}

static void rec_unlink(int dfd, const char *path) {
  char a[PATH_MAX];
  if (jfd < 0 || !abs_path(dfd, path, a) || !under_root(a)) return;
  rec(6, a, 0, 0, NULL, 0);
}
int unlink(const char *p) {
  init();
  rec_unlink(AT_FDCWD, p);
  return real_unlink(p);
}
int unlinkat(int dfd, const char *p, int fl) {
  init();
  rec_unlink(dfd, p);
  return real_unlinkat(dfd, p, fl);
}

static void rec_open(int dfd, const char *path, int flags) {
  char a[PATH_MAX];
  if (jfd < 0 || !(flags & (O_CREAT | O_TRUNC))) return;
  if (!abs_path(dfd, path, a) || !under_root(a)) return;
  struct stat st;
  int exists = (stat(a, &st) == 0);
  if ((flags & O_TRUNC) || !exists) rec(4, a, (flags & O_TRUNC) ? 1 : 0, 0, NULL, 0);
}

#define GET_MODE            \
  mode_t mode = 0;          \
  if (flags & (O_CREAT | O_TMPFILE)) { \
    va_list ap;             \
    va_start(ap, flags);    \
    mode = va_arg(ap, mode_t); \
    va_end(ap);             \
  }

int open(const char *p, int flags, ...) {
  init();
  GET_MODE;
  rec_open(AT_FDCWD, p, flags);
  return real_open(p, flags, mode);
}
int open64(const char *p, int flags, ...) {
  init();
  GET_MODE;
  rec_open(AT_FDCWD, p, flags);
  return real_open64(p, flags, mode);
}
int openat(int dfd, const char *p, int flags, ...) {
  init();
  GET_MODE;
  rec_open(dfd, p, flags);
  return real_openat(dfd, p, flags, mode);
}
int openat64(int dfd, const char *p, int flags, ...) {
  init();
  GET_MODE;
  rec_open(dfd, p, flags);
  return real_openat64(dfd, p, flags, mode);
}
int creat(const char *p, mode_t mode) {
  init();
  rec_open(AT_FDCWD, p, O_CREAT | O_TRUNC);
  return real_creat(p, mode);
}
static int mode_flags(const char *m) {
  if (!m) return 0;
  if (m[0] == 'w') return O_CREAT | O_TRUNC;
  if (m[0] == 'a') return O_CREAT;
  return 0;
}
FILE *fopen(const char *p, const char *m) {
  init();
  rec_open(AT_FDCWD, p, mode_flags(m));
  return real_fopen(p, m);
}
FILE *fopen64(const char *p, const char *m) {
  init();
  rec_open(AT_FDCWD, p, mode_flags(m));
  return real_fopen64(p, m);
}
