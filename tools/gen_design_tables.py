#!/usr/bin/env python3
"""Regenerates the machine-written tables of DESIGN.md (between the BEGIN/END markers) from evidence/*.json,
seeded/*/meta.json and seeded/*/last_run.json."""
import glob
import json
import os
import re

ROOT = os.path.dirname(os.path.dirname(os.path.abspath(__file__)))


def cost_table():
    rows = ["| id | level | evaluations | distinct non-trivial | states / transitions / traces | known findings matched | quick wall (s) |", "|---|---|---|---|---|---|---|"]
    for f in sorted(glob.glob(os.path.join(ROOT, "evidence", "C*.json"))):
        e = json.load(open(f))
        c = e["coverage"]
        st = f"{c.get('states', '-')} / {c.get('transitions', '-')} / {c.get('traces_validated_against_impl', '-')}" if "states" in c else "-"
        kf = sum(c.get("known_findings_matched", {}).values())
        rows.append(f"| {e['property_id']} | {e['level']} | {c.get('evaluations')} | {c.get('distinct_nontrivial')} | {st} | {kf} | {e['wall_s']:.0f} |")
    return "\n".join(rows)


def thorough_table():
    rows = ["| id | evaluations | distinct non-trivial | states / transitions / traces | known findings matched | violations | thorough wall (s) |", "|---|---|---|---|---|---|---|"]
    for f in sorted(glob.glob(os.path.join(ROOT, "evidence", "thorough", "C*.json"))):
        e = json.load(open(f))
        c = e["coverage"]
        st = f"{c.get('states', '-')} / {c.get('transitions', '-')} / {c.get('traces_validated_against_impl', '-')}" if "states" in c else "-"
        kf = sum(c.get("known_findings_matched", {}).values())
        v = e.get("violations")
        rows.append(f"| {e['property_id']} | {c.get('evaluations')} | {c.get('distinct_nontrivial')} | {st} | {kf} | {len(v) if isinstance(v, list) else v} | {e['wall_s']:.0f} |")
    return "\n".join(rows)


def seed_table():
    rows = ["| seed | what was changed (one line) | needs, to manifest | caught by (quick tier, violations) | initially missed? |", "|---|---|---|---|---|"]
    notes = json.load(open(os.path.join(ROOT, "seeded", "strengthening.json"))) if os.path.exists(os.path.join(ROOT, "seeded", "strengthening.json")) else {}
    for d in sorted(glob.glob(os.path.join(ROOT, "seeded", "C*"))):
        sid = os.path.basename(d)
        m = json.load(open(os.path.join(d, "meta.json")))
        lr = json.load(open(os.path.join(d, "last_run.json"))) if os.path.exists(os.path.join(d, "last_run.json")) else None
        caught = "not run" if not lr else ", ".join(f"{c['check']} ({c['violations']})" if c["exit"] == 1 else f"{c['check']} (missed)" for c in lr["checks"])
        summ = re.sub(r"\s+", " ", m.get("summary", "")).strip()
        needs = re.sub(r"\s+", " ", m.get("needs", "")).strip()
        esc = lambda t: t.replace("|", "&#124;")  # noqa: E731 - a literal pipe would split the table cell
        rows.append(f"| {sid} | {esc(summ[:260])} | {esc(needs[:220])} | {caught} | {esc(notes.get(sid, ''))} |")
    return "\n".join(rows)


def main():
    p = os.path.join(ROOT, "DESIGN.md")
    s = open(p).read()
    for name, fn in (("COST", cost_table), ("THOROUGH", thorough_table), ("SEEDS", seed_table)):
        b, e = f"<!-- BEGIN {name} -->", f"<!-- END {name} -->"
        if b in s and e in s:
            s = s[: s.index(b) + len(b)] + "\n" + fn() + "\n" + s[s.index(e) :]
    open(p, "w").write(s)
    print("tables regenerated")


if __name__ == "__main__":
    main()
