#!/bin/bash
# usage: run_seeds.sh "<p> <i> <PIDs...>" ...   each arg: "c11 1 C11 C10"
cd "$(dirname "${BASH_SOURCE[0]}")/.."
mkdir -p /tmp/seedruns
for spec in "$@"; do
  set -- $spec; p=$1; i=$2; shift 2
  for pid in "$@"; do
    t0=$(date +%s)
    VP_REPO=/tmp/wt_chk_${p}_$i ./check $pid --tier quick > /tmp/seedruns/$p.$i.$pid.log 2>&1; rc=$?
    echo "seed $p-$i check $pid rc=$rc wall=$(( $(date +%s)-t0 ))s viol=$(grep -c '^VIOLATION' /tmp/seedruns/$p.$i.$pid.log) :: $(grep -m1 'detail:' /tmp/seedruns/$p.$i.$pid.log | cut -c1-220)" | tee -a /tmp/seedruns/summary.txt
  done
done
