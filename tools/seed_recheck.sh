#!/bin/bash
# usage: seed_recheck.sh <wave> <p> <i> "<PIDs>" [confirm]   apply seed i of property p in its scratch worktree and run the quick
# tier of the given checks (with "confirm": demo on the clean tree, demo with the patch and the whole test suite first).
# One seed of a property at a time (per-property lock: the two seeds of a property share the worktree).
W=$1; P=$2; I=$3; PIDS=$4; CONF=$5
WT=/tmp/wt_seed${W}_$P; OUT=/tmp/seed_out${W}_$P; LOG=/tmp/seed${W}_confirm; RUNS=/tmp/seedruns$W; mkdir -p $LOG $RUNS
export OMP_NUM_THREADS=1 MKL_NUM_THREADS=1 PYTHONWARNINGS=ignore
exec 9>/tmp/seed${W}_lock_$P; flock 9
cd $WT && git checkout -q -- . && git clean -fdq
if [ "$CONF" = confirm ]; then
  PYTHONPATH=$WT timeout 900 /venv/bin/python $OUT/demo_$I.py > $LOG/$P.$I.demo_clean.log 2>&1; A=$?
fi
git apply $OUT/patch_$I.diff || { echo "$P $I APPLY-FAILED" | tee -a $LOG/summary.txt; exit 1; }
if [ "$CONF" = confirm ]; then
  PYTHONPATH=$WT timeout 900 /venv/bin/python $OUT/demo_$I.py > $LOG/$P.$I.demo_patched.log 2>&1; B=$?
  PYTHONPATH=$WT timeout 7200 /venv/bin/python -m pytest -q -p no:cacheprovider --timeout=3000 -n 4 tests > $LOG/$P.$I.tests.log 2>&1; C=$?
  echo "$P $I demo_clean_rc=$A demo_patched_rc=$B tests_rc=$C $(tail -1 $LOG/$P.$I.tests.log)" | tee -a $LOG/summary.txt
fi
cd /verif
for pid in $PIDS; do
  t0=$(date +%s)
  VP_WORKERS=${VP_WORKERS:-8} VP_REPO=$WT ./check $pid --tier quick > $RUNS/$P.$I.$pid.log 2>&1; rc=$?
  echo "seed$W $P-$I check $pid rc=$rc wall=$(( $(date +%s)-t0 ))s viol=$(grep -c '^VIOLATION' $RUNS/$P.$I.$pid.log) :: $(grep -m1 'detail:' $RUNS/$P.$I.$pid.log | cut -c1-220)" | tee -a $RUNS/summary.txt
done
cd $WT && git checkout -q -- . && git clean -fdq
