#!/bin/bash
# usage: confirm_seed.sh <prop lower e.g. c10> <i> "<pytest targets>"
# Confirms in the seed's scratch worktree: demo passes without patch, fails with patch, relevant tests pass with patch.
P=$1; I=$2; TESTS=$3
WT=/tmp/wt_seed_$P; OUT=/tmp/seed_out_$P; LOG=/tmp/seed_confirm; mkdir -p $LOG
export OMP_NUM_THREADS=1 MKL_NUM_THREADS=1 PYTHONPATH=$WT PYTHONWARNINGS=ignore
cd $WT && git checkout -q -- . && git clean -fdq
timeout 900 /venv/bin/python $OUT/demo_$I.py > $LOG/$P.$I.demo_clean.log 2>&1; A=$?
git apply $OUT/patch_$I.diff || { echo "$P $I APPLY-FAILED"; exit 1; }
timeout 900 /venv/bin/python $OUT/demo_$I.py > $LOG/$P.$I.demo_patched.log 2>&1; B=$?
timeout 7200 /venv/bin/python -m pytest -q -p no:cacheprovider --timeout=3000 -n 4 $TESTS > $LOG/$P.$I.tests.log 2>&1; C=$?
git checkout -q -- . && git clean -fdq
echo "$P $I demo_clean_rc=$A demo_patched_rc=$B tests_rc=$C $(tail -1 $LOG/$P.$I.tests.log)" | tee -a $LOG/summary.txt
