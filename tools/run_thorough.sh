#!/bin/bash
# usage: run_thorough.sh [ids...]   thorough tier of every check, one after the other; keeps a copy of each evidence
# file under evidence/thorough/ (evidence/<id>.json itself is rewritten by whichever tier ran last)
cd "$(dirname "${BASH_SOURCE[0]}")/.."
IDS=${@:-C12 C19 C09 C13 C16 C04 C06 C02 C14 C18 C03 C07 C11 C17 C10 C15 C20 C05 C01 C08}
mkdir -p evidence/thorough
for id in $IDS; do
  t0=$(date +%s)
  [ -n "$KEEP_QUICK_EVIDENCE" ] && cp evidence/$id.json /tmp/ev_keep_$id.json 2>/dev/null
  timeout ${THOROUGH_TIMEOUT:-14400} ./check $id --tier thorough > /tmp/thorough_$id.log 2>&1; rc=$?
  t1=$(date +%s)
  [ -f evidence/$id.json ] && grep -q '"tier": *"thorough"' evidence/$id.json && cp evidence/$id.json evidence/thorough/$id.json
  [ -n "$KEEP_QUICK_EVIDENCE" ] && [ -f /tmp/ev_keep_$id.json ] && mv /tmp/ev_keep_$id.json evidence/$id.json  # the quick tier's own evidence file comes back
  echo "$id rc=$rc wall=$((t1-t0))s $(grep -c '^VIOLATION' /tmp/thorough_$id.log) violations; $(tail -1 /tmp/thorough_$id.log | cut -c1-260)"
done
