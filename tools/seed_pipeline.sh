#!/bin/bash
# usage: seed_pipeline.sh <p> <i> "<PIDs>"   confirm seed (demo both ways + full tests) and run the named checks against it
P=$1; I=$2; PIDS=$3
cd /verif
tools/confirm_seed.sh $P $I tests
D=/tmp/wt_chk_${P}_$I
[ -d $D ] || git -C /repo worktree add -q $D HEAD
(cd $D && git checkout -q -- . && git apply /tmp/seed_out_$P/patch_$I.diff) || { echo "seed $P-$I APPLY FAILED on HEAD" | tee -a /tmp/seedruns/summary.txt; exit 1; }
tools/run_seeds.sh "$P $I $PIDS"
