#!/usr/bin/env python3
"""usage: install_wave.py <wave> <p> <i> [...]   copy a confirmed seed of a wave (written by a sub-agent to /tmp/seed_out<W>_<p>/,
confirmed by tools/seed_wave.sh) to seeded/<ID>/ with the next free number; last_run.json from the wave's run summary."""
import glob
import json
import os
import re
import shutil
import subprocess
import sys

ROOT = os.path.dirname(os.path.dirname(os.path.abspath(__file__)))


def main():
    W = sys.argv[1]
    head = subprocess.run(["git", "-C", "/repo", "rev-parse", "--short", "HEAD"], capture_output=True, text=True).stdout.strip()
    for p, i in zip(sys.argv[2::2], sys.argv[3::2]):
        P = p.upper()
        out = f"/tmp/seed_out{W}_{p}"
        conf = [l for l in open(f"/tmp/seed{W}_confirm/summary.txt") if l.startswith(f"{p} {i} ")]
        if not conf:
            print(p, i, "not confirmed yet")
            continue
        m = re.match(r"\S+ \S+ demo_clean_rc=(\d+) demo_patched_rc=(\d+) tests_rc=(\d+) (.*)", conf[-1])
        a, b, c, tail = int(m.group(1)), int(m.group(2)), int(m.group(3)), m.group(4).strip()
        if not (a == 0 and b != 0 and c == 0):
            print(p, i, "NOT KEPT:", conf[-1].strip())
            continue
        meta = json.load(open(f"{out}/meta_{i}.json"))
        existing = [d for d in glob.glob(os.path.join(ROOT, "seeded", f"{P}-*")) if json.load(open(d + "/meta.json")).get("wave_src") == f"{W}:{p}:{i}"]
        if existing:
            d = existing[0]
        else:
            n = max([int(os.path.basename(d).split("-")[1]) for d in glob.glob(os.path.join(ROOT, "seeded", f"{P}-*"))] + [0]) + 1
            d = os.path.join(ROOT, "seeded", f"{P}-{n}")
        os.makedirs(d, exist_ok=True)
        sid = os.path.basename(d)
        shutil.copy(f"{out}/patch_{i}.diff", d + "/patch.diff")
        shutil.copy(f"{out}/demo_{i}.py", d + "/demo.py")
        meta.update(id=sid, wave=int(W), wave_src=f"{W}:{p}:{i}", confirmed_by_me={
            "how": f"tools/seed_wave.sh in a scratch worktree of /repo at {head} (demo on clean tree, demo with patch, whole test suite with patch)",
            "demo_clean_rc": a, "demo_patched_rc": b, "tests_rc": c, "tests_summary": tail})
        json.dump(meta, open(d + "/meta.json", "w"), indent=1)
        checks = {}
        for l in open(f"/tmp/seedruns{W}/summary.txt"):
            mm = re.match(rf"seed{W} {p}-{i} check (\S+) rc=(\d+) wall=(\d+)s viol=(\d+) :: ?(.*)", l)
            if mm and int(mm.group(2)) in (0, 1):  # other exit codes: run stopped by me / harness trouble, not a verdict
                checks[mm.group(1)] = {"check": mm.group(1), "exit": int(mm.group(2)), "violations": int(mm.group(4)), "first": mm.group(5).strip()[:240].replace('"', "'")}
        own = [checks[k] for k in checks if k == P] + [checks[k] for k in checks if k != P]
        json.dump({"id": sid, "repo_head": head, "tests_rc": c, "tests": tail, "demo_rc_with_patch": b, "checks": own}, open(d + "/last_run.json", "w"))
        print(sid, "<-", p, i, [(c_["check"], c_["exit"], c_["violations"]) for c_ in own])


main()
