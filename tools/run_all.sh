#!/bin/bash
# usage: tools/run_all.sh [tier] [seed ...]   runs every check registered in MANIFEST.json, prints one line each
cd "$(dirname "${BASH_SOURCE[0]}")/.."
TIER=${1:-quick}; shift
SEEDS=${@:-0}
mkdir -p /tmp/vp_runall
for seed in $SEEDS; do
  for pid in $(python3 -c "import json;print(' '.join(c['property_id'] for c in json.load(open('MANIFEST.json'))['checks']))"); do
    t0=$(date +%s)
    VERIF_SEED=$seed ./check $pid --tier $TIER > /tmp/vp_runall/$pid.$TIER.$seed.log 2>&1
    rc=$?
    t1=$(date +%s)
    echo "$pid seed=$seed tier=$TIER rc=$rc wall=$((t1-t0))s $(grep -c '^VIOLATION' /tmp/vp_runall/$pid.$TIER.$seed.log) violations, $(grep -c '^KNOWN-FINDING' /tmp/vp_runall/$pid.$TIER.$seed.log) known; $(grep '^\[' /tmp/vp_runall/$pid.$TIER.$seed.log | tail -1 | cut -c1-160)"
  done
done
