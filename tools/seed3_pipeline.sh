#!/bin/bash
# wave 3: usage seed3_pipeline.sh <p> <i> "<PIDs>"
P=$1; I=$2; PIDS=$3
WT=/tmp/wt_seed3_$P; OUT=/tmp/seed_out3_$P; LOG=/tmp/seed3_confirm; mkdir -p $LOG /tmp/seedruns3
export OMP_NUM_THREADS=1 MKL_NUM_THREADS=1 PYTHONWARNINGS=ignore
cd $WT && git checkout -q -- . && git clean -fdq
PYTHONPATH=$WT timeout 900 /venv/bin/python $OUT/demo_$I.py > $LOG/$P.$I.demo_clean.log 2>&1; A=$?
git apply $OUT/patch_$I.diff || { echo "$P $I APPLY-FAILED" | tee -a $LOG/summary.txt; exit 1; }
PYTHONPATH=$WT timeout 900 /venv/bin/python $OUT/demo_$I.py > $LOG/$P.$I.demo_patched.log 2>&1; B=$?
PYTHONPATH=$WT timeout 7200 /venv/bin/python -m pytest -q -p no:cacheprovider --timeout=3000 -n 4 tests > $LOG/$P.$I.tests.log 2>&1; C=$?
echo "$P $I demo_clean_rc=$A demo_patched_rc=$B tests_rc=$C $(tail -1 $LOG/$P.$I.tests.log)" | tee -a $LOG/summary.txt
cd /verif
for pid in $PIDS; do
  t0=$(date +%s)
  VP_REPO=$WT ./check $pid --tier quick > /tmp/seedruns3/$P.$I.$pid.log 2>&1; rc=$?
  echo "seed3 $P-$I check $pid rc=$rc wall=$(( $(date +%s)-t0 ))s viol=$(grep -c '^VIOLATION' /tmp/seedruns3/$P.$I.$pid.log) :: $(grep -m1 'detail:' /tmp/seedruns3/$P.$I.$pid.log | cut -c1-220)" | tee -a /tmp/seedruns3/summary.txt
done
cd $WT && git checkout -q -- . && git clean -fdq
