#!/bin/bash
# usage: seed_matrix.sh [ids...]    for every seeded change: fresh worktree of /repo HEAD + patch, whole test suite, demo,
# then the quick tier of the property's own check (plus related checks listed in EXTRA); results -> seeded/<id>/last_run.json
cd "$(dirname "${BASH_SOURCE[0]}")/.."
declare -A EXTRA=( [C12-2]="C10" [C08-1]="C13" [C08-2]="C11" [C14-2]="C09" [C16-2]="C05" [C05-1]="C03" [C03-1]="C05" [C04-1]="C06" [C02-2]="C19" [C03-2]="C04" [C07-4]="C15" [C19-4]="C18" [C04-4]="C05" [C05-4]="C01" [C02-4]="C16" [C12-3]="C15" [C05-6]="C13" [C13-6]="C08" [C08-5]="C13" [C08-6]="C11" [C11-7]="C10" [C16-6]="C05" [C05-5]="C16" [C02-5]="C19" [C02-6]="C14" [C04-5]="C01" [C18-6]="C03" [C05-7]="C15" [C15-8]="C12" [C16-7]="C02" [C03-7]="C05" )
IDS=${@:-$(ls seeded)}
export OMP_NUM_THREADS=1 MKL_NUM_THREADS=1
for id in $IDS; do
  d=seeded/$id; wt=/tmp/wt_matrix_$id
  git -C /repo worktree remove --force $wt >/dev/null 2>&1; rm -rf $wt
  git -C /repo worktree add -q $wt HEAD || continue
  if ! (cd $wt && git apply /verif/$d/patch.diff); then echo "$id APPLY-FAILED"; git -C /repo worktree remove --force $wt; continue; fi
  (cd $wt && PYTHONPATH=$wt timeout 3000 /venv/bin/python -m pytest -q -p no:cacheprovider --timeout=3000 -n 4 tests > /tmp/matrix_$id.tests.log 2>&1); trc=$?
  (cd $wt && PYTHONPATH=$wt PYTHONWARNINGS=ignore timeout 900 /venv/bin/python /verif/$d/demo.py > /tmp/matrix_$id.demo.log 2>&1); drc=$?
  pid=${id%-*}
  res=""
  for c in $pid ${EXTRA[$id]}; do
    VP_REPO=$wt VP_WORKERS=${VP_WORKERS:-16} ./check $c --tier quick > /tmp/matrix_$id.$c.log 2>&1; rc=$?
    nv=$(grep -c '^VIOLATION' /tmp/matrix_$id.$c.log)
    first=$(grep -m1 'detail:' /tmp/matrix_$id.$c.log | cut -c1-240 | tr '"' "'")
    res="$res{\"check\":\"$c\",\"exit\":$rc,\"violations\":$nv,\"first\":\"$first\"},"
  done
  echo "{\"id\":\"$id\",\"repo_head\":\"$(git -C /repo rev-parse --short HEAD)\",\"tests_rc\":$trc,\"tests\":\"$(tail -1 /tmp/matrix_$id.tests.log | tr -d '=' | xargs)\",\"demo_rc_with_patch\":$drc,\"checks\":[${res%,}]}" > $d/last_run.json
  echo "$id tests_rc=$trc demo_rc=$drc $(echo $res | grep -o '"check":"[A-Z0-9]*","exit":[0-9]*,"violations":[0-9]*' | tr '\n' ' ')"
  git -C /repo worktree remove --force $wt >/dev/null 2>&1
done
