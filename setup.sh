#!/bin/bash
# Offline setup: builds the LD_PRELOAD write-journal shim (C10). Everything else is pure Python.
set -e
cd "$(dirname "${BASH_SOURCE[0]}")"
mkdir -p evidence replays native
if [ -f native/journal.c ]; then
  gcc -O2 -shared -fPIC -o native/journal.so native/journal.c -ldl
fi
echo "setup ok"
