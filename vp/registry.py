"""Single source for MANIFEST.json: `python -m vp.registry` rewrites /verif/MANIFEST.json."""
import json
import os

from . import VERIF_ROOT

CHECKS = {}
NOT_APPLICABLE = {}


def reg(pid, category, text, note, technique, design_ref):
    CHECKS[pid] = dict(category=category, text=text, note=note, technique=technique, design_ref=design_ref)


reg(
    "C11",
    "model_checking",
    "Exhaustive product lattice of cadence tuples x run lengths x molecule-id subsets x engines x "
    "{fresh, resumed after each checkpoint}; every tuple is one execution of the real MD run loop and the real "
    "HDF5/XYZ writers, compared stream by stream (labels exactly, values bitwise) with a reference cadence model; "
    "the electronic structure is replayed from a recorded real trajectory and the replay is validated against "
    "the real driver on a sub-lattice in every run.",
    "Trusted: h5py reading back what was written; the replayed electronic structure (validated bitwise against "
    "the real driver each run). Bounds: cadences in {0,1,2,3,5,8}, <= 8 steps, 3-molecule batch.",
    "explicit enumeration of a finite configuration lattice on the real writer/step-loop code against a reference model (conformance replay)",
    "DESIGN.md section 4, C11",
)

reg(
    "C06",
    "model_checking",
    "Exhaustive lattice method (MNDO/AM1/PM3) x every element pair of the s/sp tables (principal quantum numbers 1-1..3-3) x "
    "distance (0.6-15 A: 9 stated, 8 in-between, and the two distances bracketing each junction of the overlap algorithm) x "
    "orientation (+-x,+-y,+-z, +-generic) x trial densities (base + every symmetric one-hot, fixed pseudo-random, idempotent; "
    "closed and open shell). Each lattice point is one diatomic pushed through the real hcore / overlap / fock / fock_u_batch / "
    "G_XL_LR.G / CIS response build / pair_nuclear_energy kernels and compared block by block (overlap, 22 local and 100 rotated "
    "two-centre integrals, Hcore, E_nuc, every Fock matrix) with an independent scalar reference model (prolate-spheroidal "
    "quadrature overlaps, point-charge Dewar-Thiel multipoles with Klopman-Ohno damping, brentq additive terms, generic 4-index "
    "rotation, dense J/K), plus reference-free identities (linearity fock(P+dP)-fock(P)=G(dP)=response(dP), fock_u(P/2,P/2)=fock(P), "
    "centre exchange of w) and SCF single points of the molecule alphabet (Hcore/w/Fock block-wise, E_elec[P], E_nuc, E_iso, "
    "E_tot, Hf, reference SCF restarted from the package density).",
    "Trusted: nddo_ref.py as a statement of the published equations (self-tested every run: closed-form 1s-1s overlap, one-centre "
    "limits, invariance to rotation about the bond); MOPAC unit constants and atomic heats; shipped CSV tables (shared input). "
    "Mirrored MOPAC conventions: h_pp floor 0.1 eV in rho2, B-series evaluation decided by a probe (truncated at the pinned commit, "
    "<= 2.4e-7 on overlaps). Tolerances 1e-7 eV integrals (measured 4.4e-9), 1e-9 overlaps (7.8e-12), 1e-10 identities (6e-14). "
    "Bounds: H..Cl s/sp, the stated distance/orientation alphabet; PM6/PM6_SP, d orbitals and distances off the grid not covered. "
    "There is no transition system behind the state/transition counts: states = lattice points evaluated in the reference, "
    "transitions = block comparisons, traces = lattice points replayed against the implementation.",
    "explicit enumeration of a finite input lattice on the real integral/Fock kernels against an independent reference model (conformance replay) plus algebraic identities",
    "DESIGN.md section 4, C06",
)

reg(
    "C09",
    "model_checking",
    "(a) States (engine in {XL, KSA}, k in 3..9, buffer phase, resumed?) are explored exhaustively: the real XL_BOMD / "
    "KSA_XL_BOMD objects run through the real run loop, save_checkpoint and run_from_checkpoint with a tagged one-hot "
    "stub electronic structure, so the auxiliary density handed to the electronic structure at every step over three "
    "wraps of the circular buffer, fresh and resumed at every phase, is read off as exact coefficients and compared "
    "with the published dissipative Verlet recurrence (independent table, itself validated by sum c_j = 0 and "
    "sum j c_j = 0). (b) spectral radius of the companion matrix of the coefficients identified on the implementation "
    "over a 2001-point grid of the admissible response range. (c) E_XL(D=P*) = E_SCF, (d) stationary system keeps P "
    "(dt = 0, all k, killed and resumed at buffer phases), (e) dt^2 scaling of shadow-energy fluctuation and "
    "convergence to BOMD, all on the real driver.",
    "Trusted: numpy eigvals; linearity of the propagation (checked by superposition on the real _propagate_P). "
    "kappa' in (0, kappa_published] accepted. (e) decided on a 6.4 fs horizon.",
    "explicit-state exploration of the (k, buffer phase, restart) machine on the real integrator with tagged inputs, replayed against a reference recurrence; plus finite lattices on the real driver",
    "DESIGN.md section 4, C09",
)

reg(
    "C10",
    "fault_enumeration",
    "Breadth-first search over crash sequences (depth <= 3) where a state is the on-disk image left by a crash: from "
    "the empty directory every prefix of the physical write journal of the uninterrupted run (LD_PRELOAD shim that "
    "records every libc-level file mutation with payload = SIGKILL at every possible instant), every 4096-byte page "
    "split of a multi-page last write (torn write), and a soft crash (exception, finally-block runs) before/after the "
    "n-th call of every instrumented program point; from crash images, resumed runs crashed again hard (os._exit) or "
    "soft. In EVERY state the real recovery (run_from_checkpoint, or rerun when no checkpoint exists) is executed and "
    "every HDF5 dataset, step log and XYZ frame sequence compared with the uninterrupted run; checkpoints must load "
    "and carry the documented keys.",
    "Trusted: the journal shim sees all file mutations (validated every run: replaying the full journal reproduces "
    "the run directory byte for byte); process death only (page cache survives), no power-loss reordering. Hard kills "
    "inside resumed runs are at program points, not every journal prefix. Known finding: kills inside an HDF5 library "
    "write leave the .h5 inconsistent.",
    "exhaustive crash-point enumeration over a recorded write journal + program-point fault injection, BFS over crash sequences with byte-identical state merging, recovery executed on the real code in every state",
    "DESIGN.md section 4, C10",
)

reg(
    "C15",
    "model_checking",
    "Breadth-first enumeration of all sequences of public-API events (heterogeneous job pool x {fresh objects, reused "
    "settings dict, reused dict + driver}) up to the stated depth, each sequence in its own freshly forked process "
    "(the event history is the state; nothing is merged), followed by a probe event compared with the same event run "
    "as the first act of a fresh process (bitwise / 1e-12; gradients 1e-9); forward and backward passes of "
    "differentiable jobs are separate events and all interleavings of 2 (quick) and 3 (thorough) jobs are "
    "enumerated; identical call repeated in-process must be bitwise identical; intra-op thread counts 2..16.",
    "Fresh process = forked from a parent that imported torch+seqm and executed nothing. Depth 1 over the full "
    "33-event alphabet, depth 2 (3 in thorough) over the stateful sub-alphabet. A reused driver meeting elements "
    "outside the element list it was built with is refused loudly by the package and counted as rejected. "
    "Concurrent Python callers are outside the statement.",
    "stateless exploration of all operation sequences up to a depth on the real API, one fresh process per sequence, differential oracle against the fresh-process twin",
    "DESIGN.md section 4, C15",
)

ALL = [f"C{i:02d}" for i in range(1, 21)]


def build():
    checks = []
    for pid in ALL:
        if pid not in CHECKS:
            continue
        c = CHECKS[pid]
        checks.append(
            {
                "property_id": pid,
                "quick_cmd": f"./check {pid} --tier quick",
                "thorough_cmd": f"./check {pid} --tier thorough",
                "evidence_file": f"evidence/{pid}.json",
                "replay_cmd_template": f"./check {pid} --replay {{path}}",
                "engine": "vp-explorer",
                "level_claimed": {"category": c["category"], "text": c["text"], "design_ref": c["design_ref"]},
                "level_note": c["note"],
                "technique": c["technique"],
            }
        )
    na = []
    for pid in ALL:
        if pid not in CHECKS:
            na.append(
                {
                    "property_id": pid,
                    "reason": NOT_APPLICABLE.get(
                        pid, "check not built yet in this revision (the design in DESIGN.md applies; see section 4)"
                    ),
                }
            )
    man = {
        "version": 1,
        "setup_cmd": "./setup.sh",
        "hooks": {
            "guard": "LANL_PYSEQM_VERIF",
            "enable": "no source hooks: all observation and fault injection is done from the harness side "
            "(wrapping, LD_PRELOAD write journal, sys.settrace); checks export LANL_PYSEQM_VERIF=1 anyway",
            "baseline_off_cmd": "cd /repo && env -u LANL_PYSEQM_VERIF /venv/bin/python -m pytest -ra -q -p no:cacheprovider --timeout=900 --continue-on-collection-errors",
            "source_commits": [],
            "add_only": True,
        },
        "engines": [
            {
                "name": "vp-explorer",
                "path": "vp/",
                "serves_properties": [c["property_id"] for c in checks],
                "kind_free_text": "hand-written bounded exhaustive explorer for Python: lattice products, BFS over "
                "operation sequences, crash-point enumeration over a physical write journal, scripted environment "
                "answers; every execution runs the real PYSEQM code in a forked process",
            }
        ],
        "checks": checks,
        "notes": "See DESIGN.md. Known findings and fixes are in known_findings.json.",
        "not_applicable": na,
    }
    return man


def main():
    man = build()
    with open(os.path.join(VERIF_ROOT, "MANIFEST.json"), "w") as fh:
        json.dump(man, fh, indent=1)
    print("MANIFEST.json:", len(man["checks"]), "checks;", len(man["not_applicable"]), "not claimed")


if __name__ == "__main__":
    main()
