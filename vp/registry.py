"""Single source for MANIFEST.json: `python -m vp.registry` rewrites /verif/MANIFEST.json."""
import json
import os

from . import VERIF_ROOT

CHECKS = {}
NOT_APPLICABLE = {}


def reg(pid, category, text, note, technique, design_ref):
    CHECKS[pid] = dict(category=category, text=text, note=note, technique=technique, design_ref=design_ref)


reg(
    "C11",
    "model_checking",
    "Exhaustive product lattice of cadence tuples x run lengths x molecule-id subsets x engines x "
    "{fresh, resumed after each checkpoint}; every tuple is one execution of the real MD run loop and the real "
    "HDF5/XYZ writers, compared stream by stream (labels exactly, values bitwise) with a reference cadence model; "
    "the electronic structure is replayed from a recorded real trajectory and the replay is validated against "
    "the real driver on a sub-lattice in every run.",
    "Trusted: h5py reading back what was written; the replayed electronic structure (validated bitwise against "
    "the real driver each run). Bounds: cadences in {0,1,2,3,5,8}, <= 8 steps, 3-molecule batch.",
    "explicit enumeration of a finite configuration lattice on the real writer/step-loop code against a reference model (conformance replay)",
    "DESIGN.md section 4, C11",
)

reg(
    "C06",
    "model_checking",
    "Exhaustive lattice method (MNDO/AM1/PM3) x every element pair of the s/sp tables (principal quantum numbers 1-1..3-3) x "
    "distance (0.6-15 A: 9 stated, 8 in-between, and the two distances bracketing each junction of the overlap algorithm) x "
    "orientation (+-x,+-y,+-z, +-generic) x trial densities (base + every symmetric one-hot, fixed pseudo-random, idempotent; "
    "closed and open shell). Each lattice point is one diatomic pushed through the real hcore / overlap / fock / fock_u_batch / "
    "G_XL_LR.G / CIS response build / pair_nuclear_energy kernels and compared block by block (overlap, 22 local and 100 rotated "
    "two-centre integrals, Hcore, E_nuc, every Fock matrix) with an independent scalar reference model (prolate-spheroidal "
    "quadrature overlaps, point-charge Dewar-Thiel multipoles with Klopman-Ohno damping, brentq additive terms, generic 4-index "
    "rotation, dense J/K), plus reference-free identities (linearity fock(P+dP)-fock(P)=G(dP)=response(dP), fock_u(P/2,P/2)=fock(P), "
    "centre exchange of w) and SCF single points of the molecule alphabet (Hcore/w/Fock block-wise, E_elec[P], E_nuc, E_iso, "
    "E_tot, Hf, reference SCF restarted from the package density).",
    "Trusted: nddo_ref.py as a statement of the published equations (self-tested every run: closed-form 1s-1s overlap, one-centre "
    "limits, invariance to rotation about the bond); MOPAC unit constants and atomic heats; shipped CSV tables (shared input). "
    "Mirrored MOPAC conventions: h_pp floor 0.1 eV in rho2, B-series evaluation decided by a probe (truncated at the pinned commit, "
    "<= 2.4e-7 on overlaps). Tolerances 1e-7 eV integrals (measured 4.4e-9), 1e-9 overlaps (7.8e-12), 1e-10 identities (6e-14). "
    "Bounds: H..Cl s/sp, the stated distance/orientation alphabet; PM6/PM6_SP, d orbitals and distances off the grid not covered. "
    "There is no transition system behind the state/transition counts: states = lattice points evaluated in the reference, "
    "transitions = block comparisons, traces = lattice points replayed against the implementation.",
    "explicit enumeration of a finite input lattice on the real integral/Fock kernels against an independent reference model (conformance replay) plus algebraic identities",
    "DESIGN.md section 4, C06",
)

reg(
    "C09",
    "model_checking",
    "(a) States (engine in {XL, KSA}, k in 3..9, buffer phase, resumed?) are explored exhaustively: the real XL_BOMD / "
    "KSA_XL_BOMD objects run through the real run loop, save_checkpoint and run_from_checkpoint with a tagged one-hot "
    "stub electronic structure, so the auxiliary density handed to the electronic structure at every step over three "
    "wraps of the circular buffer, fresh and resumed at every phase, is read off as exact coefficients and compared "
    "with the published dissipative Verlet recurrence (independent table, itself validated by sum c_j = 0 and "
    "sum j c_j = 0). (b) spectral radius of the companion matrix of the coefficients identified on the implementation "
    "over a 2001-point grid of the admissible response range. (c) E_XL(D=P*) = E_SCF, (d) stationary system keeps P "
    "(dt = 0, all k, killed and resumed at buffer phases), (e) dt^2 scaling of shadow-energy fluctuation and "
    "convergence to BOMD, all on the real driver.",
    "Trusted: numpy eigvals; linearity of the propagation (checked by superposition on the real _propagate_P). "
    "kappa' in (0, kappa_published] accepted. (e) decided on a 6.4 fs horizon.",
    "explicit-state exploration of the (k, buffer phase, restart) machine on the real integrator with tagged inputs, replayed against a reference recurrence; plus finite lattices on the real driver",
    "DESIGN.md section 4, C09",
)

reg(
    "C10",
    "fault_enumeration",
    "Breadth-first search over crash sequences (depth <= 3) where a state is the on-disk image left by a crash: from "
    "the empty directory every prefix of the physical write journal of the uninterrupted run (LD_PRELOAD shim that "
    "records every libc-level file mutation with payload = SIGKILL at every possible instant), every 4096-byte page "
    "split of a multi-page last write (torn write), and a soft crash (exception, finally-block runs) before/after the "
    "n-th call of every instrumented program point; from crash images, resumed runs crashed again hard (os._exit) or "
    "soft. In EVERY state the real recovery (run_from_checkpoint, or rerun when no checkpoint exists) is executed and "
    "every HDF5 dataset, step log and XYZ frame sequence compared with the uninterrupted run; checkpoints must load "
    "and carry the documented keys.",
    "Trusted: the journal shim sees all file mutations (validated every run: replaying the full journal reproduces "
    "the run directory byte for byte); process death only (page cache survives), no power-loss reordering. Hard kills "
    "inside resumed runs: every prefix of the resumed process's own write journal from the start images of phase 2b, program points elsewhere. Known finding: kills inside an HDF5 library "
    "write leave the .h5 inconsistent.",
    "exhaustive crash-point enumeration over a recorded write journal + program-point fault injection, BFS over crash sequences with byte-identical state merging, recovery executed on the real code in every state",
    "DESIGN.md section 4, C10",
)

reg(
    "C15",
    "model_checking",
    "Breadth-first enumeration of all sequences of public-API events (heterogeneous job pool x {fresh objects, reused "
    "settings dict, reused dict + driver}) up to the stated depth, each sequence in its own freshly forked process "
    "(the event history is the state; nothing is merged), followed by a probe event compared with the same event run "
    "as the first act of a fresh process (bitwise / 1e-12; gradients 1e-9); forward and backward passes of "
    "differentiable jobs are separate events and all interleavings of 2 (quick) and 3 (thorough) jobs are "
    "enumerated; identical call repeated in-process must be bitwise identical; intra-op thread counts 2..16.",
    "Fresh process = forked from a parent that imported torch+seqm and executed nothing. Depth 1 over the full "
    "33-event alphabet, depth 2 (3 in thorough) over the stateful sub-alphabet. A reused driver meeting elements "
    "outside the element list it was built with is refused loudly by the package and counted as rejected. "
    "Concurrent Python callers are outside the statement.",
    "stateless exploration of all operation sequences up to a depth on the real API, one fresh process per sequence, differential oracle against the fresh-process twin",
    "DESIGN.md section 4, C15",
)

reg("C02","model_checking",
 "Breadth-first exploration of the Cayley graph of the octahedral rotation group (24 states, generators C4(z), C3(111), all 48 edges followed) acting on the documentation-layout geometry and on a generic pre-rotation of it, plus 90 cone points around the six axis directions (tilt 0,1e-9..1e-3) and translated copies, for every (molecule, method incl. d-orbital PM6, force mode, ground/CIS/RPA/UHF state) of the tier. Every state is one execution of the real driver compared with the group-theoretic prediction from the generic-orbit identity (scalars equal; forces, dipoles, NAC and transition dipoles rotated; net force and torque zero); every edge checks obs(h.g)=h.obs(g) and that the geometry reached by two generator words is bitwise the same state, re-executed at another batch position; disagreements are reproduced by single-molecule calls before they are reported.",
 "Trusted: numpy rotation algebra; the generic-orbit identity as reference (cross-checked by the absolute invariants and the other 23 generic states). Bounds: two orbits of O, cones, 3 translations, molecule alphabet of the tier, scf_eps 1e-11, CIS tol 1e-9; tolerances 1e-8 scalars, 1e-6/1e-7 autodiff vectors/torque, 1e-5 for analytical and semi-numerical modes (finite-difference overlap derivative, step 1e-5 A). Known findings: frozen local frame within 4.5e-4 rad of +-x, PM6 pole on +-z.",
 "explicit-state breadth-first exploration of a finite group's Cayley graph on the real code, group-theoretic prediction oracle on every state and transition relation on every edge",
 "DESIGN.md section 4, C02")
reg("C19","exploration",
 "Exhaustive lattice: all 15 unordered pairs (with repetition) and three triples of {H2O,NH3,CH4,HF,H2CO} in generic orientations x {MNDO,AM1,PM3,PM6_SP} x relative orientations x R in {8..500 A}; deviations of energy, fragment forces, charges and orbital energies from the isolated fragments must stay under the power-law envelope fixed by the same system at R<=22 A (R^-3, orbital energies R^-2), show no step at the 40-bohr overlap cutoff and be below absolute bounds at 500 A; pair_outer_cutoff sub-lattice: the package pair list must equal {r<cutoff} exactly (N(N-1)/2 by default), results equal the default when nothing is dropped and the sum of fragments when all cross pairs are dropped; a boundary lattice puts one cross pair at exactly r=5k A with cutoff in {r-,r,r+}.",
 "Trusted: plain-numpy reference pair list; isolated-fragment runs of the same code as the additive reference. Bounds: 5 fragments, 10 separations, <=3 orientations, K=5 envelope (worst healthy far/near 1.68), floor 1000 x scf_eps (1e-11).",
 "explicit enumeration of a finite configuration lattice on the real code against an asymptotic envelope and a reference pair-list model",
 "DESIGN.md section 4, C19")
reg("C08", "exploration",
    "Run families on the real NVE engine: every lattice point (molecule or padded batch x scf_eps {1e-8,1e-11} x reuse_P x remove_com {None, linear/1, linear/3, angular/2} x initial velocities {seeded Maxwell-Boltzmann, user field with net P and L} x surface {S0, CIS S1} x horizon {2,4,8 fs}) is executed as 5 real runs over the same physical time (dt 0.4/0.2/0.1/0.05 and a dt=0.0125 reference) plus a forward / v->-v / forward pair. Per run: P and L from /velocities,/coordinates constant, Ek row = 1/2 sum m v^2 of the same /velocities row, T row under the n_dof in force, Ep row = a fresh single point at the same /coordinates row. Per family: trajectory error and max|E(t)-E(0)| shrink by 4 per halving of dt (window [3.5,4.7]; 16 from 0.05 to 0.0125), the reversed run returns to the start; isolated steps of E(t) are located, attributed and confirmed by single points. Once: unit constants mutually consistent to 1e-14 and within 1e-6 of CODATA 2018.",
    "Trusted: h5py read-back, the package's mass table. Bounds: 3 molecules/batches, <= 8 fs (<= 640 steps); 'no secular drift' only inside that horizon through the dt^2 scaling of the energy fluctuation; generic orientations only. Known finding: 1e-6 eV steps of the energy surface at the overlap series/closed-form junction.",
    "explicit enumeration of a finite lattice of run families of the real integrator with relational oracles (dt-halving, time reversal, conservation laws, row-by-row recomputation of the thermo output)",
    "DESIGN.md section 4, C08")
reg("C12", "other",
    "System identification of the real thermostat and integrator step with harness-owned noise, then exact linear algebra instead of sampling: (a) one-hot velocity / one-hot noise through the real _apply_langevin_thermostat after the real initialize(), for every atom of a padded batch containing every element mass Li..Cl, every dt/damp in {1e-4..10}, T in {0,10,300,3000}, 3 engines: c1^2 + c2^2 m/(k_B T) = 1 to 1e-12, T=0 and padding: c2 = 0; (b) with a linear-force electronic-structure stand-in the real _do_integrator_step of Langevin / damped XL-BOMD / damped KSA is identified as z' = A z + B xi (12N+2 executions, affinity checked); the discrete Lyapunov equation gives the stationary kinetic temperature per degree of freedom (= T to 1e-9), the package thermometer reads T for every remove_com, force-free friction per step = exp(-dt/damp); (c) real-molecule limits: damp=inf is the NVE twin exactly, finite damp inside the analytic noise bound with damp^-1/2 scaling, T=0 never raises the kinetic energy in any thermostat application.",
    "Not sampling, not a proof: an exact Gaussian-invariance argument whose coefficients are read off the real code on a finite lattice. Trusted: scipy solve_discrete_lyapunov (residual checked), superposition probe per lattice point for affinity. Anharmonic surfaces only through (a) and (c); surface hopping / XL_ESMD inherit the thermostat and are not executed.",
    "environment-answer enumeration (scripted noise) for exhaustive one-hot identification of the real update, followed by an exact Lyapunov computation of the stationary temperature",
    "DESIGN.md section 4, C12")
reg("C13", "exploration",
    "One real 3-step run per case in its own process over molecules {H2O, CH4, CO, HCN, HF, CH4+H2O padded} x Temp {0,10,300} x seeds {0,1,12345} x RNG-history words over {draw 1, draw 17, a whole other MD run} (BFS depth 1 quick / 2 thorough) x remove_com {None, linear/1, linear/3, angular/1, angular/3} x user velocity fields {none, no net momentum, net P, net L, both, pure translation} x 6 engines; _zero_com and the integrator step observed by wrapping. Oracles: step-0 T = Temp to 1e-10 under the n_dof in force (row and recomputed from /velocities), P = 0 (L = 0 where angular was requested) to 1e-12, Temp=0 gives exactly zero velocities, padding atoms at rest, every periodic COM removal at its stride leaves |P|,|L| <= 1e-12 (conditioning-aware for nearly linear molecules), keeps Ek to 1e-12 and is the row written, same seed = all HDF5 datasets bitwise equal for every history, different seeds differ, user velocities = step-0 row exactly.",
    "Trusted: h5py read-back, package mass table. n_dof as documented (3N-3 / 3N-6, linear molecules not auto-detected, 3N for thermostatted engines); diatomic + ('angular',N) un-thermostatted has n_dof = 0 and raises loudly (counted as rejected). 3-step runs.",
    "environment-answer enumeration (RNG histories, seeds) and sequence BFS over prior operations on the live API, one forked process per case, relational oracles between runs",
    "DESIGN.md section 4, C13")

reg("C01","exploration","Exhaustive product lattices of executions of the real single-point driver: method {MNDO,AM1,PM3,PM6_SP} x {every hydride of the union element alphabet, every heavy-element pair H_nX-YH_m of the method's table at bond scales {0.8,1,1.3}, nine named multi-heavy molecules, the repository's own test geometry} x orientation {documentation layout = bonds on x, generic} x evaluator {autodiff, analytical, semi-numerical}; on a 6-10 molecule sub-alphabet the full product SCF converger x SP2 x {RHF neutral, RHF ion, UHF doublet, UHF triplet} x active state {S0, CIS S1/S2, RPA S1} x layout {single, homogeneous, zero-padded mixed}. Oracle per point: force = minus a 4-point central difference (h=2e-3 A, 12N geometries as one batched call) of the returned Etot, pairwise agreement of evaluators, exact zeros on padding rows; disagreements confirmed with single-molecule calls and attributed by two probes (0.02 rad tilt; h_pp floor applied in w_der from the harness).","Trusted: the package's energy as the differentiated function (its model conformance is C06), numpy. Bounds: stated geometry alphabet, scf_eps 1e-10, CIS tol 1e-8, SP2 tol 1e-7; tolerance 1e-5 (5e-5 for evaluators that difference integrals internally with delta=1e-5 A; +5000x SP2/CIS tolerance); points whose stencil energies are not on one smooth surface (SCF multi-solution) or whose active state is degenerate are excluded and counted; excited-state back-propagated forces and GPU not explored. Known finding: frozen local frame for bonds within 1e-7 of +-x.","explicit enumeration of a finite configuration lattice on the real code with a finite-difference differential oracle","DESIGN.md section 4, C01")
reg("C14","exploration","Exhaustive product lattice method {MNDO,AM1,PM3,PM6_SP,(PM6)} x 40 molecules (closed shells, ions, doublets, triplets) x SCF converger x SP2 x {RHF,UHF} x active state {S0, CIS S1/S2, RPA S1} x {force, energy only} x orientation x layout {(x,x+t) pair, zero-padded mixed}; for every molecule of every call numpy recomputes Etot=Eelec+Enuc(+Eexc), Eiso from the CSV tables, Hf with an own copy of the published atomic heats, ascending e_mo, gap, e_mo = eig of the Fock matrix rebuilt from the returned density, Eelec=trP(H+F)/2, charges from diagonal blocks, sum q = charge, zero padding charge, dipole = charges + sp-hybrid term, d(x+t)-d(x)=Qt.","Trusted: numpy eigvalsh, the package's hcore/fock as 'the reported Fock operator' (model conformance is C06), published MOPAC constants copied into the oracle (cross-checked against CODATA to 1e-4). Bounds: stated alphabet; PM6 without dipole/Fock rebuild.","explicit enumeration of a finite configuration lattice on the real code with algebraic identity oracles","DESIGN.md section 4, C14")

reg(
    "C07",
    "exploration",
    "Exhaustive product lattice method (MNDO/AM1/PM3) x molecule (H2O, H2CO, CH3Cl with degenerate orbitals, N2H4 with a like heavy pair) x "
    "base point (table values with exactly coinciding exponents, shifted) x every learnable parameter name (parameterlist + Kbeta) x tensor kind "
    "(leaf, non-leaf network head, callable of species/coordinates with geometry-dependent parameters) x scf_backward (0,1,2) x solver "
    "(fixed 0.3, adaptive, Pulay) x output (Etot, Hf, e_mo, gap, charges) x order (1, 2). Every point is executed on the real Molecule/Energy/"
    "Electronic_Structure code: torch.autograd.grad w.r.t. the caller's root tensors must be non-None, finite and equal, along a fixed direction, "
    "to a Richardson finite difference (stencil 2h,h,h/2 with error estimate) of the same output; callable kind: forces include the parameters' "
    "geometry dependence; scf_backward=2: Hessian-vector product, mixed force/parameter derivatives and the full unrolled Hessian equal the FD of "
    "the driver's forces and are symmetric. Batched finite differences are redone with single-molecule calls in fresh processes before a report.",
    "Trusted: torch autograd on the harness-side head/callable; finite differences of the package's own outputs at scf_eps 1e-11 (points whose "
    "stencil error estimate exceeds the limit are excluded and counted). Bounds: one fixed generic direction per name, fixed generic weights for "
    "e_mo/q, 4 molecules, closed-shell RHF, CPU float64; scf_backward=0 only for Etot/Hf, order 2 only for scf_backward=2. Tolerance 1e-5 "
    "(1e-4 implicit adjoint) relative + documented FD-noise floors; measured head-room >= 3.7x.",
    "explicit enumeration of a finite configuration lattice on the real differentiable code, each point checked against finite differences of the same code",
    "DESIGN.md section 4, C07",
)

reg("C03", "exploration",
    "Exhaustive product lattices of real single-point calls under a deterministic per-invocation iteration horizon: (A) every ordered batch "
    "(size <= 2 quick, <= 3 thorough) of {CH4, H2O, OH-, NH4+, H2CO, CH3(UHF)} x {fixed mixing 0/0.3/0.7, adaptive, Pulay, Krylov/KSA} x "
    "{diagonalisation, SP2 tolerances} x scf_eps 1e-4..1e-10; (B) fixed batches x the same solver axes x 3 start densities (default guess, "
    "neighbouring-geometry density, that density plus a symmetric non-idempotent 1e-2 matrix) x iteration cap {1,2,3,5,1000} answered by the "
    "harness through scf_loop.MAX_ITER; (C) MNDO/PM3/PM6_SP on a sub-lattice. For every molecule reported converged the returned density is "
    "checked in numpy (symmetry, no weight on padding slots, trace and charge sum, idempotency, |P - D(F(P))|, commutator, Eelec functional) "
    "against K x threshold bounds; a horizon trip is 'does not terminate'; notconverged is accepted and counted.",
    "Trusted: the package's hcore()/fock() as the definition of F(P), numpy.linalg.eigh. Bounds: 6-molecule alphabet, batch size <= 3, AM1 on "
    "the full lattice, s/p methods only, iteration (not wall-clock) bounds. Constants >= 10x the largest ratio measured on the healthy tree "
    "(closed shell |P-D| 13, commutator 277; UHF 106/1582 from symmetric starts); trace bound derived from the element test of the stopping rule.",
    "explicit enumeration of configuration lattices and of environment answers (iteration cap, start density, batch mates) on the real SCF code "
    "with an algebraic residual oracle on every returned density; sys.settrace iteration horizon for termination",
    "DESIGN.md section 4, C03")
reg("C04", "model_checking",
    "Breadth-first enumeration of every sequence of solver configurations (10: {fixed 0, fixed 0.3, adaptive, Pulay} x {diagonalisation, SP2 1e-7}, "
    "Krylov/KSA, UHF-singlet adaptive) along a path of neighbouring geometries (0.02 A steps) of 6 closed-shell molecules, the density of each solve "
    "carried into the next: depth 2 (quick) / 3 (thorough) from the cold tight reference at g0; from every non-final state also the same solves from a "
    "perturbed carried density, cold solves at every geometry and the scf_eps axis 1e-4..1e-10. States = (molecule, geometry index, provenance "
    "sequence), transitions = solves on the real driver; every solve's (Etot, force, q, e_mo) is compared with the cold tight-diagonalisation "
    "reference of its geometry within K_obs x max(scf_eps, sp2_tol)/(1-a).",
    "Trusted: the tight adaptive/diagonalisation solve (scf_eps 1e-11) as reference path. Bounds: depth 3, 6 molecules, AM1, single-molecule calls, "
    "histories not merged. K_E 10, K_q 500, K_e_mo 2000, K_F 5000 (measured max ratios 1.2 / 52 / 215 / 387).",
    "stateless breadth-first search over operation sequences on the live API (densities carried as arrays between forked workers), differential "
    "oracle against a reference path",
    "DESIGN.md section 4, C04")
reg("C18", "exploration",
    "Negative lattice: base requests x every single-fault mutant per documented precondition (each adjacent transposition unsorting a species row in "
    "any row of a padded batch; each odd-electron charge under RHF in any row; (charge, multiplicity) in {-2..2} x {1..5} under UHF on HF, BeH2, H2O, "
    "CH3 against the occupation rule; UHF x {Pulay, KSA, SP2, CIS, RPA, PM6}; heterogeneous batch x {RPA, analytical excited-state gradient, "
    "all-forces}; active state > 0 without excited-state settings; 14 malformed remove_com values through MD.run x engines): an exception must be "
    "raised before any result attribute of the molecule (or MD output file) is written, and the unmutated base of each family must be accepted. "
    "Positive lattice: every element pair of the MNDO/AM1/PM3/PM6_SP tables as saturated H_nA-BH_m at |AB| in {0.5..30} A plus the covalent distance, "
    "hydride ions of every element at charge +-1, +-2, every occupation-valid (charge, mult), valid remove_com modes: under the iteration horizon the "
    "call returns and Etot, Hf, force, q, e_mo are finite for every molecule not flagged notconverged.",
    "Trusted: Python exception semantics, torch.isfinite. Loud refusals of valid-but-extreme requests are recorded, not judged (none occur on the "
    "current tree); requests outside the documented preconditions are executed and recorded. Bounds: elements H..Cl, s/p methods (+ the PM6/UHF "
    "guard), 0.5-30 A, iteration cap 150 answered for |AB| >= 5 A (restricted SCF of a dissociated bond never converges).",
    "explicit enumeration of single-fault mutants of valid requests and of an element-pair x distance x charge lattice on the real constructors, "
    "driver and MD.run; oracle = raised-before-results / finite-or-flagged",
    "DESIGN.md section 4, C18")
reg("C16","model_checking",
 "States (molecule or batch, geometry index, provenance of the Davidson guess) are explored exhaustively: (S-lat) molecule {H2O,NH3,CH4,H2CO,HCN,C2H2} x n_states (every 1..nov for nov<=16, else {1,2,3,5,8,nov}) x tolerance {1e-4,1e-6,1e-8} x {CIS,RPA} x orbital windows x homogeneous/mixed batches x scripted available-memory answers (subspace collapse, chunked sigma build); (S-seq) all depth-3 sequences over 3 nearby geometries x {fresh, amplitudes reused through the best-guess rotation, reused raw, scripted orthonormal guesses (permuted, mixed, higher states + 5 % admixture, bare unit vectors, AO-basis transition densities)}. Every solve of the real driver is compared with a dense numpy reference built from that solve's own orbitals: package sigma build on all unit vectors == dense A and B (1e-10), r >= n returned energies == lowest r dense eigenvalues within 10 x tol, ascending, positive, amplitudes (symplectically) orthonormal 1e-8, residual <= tol, independence of n/history/guess/batch against a canonical spectrum, w_RPA <= w_CIS state by state; root-cause diagnostics (invariant closure of the guess space, stalled-subspace branch, collapses) are recorded per violation.",
 "Trusted: molecule.w and the one-centre parameters (the model's integrals, C06); the reference AO tensor is validated in every solve against the package Fock matrix (F-Hcore=G[P], 1e-10). Available memory is a scripted environment answer. Orbital windows cutting a (near-)degenerate shell are ill-posed and excluded from cross-run comparison. Bounds: AM1, nov<=25, depth 3. Known findings: supplied/reused guesses can lock onto a higher state or a symmetry sector (inherent to root-targeted Davidson); a stalled subspace accepts residuals up to 1.3 x tolerance.",
 "exhaustive lattice + BFS over solve sequences on the real CIS/RPA drivers, each execution replayed against a dense reference model (conformance)",
 "DESIGN.md section 4, C16")
reg("C17","model_checking",
 "(a) the real _propagate_electronic over nstates 2..8 x coupling family (const, ramp, alternating, arriving/leaving peak 1/10/100 per fs) x gap {1e-4,1e-2,1,5} eV x dt {0.05,0.1,0.5} x substeps {auto,4,8,16,32} x 3 initial amplitudes against an independent DOP853 integration: amplitude error falls >= 10x per doubling in the resolved regime (measured >= 13.4), norm error <= 2n x amplitude error, automatic sub-steps <= 1e-4 where they resolve the step (measured 3.7e-5), batch == singles with fixed sub-steps, hop integral; (b1) breadth-first search to depth 3 over 6 events per trajectory (no hop, hop up accepted, hop up frustrated, hop down, trivial crossing of the active state, trivial crossing elsewhere) for 2 trajectories x 3 states through the REAL _do_integrator_step/_detect_crossings/_after_electronic_update/_attempt_hop/_rescale_velocity_along_nac with scripted torch.rand and synthetic electronic-structure providers; every transition is compared with a reference hop machine (relabelling = permutation of amplitudes and active index, target selection, dv || M^-1 d, dKE = -dE to 1e-12, smaller root, frustrated hop bitwise untouched, hold-off, decoherence) and every batch row with its single-trajectory run (bitwise); (b2) exhaustive lattice on the real velocity rescaling (dE sign/size x velocity family incl. v.d = 0 exactly x NAC family x masses x orientation x batch row); (b3) exhaustive lattice on the real _attempt_hop over the draw alphabet {0,.25,.5,.75,1-1e-12}; (c) the repository's Tully models: analytic gradients vs finite differences, TullyFSSH batches of 1..3 with mixed active states and scripted draw schedules: norm, energy jump at hops, force of the own active state, reported potential, batch row == single run.",
 "Synthetic: state energies, CIS amplitudes, couplings, NAC vectors, per-state forces (the cut of the repository's DummyFSSH tests; nothing of the hop logic is stubbed). Hold-off bookkeeping taken from the implementation. Pairwise norm-error ratios are not an oracle (leading term changes sign; measured 0.7-94). Automatic sub-steps ignore the energy spread and are capped at 80: unresolved points (norm error up to 9e-3) are excluded and reported.",
 "explicit-state BFS over scripted environment answers on the real hop/step code against a reference machine + exhaustive lattices against an independent reference integration",
 "DESIGN.md section 4, C17")

reg("C05","exploration",
 "Exhaustive product lattice of batch layouts executed on the real code, every row of every batch compared with the same molecule computed alone: all ordered batches with repetition of size <= 2 (quick) / <= 3 (thorough) from {CH4,H2O,HF,OH-,NH4+,H2CO,C2H2} x extra padding width {0,1,3} x padding-slot coordinate pattern {0, coincident with atom 0, (7.7,-3.3,1.1), 1e4, a different value per slot} x {AM1,PM6_SP} x {adaptive,Pulay,SP2}; force modes, every same-element atom transposition, CIS/RPA on homogeneous (symmetric+distorted copies) and mixed batches, and BOMD/XL-BOMD/KSA trajectories (every HDF5 dataset; Krylov thresholds 0,1e-1,1e-2,3e-3,1e-3) on stated sub-lattices; every call under a deterministic iteration horizon; never-written torch.empty memory is answered by the harness (zeros; NaN on the excited-state and configuration sub-lattices).",
 "Trusted: the single-molecule run as differential twin, h5py. Tolerance 1000 x max(scf_eps 1e-10, SP2 threshold 1e-7), 1000 x Davidson tolerance for excited-state quantities, MD datasets relative to max(1,|ref|). Counted, not judged: notconverged rows, loud rejections (RPA / excited gradients on mixed batches), SP2+padded+anion horizon trips (C03). Langevin engines not compared. Bounds: batch size <= 3, 4 MD steps. Known finding: KSA-XL-BOMD Krylov rank is batch-global when err_threshold > 0.",
 "explicit enumeration of a finite lattice of batch layouts on the real code with a differential (alone vs in-batch) oracle on every point",
 "DESIGN.md section 4, C05")
reg("C20","model_checking",
 "S-seq over the stop machine of Geometry_Optimization_SD: the real run() is executed with onestep wrapped to record every (geometry, force, energy) evaluated and stdout captured; each recorded evaluation sequence is replayed against the reference model (x+alpha*F update, stop at first max|F|<=tol or at the cap, report, returned values). Long family: systems (singles, zero-/far-/mixed-padded {CH4,H2O} batches) x fixed start distortions x step factor {1e-4..2e-2} x method x solver (density reuse) with descent, padding-immobility, batch-vs-alone prefix equality and independent re-evaluation of the used force/energy; stop family: tolerance x cap alphabets built to collide with each trajectory (caps n*-1,n*,n*+1, tolerances bitwise equal to an observed max|F|), every run must stop where the model stops and reproduce the trajectory prefix bitwise. States = (iteration, converged?, cap reached?), transitions = optimiser iterations executed, traces = runs checked against the model.",
 "Trusted: the wrapper around onestep; the documented update rule. Descent demanded for alpha <= 5e-3 with slack 10 x scf_eps; re-evaluation only before the first energy rise of a run (multi-solution SCF outside the statement). Bounds: cap <= 40 (quick) / 60 and 200 (thorough).",
 "bounded exhaustive exploration of the optimiser's stop machine on the real code with a reference stop/update model replayed on every recorded run",
 "DESIGN.md section 4, C20")

ALL = [f"C{i:02d}" for i in range(1, 21)]


# enlargements of the enumerated spaces made after the first complete pass (DESIGN.md 11.2b); appended to the texts above
EXTENSIONS = {
    "C01": " Also: ONE Molecule object walked along bond-stretch paths with orbital re-ordering and through every sequence of "
    "states of interest {S0,S1,S2}^3 (differential twin: a fresh object at each point; central difference of fresh energies).",
    "C02": " Also: a finite pair cutoff configuration, and ONE Molecule object carried along words over the generators "
    "{C4(z), C3(111)} of the octahedral group (coordinates replaced in place): scalars invariant, forces co-rotating.",
    "C03": " Also: (D) every iteration cap 6..30 (4..60 thorough) on two-molecule batches under every solver, so that the cap "
    "falls between the members' iteration counts; (E) open-shell batches whose padded member is an anion or radical anion, in "
    "every position.  (F) exactly degenerate frontier levels (two H atoms 30 A apart as a restricted singlet, alone and as the padded member "
    "of a batch) under diagonalisation and SP2: converged must mean self-consistent, a failure is flagged or refused loudly.",
    "C04": " Also (leaves): the SP2 tolerance axis 1e-5..1e-10 (inside and below the supported float64 window) and cold "
    "solves inside a batch with a molecule of another composition (UHF singlet, adaptive, Pulay/SP2).",
    "C05": " Also: N2 in the alphabet (orbital count of CH4, other composition), all six orders of mixed triples, one active "
    "state per batch row with the analytical excited gradient, and section `uhf`: every ordered pair of the alphabet + {CH3, O2} "
    "under UHF, padded and unpadded; MD runs whose output request lists the molecules in another order than the batch (molid = [1, 0]).",
    "C06": " Also: the unit-system twin (bohr input with length_conversion_factor = 1).",
    "C07": " Also: forward of a differentiable job / unrelated calls / its backward, in every interleaving.  Section `uhf`: open-shell molecules under an "
    "unrestricted reference (CH3, NH2; thorough also OH, CH2, O2 and three methods), twelve parameter names as caller leaf tensors, Etot and gap, scf_backward 1 and 2, against central differences.",
    "C08": " Also: user velocities with COM removal, molid subsets and permutations, and reversal to 1e-11 with density reuse off.",
    "C09": " Also: idempotency of a repeated XL evaluation, batch transparency of the XL/KSA functional incl. entropy up to "
    "T_el 3e4 K, the same object moved to a new geometry, and a hot (T_el 13000 K) KSA family for the dt^2 scaling of the free energy.  (g) the rank-m kernel "
    "update replayed from the implementation's own Krylov directions and responses (recorded by module-level wrappers): least-squares coefficients recomputed in numpy, orthonormality, "
    "v1 || D[P] - P, and the number of directions the stop rule (max_rank, err_threshold) gives; ranks 1..3 (thorough 1..6), padded batches, three thresholds.",
    "C10": " Two further oracles on every recovered image: the RNG state at each resumed step equals that of the uninterrupted "
    "run (engines that draw random numbers), and a checkpoint once published never disappears later in the same history.  Further "
    "configurations: /data sparser than two checkpoint intervals; every byte cut of the XYZ writes after the first checkpoint.  Depth 2 at "
    "journal granularity: the RESUMED process runs under the write journal too (from the images right after each checkpoint publication and "
    "just before the next one) and every prefix / torn page split of that journal applied to its start image is a state.",
    "C12": " Also: (a') the same driver object initialised for another equally padded batch first; (d) the real "
    "SurfaceHoppingDynamics object with a damping time and real CIS electronic structure: one-hot identification of the thermostat "
    "it applies, its n_dof against that thermostat's stationary state, two noise draws per real integrator step; (r) a thermostatted run interrupted after a checkpoint and finished by run_from_checkpoint is "
    "still thermostatted with the original damping time.",
    "C13": " Also: seeding of the thermostat noise when velocities are supplied by the user.",
    "C14": " Also: calls mixing ground- and excited-state rows, the charges published by the XL path after a move, objects with a history (revisit), "
    "and driver-history cases: the same driver and Constants object served a system of the same padded shape with other elements first.",
    "C15": " The job pool also contains learned-parameter lists, a job refused inside the SCF loop, the same method/elements with "
    "another parameter directory, and a loose threshold shared by an XL-BOMD/Langevin run and a single point through the caller's "
    "own dictionary (MD jobs receive the caller's dictionary itself), single-precision jobs, and Langevin jobs on two layouts of one "
    "padded shape that can share the engine object itself; jobs on molecules of the same shape with other elements in the same slots (H2O / HCN) "
    "that share the driver, the MD engine and the Constants object, and one molecule under two Hamiltonians with the analytical force evaluator and a shared Constants object.",
    "C16": " Also: the same object evaluated again (scripted positive and negative phase of the guess; rigidly rotated geometries), "
    "CIS and RPA; RPA with its own stored amplitudes handed back as the guess; on every solve |F C - C diag(e)| for the orbitals "
    "and orbital energies the solver used.",
    "C17": " Also: a coupling spike between two populated non-active states.",
    "C18": " Also: axis-aligned layouts (x, y, z, -z), a PM6 frame sub-lattice, active states given as tensors, the energy-only path; "
    "requests outside the listed preconditions that are accepted must agree with their valid twin and with the molecules alone.  Sortedness faults "
    "also in over-padded arrays (every molecule shorter than the array), where a swap with padding puts a real atom behind every column a molecule fills.  Refusals after a history: a heterogeneous RPA / excited-gradient "
    "request handed to a driver that served a homogeneous batch before (single point, or as the driver of an MD run) must get the outcome a new driver gives.",
    "C19": " Also: one driver object over a dimer scan that crosses a finite pair cutoff in both directions.",
}


def build():
    for pid, t in EXTENSIONS.items():
        if not CHECKS[pid]["text"].endswith(t):
            CHECKS[pid]["text"] += t
    checks = []
    for pid in ALL:
        if pid not in CHECKS:
            continue
        c = CHECKS[pid]
        checks.append(
            {
                "property_id": pid,
                "quick_cmd": f"./check {pid} --tier quick",
                "thorough_cmd": f"./check {pid} --tier thorough",
                "evidence_file": f"evidence/{pid}.json",
                "replay_cmd_template": f"./check {pid} --replay {{path}}",
                "engine": "vp-explorer",
                "level_claimed": {"category": c["category"], "text": c["text"], "design_ref": c["design_ref"]},
                "level_note": c["note"],
                "technique": c["technique"],
            }
        )
    na = []
    for pid in ALL:
        if pid not in CHECKS:
            na.append(
                {
                    "property_id": pid,
                    "reason": NOT_APPLICABLE.get(
                        pid, "check not built yet in this revision (the design in DESIGN.md applies; see section 4)"
                    ),
                }
            )
    man = {
        "version": 1,
        "setup_cmd": "./setup.sh",
        "hooks": {
            "guard": "LANL_PYSEQM_VERIF",
            "enable": "no source hooks: all observation and fault injection is done from the harness side "
            "(wrapping, LD_PRELOAD write journal, sys.settrace); checks export LANL_PYSEQM_VERIF=1 anyway",
            "baseline_off_cmd": "cd /repo && env -u LANL_PYSEQM_VERIF /venv/bin/python -m pytest -ra -q -p no:cacheprovider --timeout=900 --continue-on-collection-errors",
            "source_commits": [],
            "add_only": True,
        },
        "engines": [
            {
                "name": "vp-explorer",
                "path": "vp/",
                "serves_properties": [c["property_id"] for c in checks],
                "kind_free_text": "hand-written bounded exhaustive explorer for Python: lattice products, BFS over "
                "operation sequences, crash-point enumeration over a physical write journal, scripted environment "
                "answers; every execution runs the real PYSEQM code in a forked process",
            }
        ],
        "checks": checks,
        "notes": "See DESIGN.md. Known findings and fixes are in known_findings.json.",
        "not_applicable": na,
    }
    return man


def main():
    man = build()
    with open(os.path.join(VERIF_ROOT, "MANIFEST.json"), "w") as fh:
        json.dump(man, fh, indent=1)
    print("MANIFEST.json:", len(man["checks"]), "checks;", len(man["not_applicable"]), "not claimed")


if __name__ == "__main__":
    main()
