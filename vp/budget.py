"""Deterministic iteration horizon.

sys.settrace restricted to the frames of named solver functions; counts executions of
their loop-header lines (while/for statements, found with ast).  When any header has
been executed more than `limit` times IterationHorizon is raised inside the solver, so
a spinning loop is reported after a fixed number of iterations, not after a wall-clock
guess.  The parent-side wall-clock kill of vp.pool is only a backstop.
"""
import ast
import os
import sys


class IterationHorizon(RuntimeError):
    pass


DEFAULT_TARGETS = {
    "SP2.py": {"SP2"},
    "scf_loop.py": {
        "scf_forward0", "scf_forward1", "scf_forward2", "scf_forward3", "scf_forward0_u", "scf_forward1_u",
        "scf_forward2_u", "fixed_point_anderson", "fixed_point_picard", "adaptive_mix", "scf_loop",
    },
    "rcis_batch.py": {"rcis_batch"},
    "rcis_new.py": {"rcis_any_batch"},
    "rpa.py": {"rpa"},
    "cal_par.py": None,  # every function in the file
}  # fmt: skip

_HEADER_CACHE = {}


def _loop_headers(filename):
    if filename in _HEADER_CACHE:
        return _HEADER_CACHE[filename]
    heads = set()
    try:
        with open(filename) as fh:
            tree = ast.parse(fh.read())
        for node in ast.walk(tree):
            if isinstance(node, (ast.While, ast.For)):
                heads.add(node.lineno)
    except (OSError, SyntaxError):
        pass
    _HEADER_CACHE[filename] = heads
    return heads


class Horizon:
    def __init__(self, limit=3000, targets=None):
        self.limit = limit
        self.targets = targets or DEFAULT_TARGETS
        self.counts = {}
        self.tripped = None

    def _global(self, frame, event, arg):
        if event != "call":
            return None
        code = frame.f_code
        base = os.path.basename(code.co_filename)
        t = self.targets.get(base, False)
        if t is False:
            return None
        if t is not None and code.co_name not in t:
            return None
        heads = _loop_headers(code.co_filename)
        if not heads:
            return None
        key0 = (base, code.co_name)

        def local(frame, event, arg):
            if event == "line" and frame.f_lineno in heads:
                k = key0 + (frame.f_lineno,)
                n = self.counts.get(k, 0) + 1
                self.counts[k] = n
                if n > self.limit:
                    self.tripped = k
                    raise IterationHorizon(f"loop header {k} executed {n} times (horizon {self.limit})")
            return local

        return local

    def __enter__(self):
        self._old = sys.gettrace()
        sys.settrace(self._global)
        return self

    def __exit__(self, *exc):
        sys.settrace(self._old)
        return False

    def max_count(self):
        return max(self.counts.values(), default=0)
