"""C19  Non-interacting fragments are additive; the pair cutoff acts as documented.

Explorer: exhaustive product lattice
  (unordered fragment pair with repetition from {H2O, NH3, CH4, HF, H2CO}) x method x relative orientation x
  separation R in {8,12,16,21,22,30,50,100,200,500} A   -- additivity and its asymptotic envelope;
  the same dimers x R in {8,16,30} x pair_outer_cutoff in {5,15,60, default} -- pair list and energy under a cutoff;
  boundary lattice: dimers with one cross pair at EXACTLY r = 5k A (k=1,2,3) x cutoff in {r, nextafter(r,+-inf)};
  three triples x R.
Every point runs the real Molecule constructor (pair list) and, where an energy is needed, the real driver.

Oracles
  * dX(R) = X(AB) - X(A) - X(B) (energy) or X_fragment(AB) - X_fragment(alone) (forces, charges, orbital energies):
    |dX(R)| R^n <= K x max_{R' <= 22} |dX(R')| R'^n  + floor R^n, for every R >= 30, with n = 3 for the energy
    (leading dipole-dipole term), atomic forces and charges (dipole field), and n = 2 for orbital energies (dipole
    potential).  The near window has five points because the signed energy deviation of a weakly polar pair can
    cross zero near one of them.  A term dropped or unbalanced among core-core / core-electron / electron-electron
    leaves a 1/R residue: dE R^3 then grows like R^2 (x500 between 22 and 500 A).
  * no step at the 40 bohr (21.17 A) overlap cutoff: forces, charges and orbital energies at 21 and 22 A follow the
    same power law within a factor 1.5.
  * "tends to": at 500 A |dE|, |dF|, |dq| <= 1e-6 and |d e_mo| <= 1e-3 (10 x the largest dipole-dipole / dipole-
    potential term possible for this alphabet).
  * default cutoff: the pair list has exactly N(N-1)/2 entries at every R.
  * finite cutoff c: the pair list equals {(i,j): r_ij < c} exactly; if no pair is dropped every result equals the
    default-cutoff result; if all cross pairs are dropped E(AB) = E(A) + E(B) and the fragment forces/charges are the
    isolated ones (1e-9).
"""
import math

import numpy as np

from ..drivers import fragments as FR
from ..drivers import molecules as M
from ..drivers import sp
from .. import warm
from ..pool import is_error, is_timeout, pmap

PID = "C19"
LEVEL = "exploration"
RULE = (
    "all unordered pairs with repetition (15) and three triples of {H2O, NH3, CH4, HF, H2CO} in generic orientations x "
    "{MNDO, AM1, PM3, PM6_SP} x relative orientations x R in {8,12,16,21,22,30,50,100,200,500} A; cutoff sub-lattice "
    "R in {8,16,30} x pair_outer_cutoff in {5,15,60,default}; boundary lattice with one cross pair at exactly r = 5k A and "
    "cutoff in {r-, r, r+}; a case is one (system, method, orientation, R[, cutoff]) and is non-trivial when the oracle had "
    "an isolated-fragment or reference-list value to compare with (all are)"
)
ASSUMPTIONS = [
    "fragments are neutral closed-shell molecules of the stated alphabet in generic orientations (no interatomic vector "
    "within 1e-3 rad of the x or z axis, asserted), so the frozen-frame defect of C02 cannot leak in",
    "the envelope constant is taken from the same system at R <= 22 A (near field fixes it, far field must obey it) with "
    "K = 5 (largest far/near ratio measured on the healthy tree: E 1.68, force 1.21, q 1.18, e_mo 1.20; a 1/R residue gives "
    ">= 500) and an absolute floor of 1000 x scf_eps",
    "at r == cutoff exactly the pair is taken as dropped (Parser uses r^2 < cutoff^2; the docstring of the legacy "
    "data_loader says r <= outercutoff is kept)",
    "scf_eps 1e-11; notconverged systems are excluded and counted",
]

EPS = 1.0e-11
FLOOR = 1000 * EPS  # absolute noise floor of every difference of converged quantities
# the analytical / semi-numerical force evaluators difference the overlap integrals internally (delta = 1e-5 A): their
# forces carry an absolute noise of ~1e-7 eV/A (measured 1.4e-7 at 500 A; 5.6e-6 is the worst disagreement with autodiff, C01)
FLOOR_FORCE_FD = 5e-6


def _floor(t, k):
    return FLOOR_FORCE_FD if (k == "force" and t.get("fmode")) else FLOOR
K_ENV = 5.0
K_STEP = 1.5
ABS_500 = {"E": 1e-6, "force": 1e-6, "q": 1e-6, "e_mo": 1e-3}
# equalities between two converged calculations: K_obs x scf_eps with the factors of DESIGN C04 (E 10, q/e_mo 500, F 5000), rounded up
EXACT = {"E": 1e-9, "force": 1e-7, "q": 1e-8, "e_mo": 1e-8}
FRAGS = ["H2O", "NH3", "CH4", "HF", "H2CO"]
METHODS = ["MNDO", "AM1", "PM3", "PM6_SP"]
RS = [8.0, 12.0, 16.0, 21.0, 22.0, 30.0, 50.0, 100.0, 200.0, 500.0]
NEAR_MAX = 22.0
POWER = {"E": 3, "force": 3, "q": 3, "e_mo": 2}
CUT_RS = [8.0, 16.0, 30.0]
CUTOFFS = [5.0, 15.0, 60.0]
TRIPLES = [("H2O", "HF", "CH4"), ("H2CO", "NH3", "H2O"), ("HF", "HF", "NH3")]


def _params(method, cutoff=None, fmode=None):
    extra = {} if cutoff is None else {"pair_outer_cutoff": float(cutoff)}
    return sp.make_params(method, eps=EPS, force_mode=fmode or "autodiff", **extra)


def _pairs():
    return [(FRAGS[i], FRAGS[j]) for i in range(len(FRAGS)) for j in range(i, len(FRAGS))]


def _delta(o, iso, rows):
    """deviations of the supersystem from the isolated fragments."""
    d = {"E": abs(o["E"] - sum(i["E"] for i in iso))}
    d["force"] = max(float(np.abs(o["force"][rows[k]] - iso[k]["force"]).max()) for k in range(len(iso)))
    d["q"] = max(float(np.abs(o["q"][rows[k]] - iso[k]["q"]).max()) for k in range(len(iso)))
    union = np.sort(np.concatenate([i["e_mo"] for i in iso]))
    d["e_mo"] = float(np.abs(o["e_mo"] - union).max())
    d["E_signed"] = o["E"] - sum(i["E"] for i in iso)
    return d


def _build(t, R):
    if t["sys"] == "dimer":
        return FR.dimer(t["names"][0], t["names"][1], R, t["orient"], t["orient"], t["seed"])
    return FR.trimer(t["names"], R, t["orient"], t["seed"])


def run_series(t):
    """additivity series of one (system, method, orientation): isolated fragments + every R."""
    p = _params(t["method"], fmode=t.get("fmode"))
    mol, frag_of, rows, frs = _build(t, RS[0])
    iso = [FR.evaluate(f, p) for f in frs]
    out = {"iso_nc": [i["notconverged"] for i in iso], "points": [], "n_eval": len(iso)}
    for R in t["Rs"]:
        mol, frag_of, rows, frs = _build(t, R)
        FR.assert_generic(mol)
        n = len(mol["species"])
        pl = FR.package_pairs(mol, p)
        rec = {"R": R, "npairs": len(pl), "npairs_expected": n * (n - 1) // 2, "pairs_ok": pl == FR.reference_pairs(mol["coords"], None)}
        try:
            o = FR.evaluate(mol, p)
            rec["nc"] = o["notconverged"]
            rec["d"] = _delta(o, iso, rows)
        except Exception as e:  # noqa: BLE001 - a valid, well separated system must not make the package raise
            rec["raised"] = f"{type(e).__name__}: {str(e)[:200]}"
        out["n_eval"] += 1
        out["points"].append(rec)
    return out


def run_cutoff(t):
    """pair list and energies under finite cutoffs for one (dimer, method, orientation)."""
    p0 = _params(t["method"])
    mol, frag_of, rows, frs = _build(t, CUT_RS[0])
    iso = [FR.evaluate(f, p0) for f in frs]
    out = {"iso_nc": [i["notconverged"] for i in iso], "points": [], "n_eval": len(iso)}
    for R in t["Rs"]:
        mol, frag_of, rows, frs = _build(t, R)
        FR.assert_generic(mol)
        full = None
        for c in t["cutoffs"]:
            pc = _params(t["method"], c)
            ref = FR.reference_pairs(mol["coords"], c)
            got = FR.package_pairs(mol, pc)
            cross_kept = sum(1 for (i, j) in ref if frag_of[i] != frag_of[j])
            intra_dropped = sum(1 for (i, j) in FR.reference_pairs(mol["coords"], None) if frag_of[i] == frag_of[j] and (i, j) not in set(ref))
            n = len(mol["species"])
            ncross = sum(1 for i in range(n) for j in range(i + 1, n) if frag_of[i] != frag_of[j])
            rec = {"R": R, "cutoff": c, "margin": FR.boundary_margin(mol["coords"], c), "list_ok": got == ref,
                   "n_got": len(got), "n_ref": len(ref), "cross_kept": cross_kept, "ncross": ncross, "intra_dropped": intra_dropped}  # fmt: skip
            if not rec["list_ok"]:
                rec["diff"] = [sorted(set(got) - set(ref))[:4], sorted(set(ref) - set(got))[:4]]
            regime = "none_dropped" if (cross_kept == ncross and intra_dropped == 0) else ("all_cross_dropped" if (cross_kept == 0 and intra_dropped == 0) else "partial")
            rec["regime"] = regime
            try:
                o = FR.evaluate(mol, pc)
                out["n_eval"] += 1
                rec["nc"] = o["notconverged"]
                rec["finite"] = bool(np.isfinite(o["E"]) and np.all(np.isfinite(o["force"])))
                if regime == "all_cross_dropped":
                    d = _delta(o, iso, rows)
                    rec["dev"] = {k: d[k] for k in ("E", "force", "q", "e_mo")}
                elif regime == "none_dropped":
                    if full is None:
                        full = FR.evaluate(mol, p0)
                        out["n_eval"] += 1
                    rec["dev"] = {"E": abs(o["E"] - full["E"]), "force": float(np.abs(o["force"] - full["force"]).max()),
                                  "q": float(np.abs(o["q"] - full["q"]).max()), "e_mo": float(np.abs(o["e_mo"] - full["e_mo"]).max())}  # fmt: skip
                    rec["nc"] = rec["nc"] or full["notconverged"]
            except Exception as e:  # noqa: BLE001
                rec["raised"] = f"{type(e).__name__}: {str(e)[:200]}"
            out["points"].append(rec)
    return out


def run_boundary(t):
    """one cross pair at exactly r = 5k: the comparison at the boundary itself (Molecule construction only)."""
    out = []
    for (a, b) in t["atoms"]:
        for k in (1, 2, 3):
            mol, frag_of, rows, (ia, ib) = FR.exact_contact(t["names"][0], t["names"][1], a, b, k, t["orient"], t["seed"])
            r = 5.0 * k
            d = mol["coords"][ib] - mol["coords"][ia]
            exact = bool(d[0] * d[0] + d[1] * d[1] + d[2] * d[2] == r * r)
            for cname, c in (("r-", math.nextafter(r, 0.0)), ("r", r), ("r+", math.nextafter(r, math.inf))):
                ref = FR.reference_pairs(mol["coords"], c)
                got = FR.package_pairs(mol, _params(t["method"], c))
                pair = (min(ia, ib), max(ia, ib))
                out.append({"a": a, "b": b, "k": k, "cutoff": cname, "exact": exact, "list_ok": got == ref, "pair_in_got": pair in set(got),
                            "pair_in_ref": pair in set(ref), "n_got": len(got), "n_ref": len(ref)})  # fmt: skip
    return out


def run_scan(t):
    """history: ONE driver object evaluates a dimer scan whose cross pairs move in and out of a finite cutoff;
    every point must equal the evaluation by a fresh driver (the pair list is a function of the geometry of the call)."""
    import copy

    import torch
    from seqm.Molecule import Molecule
    from seqm.seqm_functions.constants import Constants

    pc = _params(t["method"], t["cutoff"])
    es = None
    out = {"points": []}
    for R in t["Rs"]:
        mol = _build(t, R)[0]
        fresh = sp.single_point(mol, copy.deepcopy(pc), names=["Etot", "force", "q"])
        spc, xyz, ch, mu = M.batch([mol])
        if es is None:
            molecule, es = sp.build([mol], pc)
        else:
            molecule = Molecule(Constants(), pc, torch.as_tensor(xyz), torch.as_tensor(spc))
        molecule.verbose = False
        es(molecule)
        npairs = int(molecule.idxi.shape[0])
        nref = len(FR.reference_pairs(mol["coords"], t["cutoff"]))
        out["points"].append({
            "R": R, "npairs": npairs, "nref": nref, "nc": bool(es.notconverged.any()) or bool(fresh["notconverged"].any()),
            "dE": float(abs(sp.to_np(molecule.Etot)[0] - fresh["Etot"][0])),
            "dF": float(np.abs(sp.to_np(molecule.force) - fresh["force"]).max()),
            "dq": float(np.abs(sp.to_np(molecule.q) - fresh["q"]).max()),
        })  # fmt: skip
    return out


def _dispatch(t):
    return {"series": run_series, "cutoff": run_cutoff, "boundary": run_boundary, "scan": run_scan}[t["kind"]](t)


def _tasks(tier, seed):
    tasks = []
    orients = [0] if tier == "quick" else [0, 1, 2]
    methods = METHODS
    for names in _pairs():
        for m in methods:
            for o in orients:
                tasks.append(dict(kind="series", sys="dimer", names=names, method=m, orient=o, seed=seed, Rs=RS))
    # the other force evaluators (analytical and semi-numerical derivatives of the integrals) on a sub-lattice
    for names in [("H2O", "H2O"), ("H2O", "HF"), ("NH3", "H2CO"), ("CH4", "HF")] if tier == "quick" else _pairs():
        for m in ["AM1", "PM3"] if tier == "quick" else ["MNDO", "AM1", "PM3"]:
            for fmode in ("analytical", "semi_numerical"):
                tasks.append(dict(kind="series", sys="dimer", names=names, method=m, orient=0, seed=seed, Rs=RS, fmode=fmode))
    for names in TRIPLES:
        for m in (["AM1", "PM6_SP"] if tier == "quick" else methods):
            tasks.append(dict(kind="series", sys="trimer", names=names, method=m, orient=0, seed=seed, Rs=[8.0, 12.0, 16.0, 30.0, 100.0, 500.0]))
    cut_pairs = _pairs() if tier != "quick" else [("H2O", "HF"), ("NH3", "H2CO"), ("CH4", "CH4"), ("H2O", "H2O"), ("HF", "H2CO")]
    for names in cut_pairs:
        for m in (["AM1", "PM3"] if tier == "quick" else methods):
            for o in ([0] if tier == "quick" else [0, 1]):
                tasks.append(dict(kind="cutoff", sys="dimer", names=names, method=m, orient=o, seed=seed, Rs=CUT_RS, cutoffs=CUTOFFS))
    for names in TRIPLES[: (1 if tier == "quick" else 3)]:
        tasks.append(dict(kind="cutoff", sys="trimer", names=names, method="AM1", orient=0, seed=seed, Rs=[8.0, 30.0], cutoffs=[5.0, 60.0]))
    for names in _pairs():
        for o in orients:
            tasks.append(dict(kind="boundary", names=names, method="AM1", orient=o, seed=seed, atoms=[(0, 0), (1, 0), (0, 1), (1, 1)]))
    scan_pairs = [("H2O", "H2O"), ("H2O", "HF"), ("NH3", "H2CO")] if tier == "quick" else _pairs()
    for names in scan_pairs:
        for m in (["AM1"] if tier == "quick" else ["AM1", "PM3"]):
            for Rs in ([12.0, 3.5, 12.0], [3.5, 12.0, 3.5], [9.0, 5.0, 7.0, 12.0]):
                tasks.append(dict(kind="scan", sys="dimer", names=names, method=m, orient=0, seed=seed, Rs=Rs, cutoff=7.0))
    return tasks


def _sysname(t):
    return "+".join(t["names"])


def run(chk, tier, seed):
    warm()  # import torch + seqm once in the parent; the forked children inherit them
    tasks = _tasks(tier, seed)
    cost = {"series": 3, "cutoff": 2, "boundary": 1}
    order = sorted(range(len(tasks)), key=lambda i: -cost.get(tasks[i]["kind"], 1))
    res = pmap(_dispatch, [tasks[i] for i in order], chunk=1, timeout=1200, progress=f"C19 {tier}")
    results = [None] * len(tasks)
    for i, r in zip(order, res):
        results[i] = r
    worst_ratio = {k: 0.0 for k in POWER}
    n_eval = 0
    planned = 0
    for t, r in zip(tasks, results):
        base = dict(system=_sysname(t), method=t["method"], orientation=t["orient"], seed=int(seed), lattice=t["kind"])
        tag = f"{t['kind']}|{_sysname(t)}|{t['method']}|o{t['orient']}" + (f"|{t['fmode']}" if t.get("fmode") else "")
        base["force_mode"] = t.get("fmode") or "autodiff"
        if is_timeout(r) or is_error(r):
            chk.violation(dict(base, kind="harness"), f"{tag}: task did not complete: {str(r)[:300]}", replay=t)
            continue
        if t["kind"] == "series":
            n_eval += r["n_eval"]
            planned += len(t["Rs"])
            if any(r["iso_nc"]):
                chk.excluded += len(t["Rs"])
                continue
            near = {k: 0.0 for k in POWER}
            byR = {}
            for pt in r["points"]:
                if "d" in pt and not pt["nc"]:
                    byR[pt["R"]] = pt["d"]
                    if pt["R"] <= NEAR_MAX:
                        for k, n in POWER.items():
                            near[k] = max(near[k], pt["d"][k] * pt["R"] ** n)
            if 21.0 in byR and 22.0 in byR:
                for k in ("force", "q", "e_mo"):
                    n = POWER[k]
                    a, b = byR[21.0][k] * 21.0**n, byR[22.0][k] * 22.0**n
                    if max(a, b) > K_STEP * min(a, b) + _floor(t, k) * 22.0**n:
                        chk.violation(dict(base, kind="cutoff_step", observable=k, R=21.5, ratio=float(max(a, b) / max(min(a, b), 1e-300))),
                                      f"{tag}: |d{k}| R^{n} jumps from {a:.4g} at 21 A to {b:.4g} at 22 A (step at the 40 bohr overlap cutoff)",
                                      replay=dict(t, Rs=[21.0, 22.0]))  # fmt: skip
            for pt in r["points"]:
                key = f"{tag}|R={pt['R']:g}"
                if "raised" in pt:
                    chk.case(key, nontrivial=True, outcome="raised")
                    chk.violation(dict(base, kind="exception", R=pt["R"]), f"{key}: the package raised on a valid system: {pt['raised']}", replay=dict(t, Rs=[pt["R"]]))
                    continue
                if pt["nc"]:
                    chk.excluded += 1
                    continue
                chk.case(key, nontrivial=True, outcome=f"{pt['d']['E_signed'] * pt['R'] ** 3:+.2f}|{pt['npairs']}")
                if not pt["pairs_ok"] or pt["npairs"] != pt["npairs_expected"]:
                    chk.violation(dict(base, kind="pairlist_default", R=pt["R"], n_got=pt["npairs"], n_expected=pt["npairs_expected"]),
                                  f"{key}: default cutoff but the pair list has {pt['npairs']} entries, expected N(N-1)/2 = {pt['npairs_expected']}",
                                  replay=dict(t, Rs=[pt["R"]]))  # fmt: skip
                if pt["R"] == 500.0:
                    for k, lim in ABS_500.items():
                        if not (pt["d"][k] <= lim):
                            chk.violation(dict(base, kind="not_additive", observable=k, R=pt["R"], deviation=float(pt["d"][k])),
                                          f"{key}: |d{k}| = {pt['d'][k]:.3e} at 500 A (limit {lim:g}): the fragments do not tend to their isolated values",
                                          replay=dict(t, Rs=[pt["R"]]))  # fmt: skip
                if pt["R"] <= NEAR_MAX:
                    continue
                for k, n in POWER.items():
                    val = pt["d"][k] * pt["R"] ** n
                    lim = K_ENV * near[k] + _floor(t, k) * pt["R"] ** n
                    if near[k] > 0:
                        worst_ratio[k] = max(worst_ratio[k], (val - _floor(t, k) * pt["R"] ** n) / near[k])
                    if not (val <= lim):
                        chk.violation(
                            dict(base, kind="envelope", observable=k, R=pt["R"], power=n, value=float(val), near_field=float(near[k]),
                                 ratio=float(val / near[k]) if near[k] > 0 else 1e300, deviation=float(pt["d"][k])),
                            f"{key}: |d{k}| = {pt['d'][k]:.3e} gives |d{k}| R^{n} = {val:.4g}, over the envelope {K_ENV:g} x {near[k]:.4g} fixed by the "
                            f"same system at R <= 22 A (fragments do not decouple like the leading multipole)",
                            replay=dict(t, Rs=sorted({R for R in RS if R <= NEAR_MAX} | {pt["R"]})),
                        )  # fmt: skip
        elif t["kind"] == "scan":
            n_eval += 2 * len(r["points"])
            planned += len(r["points"])
            for i, pt in enumerate(r["points"]):
                key = f"{tag}|scan {t['Rs']} cutoff {t['cutoff']:g}|point {i} R={pt['R']:g}"
                if pt["nc"]:
                    chk.excluded += 1
                    continue
                chk.case(key, nontrivial=i > 0, outcome=f"{pt['npairs']}")
                d = dict(base, kind="driver_history", R=pt["R"], cutoff=t["cutoff"], point=i)
                if pt["npairs"] != pt["nref"]:
                    chk.violation(d, f"{key}: reused driver works with {pt['npairs']} pairs, the geometry of this call has {pt['nref']} pairs inside the cutoff", replay=dict(t))
                # a fresh driver gives bitwise the same numbers on the healthy tree
                elif pt["dE"] > 1e-9 or pt["dF"] > 1e-8 or pt["dq"] > 1e-9:
                    chk.violation(d, f"{key}: reused driver differs from a fresh one: dE={pt['dE']:.2e} dF={pt['dF']:.2e} dq={pt['dq']:.2e}", replay=dict(t))
        elif t["kind"] == "cutoff":
            n_eval += r["n_eval"]
            planned += len(t["Rs"]) * len(t["cutoffs"])
            if any(r["iso_nc"]):
                chk.excluded += len(r["points"])
                continue
            for pt in r["points"]:
                key = f"{tag}|R={pt['R']:g}|c={pt['cutoff']:g}"
                d = dict(base, R=pt["R"], cutoff=pt["cutoff"], regime=pt["regime"])
                rp = dict(t, Rs=[pt["R"]], cutoffs=[pt["cutoff"]])
                chk.case(key, nontrivial=True, outcome=f"{pt['regime']}|{pt['n_got']}")
                if pt["margin"] < 1e-9:
                    chk.excluded += 1  # a pair sits on the cutoff to rounding; only the exact boundary lattice decides those
                    continue
                if not pt["list_ok"]:
                    chk.violation(dict(d, kind="pairlist", n_got=pt["n_got"], n_ref=pt["n_ref"]),
                                  f"{key}: pair list has {pt['n_got']} entries, reference {{r < cutoff}} has {pt['n_ref']}; extra/missing {pt.get('diff')}", replay=rp)  # fmt: skip
                if "raised" in pt:
                    chk.violation(dict(d, kind="exception"), f"{key}: the package raised: {pt['raised']}", replay=rp)
                    continue
                if pt["nc"]:
                    chk.excluded += 1
                    continue
                if not pt["finite"]:
                    chk.violation(dict(d, kind="nonfinite"), f"{key}: non-finite energy or force under a finite cutoff", replay=rp)
                for k, v in pt.get("dev", {}).items():
                    if not (v <= EXACT[k]):
                        what = "sum of the isolated fragments" if pt["regime"] == "all_cross_dropped" else "default-cutoff result"
                        chk.violation(dict(d, kind="cutoff_energy", observable=k, deviation=float(v)),
                                      f"{key}: {pt['regime']}: {k} differs from the {what} by {v:.3e}", replay=rp)  # fmt: skip
        else:
            planned += len(r)
            for pt in r:
                key = f"{tag}|a{pt['a']}b{pt['b']}|k={pt['k']}|{pt['cutoff']}"
                chk.case(key, nontrivial=True, outcome=f"{pt['cutoff']}|{pt['pair_in_got']}")
                if not pt["exact"]:
                    chk.harness_error(f"{key}: boundary pair not exactly at r = 5k")
                if not pt["list_ok"]:
                    chk.violation(dict(base, kind="pairlist_boundary", cutoff_rel=pt["cutoff"], k=pt["k"], pair_in_got=pt["pair_in_got"], pair_in_ref=pt["pair_in_ref"]),
                                  f"{key}: pair at exactly r = {5 * pt['k']} A with cutoff {pt['cutoff']}: in package list {pt['pair_in_got']}, in reference "
                                  f"{{r < cutoff}} {pt['pair_in_ref']} ({pt['n_got']} vs {pt['n_ref']} pairs)", replay=dict(t, atoms=[(pt["a"], pt["b"])]))  # fmt: skip
    chk.planned = planned
    chk.extra.update(driver_calls=n_eval, worst_far_over_near_ratio=worst_ratio, envelope_K=K_ENV, floor=FLOOR, tasks=len(tasks))


def replay(payload):
    t = payload["replay"]
    r = _dispatch(t)
    ok = True
    if t["kind"] == "series":
        near = {k: 0.0 for k in POWER}
        for pt in r["points"]:
            if pt["R"] <= NEAR_MAX and "d" in pt:
                for k, n in POWER.items():
                    near[k] = max(near[k], pt["d"][k] * pt["R"] ** n)
        for pt in r["points"]:
            if "raised" in pt:
                print("  R", pt["R"], "raised", pt["raised"])
                ok = False
                continue
            line = f"  R={pt['R']:6g} pairs {pt['npairs']}/{pt['npairs_expected']}"
            ok = ok and pt["pairs_ok"]
            for k, n in POWER.items():
                val = pt["d"][k] * pt["R"] ** n
                line += f"  |d{k}|R^{n}={val:.4g}"
                if pt["R"] > NEAR_MAX and near[k] > 0 and not (val <= K_ENV * near[k] + _floor(t, k) * pt["R"] ** n):
                    line += "(!)"
                    ok = False
                if pt["R"] == 500.0 and not (pt["d"][k] <= ABS_500[k]):
                    line += "(abs!)"
                    ok = False
            print(line)
    elif t["kind"] == "cutoff":
        for pt in r["points"]:
            bad = (not pt["list_ok"]) or "raised" in pt or any(not (v <= EXACT[k]) for k, v in pt.get("dev", {}).items()) or not pt.get("finite", True)
            print(f"  R={pt['R']:g} cutoff={pt['cutoff']:g} {pt['regime']} list_ok={pt['list_ok']} ({pt['n_got']}/{pt['n_ref']}) dev={pt.get('dev')} {pt.get('raised', '')}")
            ok = ok and not bad
    else:
        for pt in r:
            print(f"  a{pt['a']} b{pt['b']} k={pt['k']} cutoff {pt['cutoff']}: in package list {pt['pair_in_got']} in reference {pt['pair_in_ref']} list_ok={pt['list_ok']}")
            ok = ok and pt["list_ok"]
    return ok
