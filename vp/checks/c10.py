"""C10  A run killed at any instant and resumed equals the uninterrupted run.

Explorer: breadth-first search over crash sequences where a STATE is the on-disk image left by a
crash (process memory is lost by definition, so the image is the whole state; images are merged only
when every file recovery can read is byte-identical).  Transitions:
  * from the empty directory: every prefix of the physical write journal of the uninterrupted run
    (LD_PRELOAD shim; = SIGKILL at every possible instant) + every page split of a multi-page last
    write (torn write) + a soft crash (exception, finally-block runs) before/after the n-th call of
    every instrumented program point;
  * from a crash image: resume (or rerun when no checkpoint exists yet) with a further hard
    (os._exit) or soft crash at a program point, up to 3 crashes deep;
  * from chosen crash images that hold a checkpoint: every prefix (and torn page split) of the write
    journal of the RESUMED process, applied to the image it started from (depth 2, SIGKILL at every
    instant of the resumed run, including its clean-up of what the first crash left behind).
Oracle in EVERY state: the checkpoint, if present, loads and carries the documented keys; recovery
finishes the planned steps; every HDF5 dataset and the XYZ frame sequence equal the uninterrupted
reference (vp.drivers.crash.compare_outputs).
"""
import os
import shutil

from .. import warm
from ..drivers import crash as CR
from ..drivers import md as MD
from ..pool import is_error, is_timeout, pmap

PID = "C10"
LEVEL = "fault_enumeration"
RULE = (
    "BFS over crash sequences (depth <= 3) per engine configuration; states = distinct on-disk images "
    "(journal prefixes, torn page splits, soft/hard program-point crashes, crashes of resumed runs); every "
    "state is recovered with the real run_from_checkpoint / rerun and all outputs compared with the "
    "uninterrupted run; a case is non-trivial when the crash fell after the first write of the run; "
    "distinct = distinct (configuration, image hash)"
)
ASSUMPTIONS = [
    "process death only (SIGKILL / exception): page-cache contents survive; power-loss reordering of "
    "un-fsynced blocks is outside the statement",
    "the write journal sees every file mutation made through libc (validated each run: replaying the "
    "whole journal reproduces the run directory byte for byte)",
    "hard kills inside a RESUMED run: at every prefix of the resumed process's own write journal for the start images "
    "chosen in phase 2b (after each checkpoint publication and just before the next one; configurations of level >= 1), "
    "at instrumented program points elsewhere",
]

_CFG = {}
_REF = {}
_ROOT = None


def _configs(tier):
    c = {}
    c["bomd"] = CR.default_cfg(engine="bomd")
    c["langevin_mixed"] = CR.default_cfg(
        engine="langevin", mols=["CH4", "H2O"], steps=7, seed=5,
        out=dict(data=1, coordinates=2, velocities=3, forces=5, xyz=2, checkpoint_every=3),
    )  # fmt: skip
    c["xl3"] = CR.default_cfg(engine="xl", k=3, steps=6, seed=1)
    c["sh"] = CR.default_cfg(
        engine="sh", mols=["H2CO"], excited={"n_states": 2, "method": "cis"}, active_state=1, steps=4, eps=1e-7,
        out=dict(checkpoint_every=2, nonadiabatic=1),
    )  # fmt: skip
    # thermostatted XL-BOMD: the resumed run must still be thermostatted (damp travels through the checkpoint)
    c["xl_damped"] = CR.default_cfg(engine="xl_damped", k=3, steps=4, seed=4, damp=5.0, out=dict(checkpoint_every=2, xyz=0))
    # the /data stream sparser than the checkpoints (and absent): checkpoints fall on steps that add rows to the vector
    # streams only, so "everything up to the checkpoint is on disk" has to hold for each stream on its own
    c["bomd_sparse_data"] = CR.default_cfg(engine="bomd", steps=6, out=dict(data=5, coordinates=1, velocities=1, forces=2, xyz=0, checkpoint_every=2))
    # more than 10 steps with the checkpoint at step 10: a frame header cut inside its step number ("step: 11" -> "step: 1")
    c["bomd_xyz_bytes"] = CR.default_cfg(engine="bomd", steps=12, out=dict(data=0, coordinates=0, velocities=0, forces=0, xyz=1, checkpoint_every=10))
    c["bomd_xyz_bytes"]["tear_xyz"] = True
    # periodic centre-of-mass removal whose stride does not divide the checkpoint step, on a thermostatted engine (momentum
    # reappears between removals): the removal schedule of the resumed run must keep the phase of the absolute step count
    c["langevin_com"] = CR.default_cfg(
        engine="langevin", mols=["H2O"], steps=7, seed=5, damp=5.0, remove_com=["linear", 2],
        out=dict(data=1, coordinates=0, velocities=1, forces=0, xyz=0, checkpoint_every=3),
    )  # fmt: skip
    if tier == "thorough":
        c["bomd_no_data"] = CR.default_cfg(engine="bomd", steps=5, out=dict(data=0, coordinates=1, velocities=2, forces=1, xyz=2, checkpoint_every=2))
        c["ksa"] = CR.default_cfg(engine="ksa", k=4, steps=6, seed=2, mols=["H2O"])
        for k in range(4, 10):
            c[f"xl{k}"] = CR.default_cfg(engine="xl", k=k, steps=k + 3, seed=1, out=dict(checkpoint_every=3))
        c["bomd_noreuse"] = CR.default_cfg(engine="bomd", reuse_P=False, mols=["H2O"], out=dict(checkpoint_every=3))
        c["xl_damped5"] = CR.default_cfg(engine="xl_damped", k=5, steps=7, seed=4, out=dict(checkpoint_every=2, xyz=3))
        c["ksa_damped"] = CR.default_cfg(engine="ksa_damped", k=4, steps=5, seed=6, mols=["H2O"], damp=5.0, out=dict(checkpoint_every=2))
        c["excited"] = CR.default_cfg(
            engine="bomd", mols=["H2CO"], excited={"n_states": 2, "method": "cis"}, active_state=1, steps=5,
            out=dict(checkpoint_every=2),
        )  # fmt: skip
        c["excited_xl"] = CR.default_cfg(
            engine="xl", k=3, mols=["H2CO"], excited={"n_states": 2, "method": "cis"}, active_state=1, steps=5,
            out=dict(checkpoint_every=2),
        )  # fmt: skip
        c["bomd_batch_sub"] = CR.default_cfg(
            engine="bomd", mols=["CH4", "H2O"], steps=6, out=dict(checkpoint_every=2, molid=[1], xyz=3, data=2)
        )
    return c


# ------------------------------------------------------------------ state store


def _read_image(d):
    files = {}
    for name in sorted(os.listdir(d)):
        p = os.path.join(d, name)
        if os.path.isfile(p):
            with open(p, "rb") as fh:
                files[name] = fh.read()
    return files


def _key_of(files):
    keep = {k: v for k, v in files.items() if not k.startswith(".tmp_ckpt_") and ".bak." not in k}
    return CR.image_key(keep)


def _store(files, cname):
    key = _key_of(files)
    d = os.path.join(_ROOT, cname, "states", key)
    if not os.path.exists(d):
        tmp = d + f".tmp{os.getpid()}"
        CR.write_image(files, tmp)
        try:
            os.rename(tmp, d)
        except OSError:
            shutil.rmtree(tmp, ignore_errors=True)
    return key, d


# ------------------------------------------------------------------ tasks (run in forked children)


_RNGREF = {}
_MUST = {}  # (cname, state key) -> True when a checkpoint had been published before the crash that left this image


def t_recover(item):
    cname, key, sdir = item
    cfg = _CFG[cname]
    nmol = len(cfg["mols"])
    wd = MD.scratch_dir("c10r")
    try:
        work = os.path.join(wd, "w")
        shutil.copytree(sdir, work)
        had = os.path.exists(os.path.join(work, "md.restart.pt"))
        info, res = CR.recover(work, cfg, nmol)
        rng_log = info.pop("rng_log", [])
        prob = []
        if _MUST.get((cname, key)) and not had:
            prob.append("no checkpoint on disk although one had been published before the process died (checkpoint publication is not atomic)")
        if info.get("checkpoint_error"):
            prob.append(info["checkpoint_error"])
        if cfg["engine"] in CR.DRAWING_ENGINES and had and cname in _RNGREF:
            ref = dict(_RNGREF[cname])
            bad = [(i, h) for i, h in rng_log if ref.get(i) is not None and ref[i] != h]
            if bad:
                prob.append(f"random-number state at the start of resumed step {bad[0][0]} differs from the uninterrupted run (RNG state not restored)")
        if res is None:
            return {"problems": prob or ["recovery impossible"], "info": info}
        if res.get("error"):
            prob.append(f"recovery raised {res['error']}")
        else:
            prob += CR.compare_outputs(res, _REF[cname], nmol)
        return {"problems": prob, "info": info}
    finally:
        MD.rm(wd)


def t_expand(item):
    cname, key, sdir, crash = item
    cfg = _CFG[cname]
    wd = MD.scratch_dir("c10x")
    try:
        work = os.path.join(wd, "w")
        if sdir:
            shutil.copytree(sdir, work)
        else:
            os.makedirs(work)
        resume = os.path.exists(os.path.join(work, "md.restart.pt"))
        status, r = CR.in_fork(CR.crash_child, cfg, work, tuple(crash), resume)
        if status == "timeout":
            return {"fired": True, "hang": True}
        if status == "ok":
            if isinstance(r, dict) and "__error__" in r:
                return {"fired": True, "error": r["__error__"]}
            if not r["fired"]:
                return {"fired": False, "outcome": r["outcome"]}
            if r["outcome"].startswith("error"):
                return {"fired": True, "error": r["outcome"]}
        elif status == "exit" and r != 77:
            return {"fired": True, "error": f"child exited with {r}"}
        files = _read_image(work)
        k2, d2 = _store(files, cname)
        return {"fired": True, "key": k2, "dir": d2}
    finally:
        MD.rm(wd)


# ------------------------------------------------------------------ exploration


def _menu_first(nmax, level):
    """soft crashes at program points of the first run (hard kills there are the journal prefixes)."""
    out = []
    points = [p for p in CR.POINTS if p != "append_nonadiabatic"] if level >= 1 else ["step", "save_checkpoint", "os_replace"]
    for point in points:
        for when in ("before", "after"):
            for nth in range(1, nmax + 1):
                out.append((point, nth, when, "soft"))
    return out


def _menu_resumed(nsteps, level, depth):
    out = []
    if level <= 1:
        nths = (1, 2, 3) if depth == 2 else (1, 2)
        kinds = ("hard", "soft") if depth == 2 else ("hard",)
        for kind in kinds:
            for nth in nths:
                out.append(("step", nth, "after", kind))
        if depth == 2:
            out.append(("save_checkpoint", 1, "before", "hard"))
            out.append(("os_replace", 1, "after", "soft"))
        return out
    for kind in ("hard", "soft"):
        for nth in range(1, nsteps + 1):
            out.append(("step", nth, "after", kind))
        for nth in (1, 2):
            out.append(("save_checkpoint", nth, "before", kind))
            out.append(("os_replace", nth, "after", kind))
            out.append(("xyz_write", nth, "after", kind))
            out.append(("append_vectors", nth, "before", kind))
            out.append(("torch_save", nth, "after", kind))
    return out


def _desc(cname, cfg, via, problems, info):
    p0 = problems[0] if problems else ""
    last = via.split(" -> ")[-1]
    return {
        "config": cname, "engine": cfg["engine"], "via": last.split("#")[0], "crash_kind": last.split(":")[-1],
        "depth": via.count(" -> ") + 1, "killed_inside_h5_library_write": "(h5)" in via or "(h5-burst)" in via,
        "had_checkpoint": bool(info.get("had_checkpoint")), "xyz_on": cfg["out"]["xyz"] > 0,
        "problem_class": (
            "xyz-duplicated" if "duplicated frames" in p0 else "xyz" if p0.startswith("xyz") else
            "rng" if "random-number state" in p0 else "checkpoint" if "checkpoint" in p0 else "h5-steps" if "steps" in p0 else "h5-values" if p0.startswith("h5") else "recovery"
        ),
    }  # fmt: skip


class _Space:
    """state graph of one configuration"""

    def __init__(self, cname, cfg, level):
        self.cname, self.cfg, self.level = cname, cfg, level
        self.states = {}
        self.edges = 0
        self.boundary = set()
        self.ops = None
        self.n_journal_states = 0

    def add(self, key, d, depth, via):
        if key not in self.states:
            self.states[key] = {"dir": d, "depth": depth, "via": via}
            return True
        return False


def _journal_task(cname):
    cfg = _CFG[cname]
    base = os.path.join(_ROOT, cname)
    os.makedirs(os.path.join(base, "states"), exist_ok=True)
    ops, rundir = CR.journaled_run(cfg, base)
    return ops, rundir


def _is_burst(ops, n):
    """a kill after n operations falls between two consecutive positional writes to an HDF5 file"""
    return 0 < n < len(ops) and all(o["kind"] == 1 and o["path"].endswith(".h5") for o in (ops[n - 1], ops[n]))


def _jresume_task(item):
    cname, sdir, tag = item
    try:
        return CR.journaled_resume(_CFG[cname], os.path.join(_ROOT, cname), sdir, tag)
    except Exception as e:  # noqa: BLE001
        return f"{type(e).__name__}: {e}"


def _viol_expand(chk, sp, crash, r, via_prefix=""):
    c = crash
    chk.violation(
        _desc(sp.cname, sp.cfg, f"{via_prefix}{c[0]}#{c[1]}:{c[2]}:{c[3]}", ["recovery"], {"had_checkpoint": bool(via_prefix)}),
        f"{sp.cname}: run/resume [{via_prefix}{c[0]}#{c[1]}:{c[2]}:{c[3]}] failed before reaching the crash point: {r}",
        replay={"config": sp.cname, "path": via_prefix, "crash": list(c), "seed": sp.cfg.get("rot", 0)},
    )


def explore_all(chk, spaces, tier):
    from concurrent.futures import ThreadPoolExecutor

    # phase 1: journaled uninterrupted runs (subprocesses, in parallel)
    with ThreadPoolExecutor(max_workers=8) as ex:
        jr = list(ex.map(_journal_task, [sp.cname for sp in spaces]))
    for sp, (ops, rundir) in zip(spaces, jr):
        nmol = len(sp.cfg["mols"])
        full = CR.apply_ops(ops)
        disk = _read_image(rundir)
        for name, data in disk.items():
            if bytes(full.get(name, b"")) != data:
                chk.harness_error(f"{sp.cname}: journal replay does not reproduce {name}")
                return
        _REF[sp.cname] = MD.collect(os.path.join(rundir, "md"), range(nmol))
        try:
            import json as _json

            with open(os.path.join(_ROOT, sp.cname, "rnglog.json")) as fh:
                _RNGREF[sp.cname] = [tuple(x) for x in _json.load(fh)]
        except OSError:
            pass
        sp.ops = ops
        published = [i for i, o in enumerate(ops) if o["kind"] == 3 and o["payload"] == "md.restart.pt"]
        first_pub = published[0] + 1 if published else None  # number of ops after which a checkpoint exists
        # depth 1a: journal prefixes and torn page splits
        for n in range(0, len(ops) + 1):
            files = CR.apply_ops(ops[:n])
            k, d = _store({a: bytes(b) for a, b in files.items()}, sp.cname)
            sp.edges += 1
            burst = 0 < n < len(ops) and all(o["kind"] == 1 and o["path"].endswith(".h5") for o in (ops[n - 1], ops[n]))
            sp.add(k, d, 1, f"journal-prefix#{n}{'(h5-burst)' if burst else ''}:hard")
            if first_pub is not None and n >= first_pub:
                _MUST[(sp.cname, k)] = True
            if n > 0 and ops[n - 1]["kind"] == 3:
                sp.boundary.add(k)
            if n > 0 and ops[n - 1]["kind"] in (1, 2) and len(ops[n - 1]["payload"]) > 4096:
                L = len(ops[n - 1]["payload"])
                for cut in range(4096, L, 4096):
                    files = CR.apply_ops(ops[:n], torn=cut)
                    k, d = _store({a: bytes(b) for a, b in files.items()}, sp.cname)
                    sp.edges += 1
                    sp.add(k, d, 1, f"torn-write#{n}@{cut}({ops[n - 1]['path'].split('.')[-1]}):hard")
            # a text stream leaves the process through an 8 KiB buffer: its boundary can fall on ANY byte of a frame, so in
            # the configuration that asks for it every byte cut of the XYZ writes after the first checkpoint is an image
            if (sp.cfg.get("tear_xyz") and n > 0 and ops[n - 1]["kind"] in (1, 2) and ops[n - 1]["path"].endswith(".xyz")
                    and first_pub is not None and n >= first_pub):  # fmt: skip
                for cut in range(1, len(ops[n - 1]["payload"])):
                    files = CR.apply_ops(ops[:n], torn=cut)
                    k, d = _store({a: bytes(b) for a, b in files.items()}, sp.cname)
                    sp.edges += 1
                    sp.add(k, d, 1, f"torn-write#{n}@{cut}(xyz-byte):hard")
                    _MUST[(sp.cname, k)] = True
        sp.n_journal_states = len(sp.states)
    # phase 2: depth 1b soft crashes at program points of the first run
    items = []
    for sp in spaces:
        for c in _menu_first(sp.cfg["steps"] + 2, sp.level):
            items.append((sp, c))
    res = pmap(t_expand, [(sp.cname, None, None, c) for sp, c in items], chunk=1, timeout=600, progress="C10 soft crashes of the first run")
    for (sp, c), r in zip(items, res):
        if is_timeout(r) or is_error(r) or r.get("hang") or r.get("error"):
            _viol_expand(chk, sp, c, r)
            continue
        if not r["fired"]:
            continue
        sp.edges += 1
        sp.add(r["key"], r["dir"], 1, f"{c[0]}#{c[1]}:{c[2]}:soft")
        if c[0] in ("step", "save_checkpoint", "os_replace"):
            sp.boundary.add(r["key"])
    # phase 2b: the physical write journal of RESUMED runs.  From chosen crash images that hold a checkpoint (right after
    # each publication: nothing to drop; and just before the next publication: rows and frames beyond the checkpoint are
    # on disk and the resumed process has to drop them first) the real run_from_checkpoint is executed in a subprocess under
    # the write journal; every prefix of THAT journal applied to the image it started from (and every page split of a
    # multi-page last write) is a depth-2 state = SIGKILL of the resumed process at every possible instant, including
    # while it is still cleaning up after the first crash.
    jobs = []
    for sp in spaces:
        if sp.level < 1 and not sp.cfg.get("journal_resume"):
            continue
        ops = sp.ops
        pubs = [i + 1 for i, o in enumerate(ops) if o["kind"] == 3 and o["payload"] == "md.restart.pt"]
        cand = []
        for j, n in enumerate(pubs):
            cand.append(n)
            nxt = pubs[j + 1] if j + 1 < len(pubs) else len(ops)
            # just before the next publication (or the end of the run): all streams have been flushed up to the next
            # checkpoint step while the checkpoint on disk is still the old one = the most stale content a resumed process
            # can meet (half-way images hold no such content: the text streams leave the process only when flushed)
            m = nxt - 1
            while m > n and _is_burst(ops, m):
                m -= 1
            if n < m < nxt:
                cand.append(m)
        if tier == "quick" and not sp.cfg.get("journal_resume_all"):
            cand = cand[:4]
        for n in cand:
            files = CR.apply_ops(ops[:n])
            k, d = _store({a: bytes(b) for a, b in files.items()}, sp.cname)
            if k in sp.states:
                jobs.append((sp, k, n))
    with ThreadPoolExecutor(max_workers=8) as ex:
        jres = list(ex.map(_jresume_task, [(sp.cname, sp.states[k]["dir"], f"p{n}") for sp, k, n in jobs]))
    n_resumed_journal_states = 0
    for (sp, k, n), jr_ in zip(jobs, jres):
        if isinstance(jr_, str):
            chk.violation(
                _desc(sp.cname, sp.cfg, sp.states[k]["via"], ["recovery"], {"had_checkpoint": True}),
                f"{sp.cname}: resuming under the write journal after [{sp.states[k]['via']}] failed: {jr_}",
                replay={"config": sp.cname, "via": sp.states[k]["via"], "seed": sp.cfg.get("rot", 0)},
            )
            continue
        rops, rdir = jr_
        base = _read_image(sp.states[k]["dir"])
        full = CR.apply_ops(rops, base=base)
        disk = _read_image(rdir)
        for name, data in disk.items():
            if bytes(full.get(name, b"")) != data:
                chk.harness_error(f"{sp.cname}: journal replay of the resumed run (from prefix {n}) does not reproduce {name}")
                return
        via0 = sp.states[k]["via"] + " -> "
        for m in range(1, len(rops) + 1):
            files = CR.apply_ops(rops[:m], base=base)
            k2, d2 = _store({a: bytes(b) for a, b in files.items()}, sp.cname)
            sp.edges += 1
            burst = m < len(rops) and _is_burst(rops, m)
            if sp.add(k2, d2, 2, via0 + f"resumed-journal-prefix#{m}{'(h5-burst)' if burst else ''}:hard"):
                n_resumed_journal_states += 1
            _MUST[(sp.cname, k2)] = True
            if rops[m - 1]["kind"] in (1, 2) and len(rops[m - 1]["payload"]) > 4096:
                for cut in range(4096, len(rops[m - 1]["payload"]), 4096):
                    files = CR.apply_ops(rops[:m], torn=cut, base=base)
                    k2, d2 = _store({a: bytes(b) for a, b in files.items()}, sp.cname)
                    sp.edges += 1
                    if sp.add(k2, d2, 2, via0 + f"resumed-torn-write#{m}@{cut}({rops[m - 1]['path'].split('.')[-1]}):hard"):
                        n_resumed_journal_states += 1
                    _MUST[(sp.cname, k2)] = True
        chk.extra.setdefault("resumed_journals", {})[f"{sp.cname}@prefix{n}"] = len(rops)
    chk.extra["resumed_journal_states"] = n_resumed_journal_states
    # phase 3: crashes of resumed runs, depth 2 and 3
    frontier = {}
    for sp in spaces:
        if sp.level == 0:
            frontier[sp.cname] = []
        elif sp.level == 1:
            frontier[sp.cname] = [k for k in sp.states if k in sp.boundary]
        else:
            frontier[sp.cname] = [k for k, st in sp.states.items() if k in sp.boundary or not st["via"].startswith(("journal", "torn"))]
    for depth in (2, 3):
        items = []
        for sp in spaces:
            for k in frontier[sp.cname]:
                for c in _menu_resumed(sp.cfg["steps"], sp.level, depth):
                    items.append((sp, k, c))
        if not items:
            break
        res = pmap(t_expand, [(sp.cname, k, sp.states[k]["dir"], c) for sp, k, c in items], chunk=1, timeout=600, progress=f"C10 crashes at depth {depth}")
        new = {sp.cname: [] for sp in spaces}
        for (sp, k, c), r in zip(items, res):
            via0 = sp.states[k]["via"] + " -> "
            if is_timeout(r) or is_error(r) or r.get("hang") or r.get("error"):
                _viol_expand(chk, sp, c, r, via0)
                continue
            if not r["fired"]:
                continue
            sp.edges += 1
            if os.path.exists(os.path.join(sp.states[k]["dir"], "md.restart.pt")):
                _MUST[(sp.cname, r["key"])] = True  # the run that was crashed had been resumed from a checkpoint
            if sp.add(r["key"], r["dir"], depth, via0 + f"{c[0]}#{c[1]}:{c[2]}:{c[3]}"):
                new[sp.cname].append(r["key"])
        frontier = new
    # phase 4: the oracle in every state
    items = [(sp, k) for sp in spaces for k in sp.states]
    res = pmap(t_recover, [(sp.cname, k, sp.states[k]["dir"]) for sp, k in items], chunk=1, timeout=900, progress="C10 recoveries")
    for (sp, k), r in zip(items, res):
        st = sp.states[k]
        cname, cfg = sp.cname, sp.cfg
        if is_timeout(r):
            chk.violation(_desc(cname, cfg, st["via"], ["recovery"], {}), f"{cname}: recovery after [{st['via']}] does not terminate", replay={"config": cname, "via": st["via"], "seed": cfg.get("rot", 0)})
            continue
        if is_error(r):
            chk.violation(_desc(cname, cfg, st["via"], ["recovery"], {}), f"{cname}: recovery after [{st['via']}] died: {r['__error__']}", replay={"config": cname, "via": st["via"], "seed": cfg.get("rot", 0)})
            continue
        nontrivial = not st["via"].startswith("journal-prefix#0")
        chk.case(
            f"{cname}|{k[:12]}", nontrivial=nontrivial, outcome=f"{r['info'].get('step_done')}|{len(r['problems'])}",
            sample={"config": cname, "crash_path": st["via"], "resumed_from_step": r["info"].get("step_done")},
        )
        chk.traces += 1
        if r["problems"]:
            chk.violation(
                _desc(cname, cfg, st["via"], r["problems"], r["info"]),
                f"{cname}: after [{st['via']}] (checkpoint step {r['info'].get('step_done')}): {r['problems'][0]} (+{len(r['problems']) - 1} more)",
                replay={"config": cname, "via": st["via"], "seed": cfg.get("rot", 0)},
            )
    for sp in spaces:
        chk.states += len(sp.states)
        chk.transitions += sp.edges
        chk.extra.setdefault("per_config", {})[sp.cname] = {
            "journal_ops": len(sp.ops), "journal_states": sp.n_journal_states, "states": len(sp.states),
            "transitions": sp.edges, "max_depth": max(s["depth"] for s in sp.states.values()), "level": sp.level,
        }  # fmt: skip


LEVELS_QUICK = {"bomd": 1}
LEVELS_THOROUGH = {"bomd": 2, "langevin_mixed": 1, "xl3": 1, "ksa": 1, "excited": 1}


def run(chk, tier, seed):
    global _ROOT
    if not os.path.exists(CR.SHIM):
        chk.harness_error("native/journal.so missing: run ./setup.sh")
        return
    warm()
    _ROOT = MD.scratch_dir("c10")
    try:
        cfgs = _configs(tier)
        levels = LEVELS_QUICK if tier == "quick" else LEVELS_THOROUGH
        spaces = []
        for cname, cfg in cfgs.items():
            cfg = dict(cfg, rot=seed)
            _CFG[cname] = cfg
            spaces.append(_Space(cname, cfg, levels.get(cname, 0)))
        explore_all(chk, spaces, tier)
    finally:
        MD.rm(_ROOT)
    chk.extra["recoveries_validated"] = chk.traces


def replay(payload):
    """Re-execute one crash path without the explorer: rebuild the journal of the configuration, materialise /
    re-inject each crash of the path in order, then run the recovery oracle on the final image."""
    import re

    global _ROOT
    c = payload["replay"]
    cname = c["config"]
    seed = int(c.get("seed", 0))
    via = c.get("via") or (c.get("path", "") + "{}#{}:{}:{}".format(*c["crash"]) if c.get("crash") else None)
    if not via:
        print("nothing to replay in", c)
        return True
    cfg = dict(_configs("thorough")[cname], rot=seed)
    _CFG[cname] = cfg
    warm()
    _ROOT = MD.scratch_dir("c10replay")
    try:
        ops, rundir = _journal_task(cname)
        nmol = len(cfg["mols"])
        _REF[cname] = MD.collect(os.path.join(rundir, "md"), range(nmol))
        work = os.path.join(_ROOT, "work")
        os.makedirs(work)
        for i, el in enumerate(via.split(" -> ")):
            rm_ = re.match(r"resumed-(?:journal-prefix|torn-write)#(\d+)(?:@(\d+))?", el)
            if rm_:
                rops, _rd = CR.journaled_resume(cfg, os.path.join(_ROOT, cname), work, f"replay{i}")
                base = _read_image(work)
                files = CR.apply_ops(rops[: int(rm_.group(1))], torn=int(rm_.group(2)) if rm_.group(2) else None, base=base)
                shutil.rmtree(work)
                CR.write_image({a: bytes(b) for a, b in files.items()}, work)
                continue
            m = re.match(r"journal-prefix#(\d+)", el)
            t = re.match(r"torn-write#(\d+)@(\d+)", el)
            if m or t:
                n = int((m or t).group(1))
                files = CR.apply_ops(ops[:n], torn=int(t.group(2)) if t else None)
                CR.write_image({a: bytes(b) for a, b in files.items()}, work)
                continue
            pm = re.match(r"(\w+)#(\d+):(before|after):(hard|soft)", el)
            crash = (pm.group(1), int(pm.group(2)), pm.group(3), pm.group(4))
            resume = os.path.exists(os.path.join(work, "md.restart.pt"))
            status, r = CR.in_fork(CR.crash_child, cfg, work, crash, resume)
            print(f"  crash {el}: {status} {r}")
        info, res = CR.recover(work, cfg, nmol)
        prob = [info["checkpoint_error"]] if info.get("checkpoint_error") else []
        if res is None:
            prob.append("recovery impossible")
        elif res.get("error"):
            prob.append(f"recovery raised {res['error']}")
        else:
            prob += CR.compare_outputs(res, _REF[cname], nmol)
        for p_ in prob:
            print("  ", p_)
        return not prob
    finally:
        MD.rm(_ROOT)
