"""C18  Invalid requests are rejected loudly; valid ones yield finite results.

Explorer (S-lat): two exhaustive lattices of requests to the real package.

 negative  every single-fault mutant of a valid base request along each documented precondition:
           adjacent transpositions that unsort a species row (any row of a padded batch), charges that
           make the electron count odd under RHF (any row), every (charge, multiplicity) in
           {-2..2} x {1..5} under UHF against the occupation rule, UHF x {Pulay, KSA, SP2, CIS, RPA, PM6},
           heterogeneous batch x {RPA, analytical excited-state gradient, all-forces}, active state > 0
           without excited-state settings, unknown `remove_com` modes through MD.run.
           Oracle: an exception (any type) is raised and no result attribute of the molecule has been
           written (and, for MD, no output file exists).  The unmutated base request of every family is
           executed too and must be accepted.
 positive  every element pair of each method's table (saturated H_nA-BH_m) at |AB| in {0.5 ... 30} A,
           hydride ions of charge +-1, +-2 of every element, every occupation-valid (charge, mult) of the
           UHF lattice, valid `remove_com` modes.  Oracle: under the iteration horizon the call returns and
           Etot, Hf, force, q, e_mo are finite for every molecule that is not flagged `notconverged`.

Requests the statement does not list (n_states > nov, unknown method / converger id, element absent
from the table, invalid remove_com stride, missing n_states) are executed and recorded; only a silent
return with non-finite output would count.
"""
import contextlib
import io
import os
import time
import traceback

import numpy as np

from ..drivers import md as MD
from ..drivers import molecules as M
from ..drivers import sp
from ..oracles import scf_residuals as SR
from ..pool import is_error, is_timeout, pmap

PID = "C18"
LEVEL = "exploration"
RULE = (
    "negative lattice: base requests x every single-fault mutant per documented precondition (each adjacent transposition "
    "unsorting a species row of any batch row; each odd-electron charge under RHF in any row; (charge, mult) in {-2..2}x{1..5} "
    "under UHF on 4 molecules; UHF x 6 unsupported options; heterogeneous batch x 3 homogeneous-only features; active state "
    "without excited-state settings; 14 malformed remove_com values x MD engines); positive lattice: every element pair of "
    "every method table x distances, hydride ions of every element x 4 charges, valid UHF occupations, valid remove_com modes. "
    "One execution of the real package per lattice point; distinct = distinct request; a case is non-trivial when the oracle "
    "applies (must-raise or must-be-finite), trivial when it is only recorded (unlisted precondition)"
)
ASSUMPTIONS = [
    "'loud' = any exception raised before one of the result attributes (force, Hf, Etot, Eelec, Enuc, Eiso, e_mo, e_gap, dm, q) "
    "of the molecule is written; auxiliary attributes written before a late guard (dipole, cis_energies, ...) are recorded, not judged",
    "an exception raised for a valid request at a compressed/stretched geometry or for an ion is loud and therefore accepted "
    "(recorded); at the near-equilibrium distance (scale 1.0 of the covalent radii) a valid neutral request must be accepted",
    "an occupation that does not fit the basis (n_alpha > number of orbitals, n_beta < 0, no electrons) is an impossible "
    "charge/multiplicity pair in the sense of the statement",
    "s/p-basis methods MNDO, AM1, PM3, PM6_SP; elements H..Cl present in each table; CPU float64",
]

METHODS = ["AM1", "PM3", "MNDO", "PM6_SP"]
RESULT_ATTRS = ["force", "Hf", "Etot", "Eelec", "Enuc", "Eiso", "e_mo", "e_gap", "dm", "q"]
AUX_ATTRS = ["dipole", "analytical_gradient", "cis_energies", "cis_amplitudes", "all_forces", "molecular_orbitals", "w"]
KSA = [3, {"max_rank": 2, "err_threshold": 0.0, "T_el": 1500}]
HYDRIDE = {3: "LiH", 4: "BeH2", 5: "BH3", 6: "CH4", 7: "NH3", 8: "H2O", 9: "HF", 11: "NaH", 12: "MgH2", 13: "AlH3",
           14: "SiH4", 15: "PH3", 16: "H2S", 17: "HCl"}  # fmt: skip
TORE = {1: 1, 3: 1, 4: 2, 5: 3, 6: 4, 7: 5, 8: 6, 9: 7, 11: 1, 12: 2, 13: 3, 14: 4, 15: 5, 16: 6, 17: 7}
R_ALL = [0.5, 0.6, 0.8, 1.0, 2.0, 5.0, 10.0, 30.0]
STRETCHED_CAP = 150


# ------------------------------------------------------------------ request -> execution


def _mol_from_spec(s, seed):
    """spec: {"name":..} | {"pair":[ZA,ZB],"R":..} | {"pair":[ZA,ZB],"scale":..}; optional charge, mult, swap"""
    if "name" in s:
        m = M.get(s["name"])
    else:
        za, zb = s["pair"]
        scale = s["scale"] if "scale" in s else s["R"] / (M.RCOV[za] + M.RCOV[zb])
        m = M.pair_molecule(za, zb, scale)
        m["name"] = f"{M.SYMBOL[za]}-{M.SYMBOL[zb]}"
    if s.get("orient"):
        # the typed-in layouts: first bond exactly on a Cartesian axis (+x is the builder's own layout)
        ax = {"x": np.eye(3), "y": M.rot_axis([0, 0, 1], np.pi / 2), "z": M.rot_axis([0, 1, 0], -np.pi / 2), "-z": M.rot_axis([0, 1, 0], np.pi / 2)}[s["orient"]]
        m = M.apply(m, np.round(ax))
    else:
        m = M.apply(m, M.generic_rot(seed))
    if "charge" in s:
        m["charge"] = s["charge"]
    if "mult" in s:
        m["mult"] = s["mult"]
    return m


def _build_batch(req):
    mols = [_mol_from_spec(s, req["seed"]) for s in req["mols"]]
    return mols


def _written(molecule, names):
    import torch

    if molecule is None:
        return []
    return [a for a in names if torch.is_tensor(getattr(molecule, a, None))]


def _exc_info(e):
    tb = traceback.extract_tb(e.__traceback__)[-1]
    return {"exc": type(e).__name__, "msg": str(e).replace("\n", " ")[:140], "where": f"{tb.filename.split('/')[-1]}:{tb.name}"}


def execute(req):
    """Molecule(...) + Electronic_Structure(...) + one call, observing exceptions and written attributes."""
    import torch
    from seqm.ElectronicStructure import Electronic_Structure
    from seqm.Molecule import Molecule
    from seqm.seqm_functions.constants import Constants
    import seqm.seqm_functions.scf_loop as SL

    if req.get("md") is not None:
        return execute_md(req)
    t0 = time.process_time()
    mols = _build_batch(req)
    params = sp.make_params(req["method"], req.get("solver", "adaptive"), req.get("eps", 1e-6), sp2=req.get("sp2"),
                            force_mode=req.get("force_mode", "autodiff"), uhf=req.get("uhf", False), **req.get("extra", {}))  # fmt: skip
    spc, xyz, ch, mu = M.batch(mols, pad_extra=int(req.get("pad_extra", 0)))
    for row, j in req.get("swaps", []):  # the sortedness fault: swap atoms j, j+1 of a row (species and coordinates together)
        spc[row, [j, j + 1]] = spc[row, [j + 1, j]]
        xyz[row, [j, j + 1]] = xyz[row, [j + 1, j]]
    molecule = None
    out = {"stage": "build"}
    try:
        kw = {}
        if np.any(ch != 0) or np.any(mu != 1) or params.get("UHF"):
            kw["charges"] = torch.as_tensor(ch, dtype=torch.int64)
            kw["mult"] = torch.as_tensor(mu, dtype=torch.int64)
        molecule = Molecule(Constants(), params, torch.as_tensor(xyz, dtype=torch.float64), torch.as_tensor(spc, dtype=torch.int64), **kw)
        es = Electronic_Structure(params)
        molecule.verbose = False
        if req.get("active_state") is not None:
            a = req["active_state"]
            molecule.active_state = torch.as_tensor(a, dtype=torch.int64) if isinstance(a, (list, tuple)) else a
        out["stage"] = "call"
        h = SR.CallHorizon(limit=20 * 1002, limits={"SP2": 3000})
        old_cap = SL.MAX_ITER
        SL.MAX_ITER = int(req.get("cap", old_cap))
        try:
            with contextlib.redirect_stdout(io.StringIO()):
                with h:
                    if req.get("energy_only"):
                        es(molecule, do_force=False)
                    else:
                        es(molecule)
        finally:
            SL.MAX_ITER = old_cap
        out["stage"] = "done"
    except SR.IterationHorizon as e:
        out.update(status="horizon", msg=str(e))
        return out
    except Exception as e:  # noqa: BLE001 - observing the package's rejections is the point
        out.update(status="raised", **_exc_info(e))
        out["written"] = _written(molecule, RESULT_ATTRS)
        out["aux_written"] = _written(molecule, AUX_ATTRS)
        out["t"] = time.process_time() - t0
        return out
    nc = sp.to_np(es.notconverged).astype(bool)
    nat = (spc > 0).sum(axis=1)
    fin = []
    for i in range(len(mols)):
        ok = True
        for a in ("Etot", "Hf", "Eelec", "force", "q", "e_mo"):
            v = getattr(molecule, a, None)
            if not torch.is_tensor(v):
                ok = False
                continue
            if v.shape[0] <= i:  # an energy-only call leaves an empty force tensor
                ok = ok and bool(req.get("energy_only")) and a == "force"
                continue
            ok = ok and bool(torch.isfinite(v[i]).all())
        fin.append(ok)
    out.update(status="ok", nc=nc.tolist(), finite=fin, etot=[float(x) for x in sp.to_np(molecule.Etot)],
               qsum=[float(sp.to_np(molecule.q)[i, : nat[i]].sum()) for i in range(len(mols))])  # fmt: skip
    ce = getattr(molecule, "cis_energies", None)
    if torch.is_tensor(ce):
        out["cis"] = [[float(x) for x in row] for row in sp.to_np(ce)]
    # consistency twins of a request outside the listed preconditions that was ACCEPTED: the same request with the
    # doubtful setting replaced by a valid one ("twin": the numbers must agree), and every molecule of the batch alone
    # ("alone": acceptance must not depend on the batch mates)
    if req.get("twin") is not None:
        t = {k: v for k, v in req.items() if k not in ("twin", "alone")}
        t["extra"] = dict(req.get("extra", {}), **req["twin"])
        out["twin"] = execute(t)
    if req.get("alone"):
        out["alone"] = [execute({k: v for k, v in dict(req, mols=[m]).items() if k not in ("twin", "alone")}) for m in req["mols"]]
    out["t"] = time.process_time() - t0
    return out


def execute_md(req):
    import torch

    t0 = time.process_time()
    mdq = req["md"]
    wd = MD.scratch_dir("c18")
    cwd = os.getcwd()
    os.chdir(wd)
    molecule = None
    out = {"stage": "build"}
    try:
        params = sp.make_params(req["method"], "adaptive", 1e-6)
        molecule, _ = sp.build(_build_batch(req), params)
        eng = MD.make_engine(mdq["engine"], params, 0.5, 300.0, MD.output_cfg("md", [0], xyz=1), k=3)
        out["stage"] = "call"
        mode = mdq["remove_com"]
        if isinstance(mode, list) and mdq.get("as_tuple", True):
            mode = tuple(mode)
        try:
            with contextlib.redirect_stdout(io.StringIO()):
                eng.run(molecule, steps=2, remove_com=mode, seed=0)
            out.update(status="ok", stage="done")
            fin = all(torch.is_tensor(getattr(molecule, a, None)) and bool(torch.isfinite(getattr(molecule, a)).all())
                      for a in ("Etot", "force", "q", "velocities"))  # fmt: skip
            out.update(nc=[False], finite=[bool(fin)], etot=[float(molecule.Etot[0])], qsum=[0.0])
        except Exception as e:  # noqa: BLE001
            out.update(status="raised", **_exc_info(e))
            out["written"] = _written(molecule, RESULT_ATTRS + ["velocities", "acc"])
            out["aux_written"] = []
        out["files"] = sorted(os.listdir(wd))
        out["t"] = time.process_time() - t0
        return out
    finally:
        os.chdir(cwd)
        MD.rm(wd)


# ------------------------------------------------------------------ occupation rule (the reference for the UHF lattice)


def occupation(names_or_species, charge, mult, uhf):
    """-> ('valid' | 'parity' | 'capacity', n_alpha, n_beta, norb)"""
    sp_ = names_or_species
    nval = sum(TORE[z] for z in sp_)
    norb = sum(4 if z > 1 else 1 for z in sp_)
    ne = nval - charge
    if not uhf:
        if ne % 2:
            return "parity", ne / 2, ne / 2, norb
        if ne <= 0 or ne // 2 > norb:
            return "capacity", ne // 2, ne // 2, norb
        return "valid", ne // 2, ne // 2, norb
    if (ne + mult - 1) % 2:
        return "parity", (ne + mult - 1) / 2, (ne - mult + 1) / 2, norb
    na, nb = (ne + mult - 1) // 2, (ne - mult + 1) // 2
    if nb < 0 or na > norb or ne <= 0:
        return "capacity", na, nb, norb
    return "valid", na, nb, norb


# ------------------------------------------------------------------ lattices


def _req(family, expect, method, mols, seed, fault="", **kw):
    r = dict(family=family, expect=expect, method=method, mols=mols, seed=int(seed), fault=fault)
    r.update(kw)
    return r


def negative_lattice(tier, seed):
    quick = tier == "quick"
    methods = ["AM1", "PM3"] if quick else METHODS
    reqs = []
    for meth in methods:
        # --- F1 sortedness: every adjacent transposition that unsorts a row, any row of a padded batch
        for base in ([["CH3OH", "H2CO", "H2O"], ["H2CO"]] if quick else [["CH3OH", "H2CO", "H2O"], ["H2CO"], ["HCN", "CH3F"], ["H2O", "H2O"]]):
            mols = [{"name": n} for n in base]
            reqs.append(_req("sorted", "accept", meth, mols, seed, fault="none(base)"))
            width = max(len(M.MOLS[n]["species"]) for n in base)
            for row, n in enumerate(base):
                spc = list(M.MOLS[n]["species"]) + [0] * (width - len(M.MOLS[n]["species"]))
                for j in range(width - 1):
                    if spc[j] > spc[j + 1]:
                        reqs.append(_req("sorted", "raise", meth, mols, seed, fault=f"swap row{row} {spc[j]}<->{spc[j + 1]} at {j}",
                                         swaps=[[row, j]], fault_row=row, swap_with_padding=spc[j + 1] == 0))  # fmt: skip
        # --- F1' the same in over-padded arrays (every molecule shorter than the array: the widest row has padding too), where a
        # swap with the first padding slot puts a real atom BEHIND the columns any molecule of the batch fills
        for base in [["H2O"], ["H2O", "HF"]] if quick else [["H2O"], ["H2O", "HF"], ["H2CO"], ["HF", "NH3"]]:
            mols = [{"name": n} for n in base]
            for extra in (1, 2):
                reqs.append(_req("sorted", "accept", meth, mols, seed, fault=f"none(base,pad+{extra})", pad_extra=extra))
                width = max(len(M.MOLS[n]["species"]) for n in base) + extra
                for row, n in enumerate(base):
                    spc = list(M.MOLS[n]["species"]) + [0] * (width - len(M.MOLS[n]["species"]))
                    for j in range(width - 1):
                        if spc[j] > spc[j + 1]:
                            reqs.append(_req("sorted", "raise", meth, mols, seed, fault=f"swap row{row} {spc[j]}<->{spc[j + 1]} at {j} (pad+{extra})",
                                             swaps=[[row, j]], fault_row=row, swap_with_padding=spc[j + 1] == 0, pad_extra=extra))  # fmt: skip
        # --- F2 odd electron count under RHF, any row
        for n in ["H2O", "CH4", "H2CO", "NH3", "HF", "OH-", "NH4+"] if not quick else ["H2O", "H2CO", "OH-", "NH4+"]:
            c0 = M.MOLS[n]["charge"]
            for c in range(-3, 4):
                kind = occupation(M.MOLS[n]["species"], c, 1, False)[0]
                expect = {"valid": "finite", "parity": "raise", "capacity": "raise"}[kind]
                if kind == "valid" and c != c0:
                    expect = "finite"
                reqs.append(_req("odd_rhf", expect, meth, [{"name": n, "charge": c}], seed, fault=f"{kind}:charge={c}", charge=c, occ=kind))
                if kind == "parity":
                    for pos in (0, 1):
                        ms = [{"name": "CH4"}, {"name": n, "charge": c}]
                        reqs.append(_req("odd_rhf", "raise", meth, ms if pos else ms[::-1], seed, fault=f"parity:charge={c} row{pos}",
                                         charge=c, occ=kind, fault_row=pos))  # fmt: skip
        # --- F3 UHF (charge, mult) lattice
        for n in ["HF", "BeH2", "H2O", "CH3"]:
            if any(z not in M.ELEMENTS[meth] for z in M.MOLS[n]["species"]):
                continue
            for c in range(-2, 3):
                for mu in range(1, 6):
                    kind, na, nb, norb = occupation(M.MOLS[n]["species"], c, mu, True)
                    expect = "finite" if kind == "valid" else "raise"
                    reqs.append(_req("uhf_occ", expect, meth, [{"name": n, "charge": c, "mult": mu}], seed, uhf=True,
                                     fault=f"{kind}:charge={c},mult={mu}", charge=c, mult=mu, occ=kind, n_alpha=na, n_beta=nb, norb=norb))  # fmt: skip
        # --- F4 UHF x unsupported options
        for n in ["H2O", "CH3"]:
            mols = [{"name": n}]
            reqs.append(_req("uhf_unsupported", "finite", meth, mols, seed, uhf=True, fault="none(base)"))
            opts = {
                "pulay": dict(solver="pulay"),
                "ksa": dict(extra={"scf_converger": KSA}),
                "sp2": dict(sp2=1e-5),
                "cis": dict(extra={"excited_states": {"n_states": 2, "method": "cis"}}),
                "rpa": dict(extra={"excited_states": {"n_states": 2, "method": "rpa"}}),
            }
            for name, kw in opts.items():
                reqs.append(_req("uhf_unsupported", "raise", meth, mols, seed, uhf=True, fault=f"UHF+{name}", option=name, **kw))
        # --- F5 heterogeneous batch x homogeneous-only features
        feats = {
            "rpa": dict(extra={"excited_states": {"n_states": 2, "method": "rpa"}}),
            "excited_analytical_gradient": dict(extra={"excited_states": {"n_states": 2, "method": "cis"}}, force_mode="analytical", active_state=1),
            "all_forces": dict(extra={"excited_states": {"n_states": 2, "method": "cis"}, "do_all_forces": True}, force_mode="analytical"),
        }
        for name, kw in feats.items():
            reqs.append(_req("mixed_batch", "finite", meth, [{"name": "H2O"}, {"name": "H2O"}], seed, fault=f"none(base for {name})", option=name, eps=1e-8, **kw))
            for het in ([["H2O", "NH3"], ["H2CO", "CH4"]] if not quick else [["H2O", "NH3"]]):
                reqs.append(_req("mixed_batch", "raise", meth, [{"name": x} for x in het], seed, fault=f"hetero+{name}", option=name, eps=1e-8, **kw))
        # --- F6 active state without excited-state settings
        for st in (1, 2):
            for fm in ("autodiff", "analytical"):
                for b in (["H2O"], ["H2O", "NH3"]):
                    reqs.append(_req("active_state", "raise", meth, [{"name": x} for x in b], seed, fault=f"active_state={st},{fm}", active_state=st, force_mode=fm))
        # the request can also arrive as a per-molecule tensor that mixes ground and excited molecules, and through
        # the energy-only path; every way of asking must be refused
        for b in (["H2O", "H2O"], ["H2O", "NH3"]):
            for a in ([0, 1], [1, 0], [2, 1]):
                reqs.append(_req("active_state", "raise", meth, [{"name": x} for x in b], seed, fault=f"active_state={a},tensor", active_state=a))
        for a in (1, [0, 1]):
            reqs.append(_req("active_state", "raise", meth, [{"name": "H2O"}, {"name": "H2O"}], seed, fault=f"active_state={a},energy_only", active_state=a, energy_only=True))
        reqs.append(_req("active_state", "finite", meth, [{"name": "H2O"}], seed, fault="none(base)", active_state=0))
    # --- UHF + PM6 (d-orbital method: only this guard is exercised)
    reqs.append(_req("uhf_unsupported", "raise", "PM6", [{"name": "H2O"}], seed, uhf=True, fault="UHF+PM6", option="PM6"))
    reqs.append(_req("uhf_unsupported", "finite", "PM6", [{"name": "H2O"}], seed, fault="none(base)", option="PM6"))
    # --- F7 remove_com modes through MD.run
    bad_modes = ["rotational", "xyz", 3, False, True, 0, ["rotational", 1], ["xyz", 1], ["com", 5], [None, 1], ["", 1], ["linear"],
                 ["linear", 1, 2], "ab"]  # fmt: skip
    good_modes = [None, ["linear", 1], ["angular", 1], ["LINEAR ", 2], ["Angular", 3]]
    engines = ["bomd"] if quick else ["bomd", "langevin", "xl"]
    for eng in engines:
        for mode in bad_modes:
            reqs.append(_req("remove_com", "raise", "AM1", [{"name": "H2O"}], seed, fault=f"remove_com={mode!r}", md={"engine": eng, "remove_com": mode}))
        for mode in good_modes:
            reqs.append(_req("remove_com", "finite", "AM1", [{"name": "H2O"}], seed, fault=f"none(valid mode {mode!r})", md={"engine": eng, "remove_com": mode}))
        for mode in (["linear", 0], ["linear", "a"]):
            reqs.append(_req("unlisted", "record", "AM1", [{"name": "H2O"}], seed, fault=f"remove_com stride {mode[1]!r}", md={"engine": eng, "remove_com": mode}))
    # --- unlisted preconditions: executed and recorded
    un = [
        ("n_states>nov", dict(mols=[{"name": "H2O"}], extra={"excited_states": {"n_states": 50, "method": "cis"}})),
        ("unknown converger id", dict(mols=[{"name": "H2O"}], extra={"scf_converger": [7]})),
        ("missing n_states", dict(mols=[{"name": "H2O"}], extra={"excited_states": {"method": "cis"}})),
        ("element absent from table", dict(mols=[{"name": "LiH"}])),
        ("negative sp2 tolerance", dict(mols=[{"name": "H2O"}], sp2=-1.0)),
        ("scf_eps = 0", dict(mols=[{"name": "H2O"}], eps=0.0)),
    ]
    for name, kw in un:
        reqs.append(_req("unlisted", "record", "AM1", kw.pop("mols"), seed, fault=name, **kw))
    # unlisted settings that may be accepted, but then have to mean something: converger ids outside {0,1,2,3} against the
    # default solver, and a number of excited states that only SOME members of a mixed batch can deliver
    for cid in ([4], [7], [12], [-1]):
        for sb in (0, 1):
            reqs.append(_req("unlisted", "record", "AM1", [{"name": "H2O"}, {"name": "NH3"}], seed, fault=f"converger id {cid} scf_backward={sb}",
                             extra={"scf_converger": cid, "scf_backward": sb}, twin={"scf_converger": [1]}, eps=1e-8))  # fmt: skip
    # identical species rows with different charges (different numbers of occupied orbitals) in the homogeneous excited-state path
    for charges in ([0, 0, 2], [2, 0, 0], [0, 2], [-2, 0]):
        for meth in ("cis", "rpa"):
            reqs.append(_req("unlisted", "record", "AM1", [{"name": "H2CO", "charge": c, "mult": 1} for c in charges], seed,
                             fault=f"{meth} on identical species with charges {charges}", extra={"excited_states": {"n_states": 2, "method": meth}},
                             alone=True, energy_only=True))  # fmt: skip
    for batch in (["CH4", "HF"], ["HF", "CH4"], ["H2CO", "LiH"] if False else ["H2CO", "HF"], ["HF", "H2O", "CH4"]):
        for n in (5, 8, 16):
            reqs.append(_req("unlisted", "record", "AM1", [{"name": b} for b in batch], seed, fault=f"n_states={n} in a mixed batch with HF (4 single excitations)",
                             extra={"excited_states": {"n_states": n, "method": "cis"}}, alone=True, energy_only=True))  # fmt: skip
    reqs.append(_req("unlisted", "record", "XYZ", [{"name": "H2O"}], seed, fault="unknown method"))
    return reqs


def positive_lattice(tier, seed):
    quick = tier == "quick"
    reqs = []
    Rs = [0.5, 1.0, 5.0, 30.0] if quick else R_ALL
    for meth in METHODS:
        el = M.ELEMENTS[meth]
        for i, za in enumerate(el):
            for zb in el[i:]:
                if za == 1 and zb == 1:
                    continue
                a, b = max(za, zb), min(za, zb)
                reqs.append(_req("pair_eq", "accept", meth, [{"pair": [a, b], "scale": 1.0}], seed, fault="", za=a, zb=b, R=round(M.RCOV[a] + M.RCOV[b], 3)))
                for R in Rs:
                    # restricted SCF of a dissociated bond does not converge with any solver (measured: 72-76 of 77 AM1 pairs
                    # at 10 and 30 A are flagged after 1000 passes, 4.5 s each); the flag is what is observed there, so the
                    # harness answers a smaller iteration cap for the stretched geometries
                    kw = {"cap": STRETCHED_CAP} if R >= 5.0 else {}
                    reqs.append(_req("pair", "finite", meth, [{"pair": [a, b], "R": R}], seed, fault="", za=a, zb=b, R=R, **kw))
        for z in el:
            if z == 1:
                continue
            n = HYDRIDE[z]
            # axis-aligned layouts (exact zeros in the pair vector are where 0/0 branches of the frame code live)
            for o in ("x", "y", "z", "-z"):
                reqs.append(_req("axis", "finite", meth, [{"name": n, "orient": o}], seed, fault="", za=z, orient=o))
            for c in (-2, -1, 1, 2):
                odd = (sum(TORE[s] for s in M.MOLS[n]["species"]) - c) % 2 == 1
                kind = occupation(M.MOLS[n]["species"], c, 2 if odd else 1, odd)[0]
                if kind != "valid":
                    reqs.append(_req("ion", "raise", meth, [{"name": n, "charge": c, "mult": 2 if odd else 1}], seed, uhf=odd,
                                     fault=f"{kind}:charge={c}", za=z, charge=c, occ=kind))  # fmt: skip
                else:
                    reqs.append(_req("ion", "finite", meth, [{"name": n, "charge": c, "mult": 2 if odd else 1}], seed, uhf=odd, fault="", za=z, charge=c))
    # the d-orbital Hamiltonian has its own frame code: diatomics and hydrides on every axis
    for za, zb in ((17, 1), (16, 1), (17, 17), (16, 8), (17, 6), (8, 1), (6, 1)):
        for o in ("x", "y", "z", "-z", None):
            for sc in (1.0, 1.3):
                spec = {"pair": [za, zb], "scale": sc}
                if o:
                    spec["orient"] = o
                reqs.append(_req("axis_pm6", "finite", "PM6", [spec], seed, fault="", za=za, zb=zb, orient=o or "generic", R=round(sc * (M.RCOV[za] + M.RCOV[zb]), 3)))
    return reqs


# ------------------------------------------------------------------ oracle


def _key(r):
    ms = "+".join(
        (s.get("name") or f"{s['pair'][0]}-{s['pair'][1]}@{s.get('R', s.get('scale'))}") + (f"[q{s['charge']}]" if "charge" in s else "")
        + (f"[m{s['mult']}]" if "mult" in s else "") + (f"[on {s['orient']}]" if s.get("orient") else "") for s in r["mols"]
    )  # fmt: skip
    md = f"|md:{r['md']['engine']}" if r.get("md") else ""
    return f"{r['family']}|{r['method']}|{ms}|{'uhf' if r.get('uhf') else 'rhf'}|{r['fault']}{md}"


def _desc(r, kind, out):
    d = {
        "kind": kind, "family": r["family"], "method": r["method"], "expect": r["expect"], "fault": r["fault"], "uhf": bool(r.get("uhf")),
        "nmol": len(r["mols"]), "mols": "+".join(s.get("name") or f"{s['pair'][0]}-{s['pair'][1]}" for s in r["mols"]),
    }  # fmt: skip
    for k in ("occ", "charge", "mult", "n_alpha", "n_beta", "norb", "option", "za", "zb", "R", "fault_row", "swap_with_padding"):
        if k in r:
            d[k] = r[k]
    if r.get("md"):
        d["engine"] = r["md"]["engine"]
    for k in ("exc", "where", "stage", "status"):
        if k in out:
            d[k] = out[k]
    return d


def evaluate(chk, r, out, stats):
    k = _key(r)
    if is_timeout(out):
        chk.case(k, outcome="wallclock")
        chk.violation(_desc(r, "wallclock", {}), f"{k}: killed by the wall-clock backstop", replay=r)
        return
    if is_error(out):
        chk.harness_error(f"{k}: {out['__error__']}")
        return
    stats["t"] += out.get("t", 0.0)
    st = out["status"]
    if st == "horizon":
        chk.case(k, outcome="horizon")
        chk.violation(_desc(r, "horizon", out), f"{k}: does not terminate: {out['msg']}", replay=r)
        return
    expect = r["expect"]
    if st == "raised":
        sig = (out["exc"], out["where"])
        stats["exceptions"][f"{out['exc']} @ {out['where']}"] = stats["exceptions"].get(f"{out['exc']} @ {out['where']}", 0) + 1
        late = bool(out["written"]) or bool(out.get("files"))
        if out.get("aux_written"):
            stats["aux_written_before_raise"] += 1
        if expect == "raise":
            chk.case(k, nontrivial=True, outcome=("rejected",) + sig + (late,))
            chk.rejected += 1
            if late:
                chk.violation(_desc(r, "raised_after_results", out), f"{k}: rejected only after results were written: {out['written']} files={out.get('files')}", replay=r)
        elif expect == "accept":
            chk.case(k, nontrivial=True, outcome=("valid_raised",) + sig)
            chk.violation(_desc(r, "valid_raised", out), f"{k}: ordinary valid request raised {out['exc']}: {out['msg']} [{out['where']}]", replay=r)
        elif expect == "finite":
            # loud refusal of a valid but extreme request: accepted by the statement, recorded
            chk.case(k, nontrivial=True, outcome=("valid_refused",) + sig)
            chk.rejected += 1
            stats["valid_refused"].append(f"{k}: {out['exc']} @ {out['where']}")
        else:
            chk.case(k, nontrivial=False, outcome=("recorded_raise",) + sig)
        return
    # returned
    unflagged = [i for i, (f, nc) in enumerate(zip(out["finite"], out["nc"])) if not f and not nc]
    flagged = sum(1 for nc in out["nc"] if nc)
    chk.excluded += flagged
    stats["flagged_notconverged"] += flagged
    if expect == "raise":
        chk.case(k, nontrivial=True, outcome=("accepted_invalid", tuple(out["finite"])))
        chk.violation(
            _desc(r, "accepted_invalid", out),
            f"{k}: invalid request was accepted silently (Etot={out['etot']}, sum q={[round(x, 6) for x in out['qsum']]})", replay=r,
        )  # fmt: skip
        return
    chk.case(k, nontrivial=expect != "record" or "twin" in out or "alone" in out, outcome=("returned", tuple(out["finite"]), tuple(out["nc"])))
    tw = out.get("twin")
    if tw is not None and tw.get("status") == "ok":
        for i, (a, b) in enumerate(zip(out["etot"], tw["etot"])):
            if not out["nc"][i] and not tw["nc"][i] and not abs(a - b) <= 1e-5:
                chk.violation(_desc(r, "accepted_unlisted_differs_from_valid_twin", out),
                              f"{k}: the request was accepted and molecule {i} is reported converged with Etot = {a:.6f} eV, the same request with a valid setting gives {b:.6f} eV", replay=r)  # fmt: skip
                break
    al = out.get("alone")
    if al is not None:
        rej = [i for i, o in enumerate(al) if o.get("status") == "raised"]
        if rej:
            chk.violation(_desc(r, "accepted_in_batch_rejected_alone", out),
                          f"{k}: the batch request was accepted although molecules {rej} alone are refused with it ({al[rej[0]].get('msg')})", replay=r)  # fmt: skip
        else:
            # accepted both ways: what the batch reports for a molecule is what the molecule reports alone
            for i, o in enumerate(al):
                if o.get("status") != "ok" or out["nc"][i] or o["nc"][0]:
                    continue
                bad = not abs(out["etot"][i] - o["etot"][0]) <= 1e-5
                if not bad and out.get("cis") and o.get("cis"):
                    a_, b_ = out["cis"][i], o["cis"][0]
                    m_ = min(len(a_), len(b_))
                    bad = any(not abs(x - y) <= 1e-4 for x, y in zip(a_[:m_], b_[:m_]))
                if bad:
                    chk.violation(_desc(r, "accepted_in_batch_differs_from_alone", out),
                                  f"{k}: molecule {i} in the accepted batch: Etot {out['etot'][i]:.6f} eV, excitation energies {out.get('cis', [None] * (i + 1))[i]}; alone: {o['etot'][0]:.6f} eV, {o.get('cis', [None])[0]}", replay=r)  # fmt: skip
                    break
    if unflagged:
        chk.violation(_desc(r, "nonfinite_unflagged", out), f"{k}: molecules {unflagged} have non-finite results without a notconverged flag", replay=r)


# ------------------------------------------------------------------ refusals must not depend on what the driver served before


def t_history_refusal(item):
    """A request that a NEW driver refuses (heterogeneous batch for a method that needs a homogeneous one) handed to a
    driver that served a homogeneous batch of the same shape before - in a single point, or as the driver of an MD run
    (`md.esdriver`).  Differential oracle: what the new driver refuses the used driver must refuse; what both accept must
    agree (a used driver refusing loudly what a new one accepts is counted, not reported)."""
    import copy as _copy

    import torch

    from ..drivers import md as MD

    method, prior, exc, force, seed = item
    base = dict(sp.make_params(method, "adaptive", 1e-8), elements=[0, 1, 6, 7], excited_states={"n_states": 2, "method": exc, "tolerance": 1e-6})
    R = M.generic_rot(seed)
    ch4 = M.apply(M.get("CH4"), R)
    ch4b = dict(ch4)
    ch4b["coords"] = ch4["coords"] * 1.02 + 0.03 * np.sin(1.0 + np.arange(ch4["coords"].size)).reshape(ch4["coords"].shape)
    nh4 = M.apply(M.get("NH4+"), R)
    homo, hetero = [ch4, ch4b], [ch4, nh4]

    def outcome(es, molecule):
        molecule.verbose = False
        molecule.active_state = 1
        try:
            es(molecule, **({} if force else {"do_force": False}))
        except Exception as e:  # noqa: BLE001
            return {"status": "raised", "exc": type(e).__name__}
        ce = getattr(molecule, "cis_energies", None)
        return {"status": "returned", "cis": sp.to_np(ce) if torch.is_tensor(ce) else None}

    p1 = _copy.deepcopy(base)
    m1, es1 = sp.build(hetero, p1)
    fresh = outcome(es1, m1)
    p2 = _copy.deepcopy(base)
    if prior == "sp":
        m0, es = sp.build(homo, p2)
        first = outcome(es, m0)
    else:
        r = MD.run_md("bomd", homo, p2, 2, dt=0.2, temp=50.0, seed=1, active_state=1, copy_params=False,
                      out=dict(data=0, coordinates=0, velocities=0, forces=0, xyz=0, print_every=0, checkpoint_every=0))  # fmt: skip
        first = {"status": "raised", "exc": r["error"]} if r["error"] else {"status": "returned"}
        es = r["engine"].esdriver if r.get("engine") is not None else None
    if first["status"] != "returned" or es is None:
        return {"excluded": f"the homogeneous {prior} call itself was refused: {first}"}
    m2, _ = sp.build(hetero, p2, es=es)
    used = outcome(es, m2)
    return {"fresh": fresh, "used": used}


def history_refusals(chk, tier, seed):
    items = []
    for method in ["AM1"] if tier == "quick" else ["AM1", "PM3", "MNDO"]:
        for prior in ("sp", "md"):
            for exc, force in (("rpa", False), ("rpa", True), ("cis", True), ("cis", False)):
                items.append((method, prior, exc, force, seed))
    res = pmap(t_history_refusal, items, chunk=1, timeout=900, progress="C18 refusals after a history")
    for it, r in zip(items, res):
        key = f"history|{it[0]}|prior={it[1]}|{it[2]}|{'F' if it[3] else 'E'}"
        desc = {"family": "history", "method": it[0], "prior": it[1], "excited": it[2], "force": bool(it[3])}
        if is_timeout(r) or is_error(r):
            chk.violation(desc, f"{key}: {str(r)[:300]}", replay={"history": list(it)})
            continue
        if "excluded" in r:
            chk.rejected += 1
            chk.case(key, nontrivial=False, outcome="prior refused")
            continue
        f, u = r["fresh"], r["used"]
        chk.case(key, nontrivial=True, outcome=f"{f['status']}|{u['status']}")
        if f["status"] == "returned" and u["status"] == "raised":
            # the statement only demands that what must be refused IS refused; a driver that went through an MD run (which
            # switches its settings to analytical excited-state gradients) refusing a request a new driver accepts is loud
            chk.rejected += 1
        elif f["status"] != u["status"]:
            chk.violation(desc, f"{key}: a new driver {f['status']} ({f.get('exc')}) the heterogeneous request, the driver that served a homogeneous batch before {u['status']} ({u.get('exc')}) it", replay={"history": list(it)})
        elif f["status"] == "returned" and f.get("cis") is not None and u.get("cis") is not None:
            d = float(np.nanmax(np.abs(np.asarray(f["cis"])[:, :2] - np.asarray(u["cis"])[:, :2])))  # the two requested states
            if not d <= 1e-5:
                chk.violation(desc, f"{key}: excitation energies of the heterogeneous batch differ by {d:.2e} eV between a new driver and the used one", replay={"history": list(it)})


def run(chk, tier, seed):
    import vp

    vp.warm()
    neg = negative_lattice(tier, seed)
    pos = positive_lattice(tier, seed)
    reqs = neg + pos
    chk.planned = len(reqs)
    two = pmap(execute, [pos[5], pos[5]], chunk=1, timeout=300)
    if any(is_error(x) or is_timeout(x) for x in two) or two[0].get("etot") != two[1].get("etot"):
        chk.harness_error(f"same request in two processes disagrees: {str(two)[:300]}")
        return
    outs = pmap(execute, reqs, chunk=10, timeout=600, progress=f"C18 {tier}")
    stats = dict(t=0.0, exceptions={}, valid_refused=[], flagged_notconverged=0, aux_written_before_raise=0)
    for r, o in zip(reqs, outs):
        evaluate(chk, r, o, stats)
    fam = {}
    for r in reqs:
        fam[f"{r['family']}:{r['expect']}"] = fam.get(f"{r['family']}:{r['expect']}", 0) + 1
    chk.extra["requests_per_family_and_expectation"] = fam
    chk.extra["exception_signatures"] = stats["exceptions"]
    chk.extra["valid_requests_refused_loudly"] = stats["valid_refused"][:40]
    chk.extra["valid_requests_refused_loudly_count"] = len(stats["valid_refused"])
    chk.extra["molecules_flagged_notconverged"] = stats["flagged_notconverged"]
    chk.extra["rejections_after_auxiliary_attributes_written"] = stats["aux_written_before_raise"]
    chk.extra["cpu_s_in_calls"] = round(stats["t"], 1)
    history_refusals(chk, tier, seed)


def replay(payload):
    r = payload["replay"]
    if "history" in r:
        o = t_history_refusal(tuple(r["history"]))
        print("  ", o)
        return "excluded" in o or o["fresh"]["status"] == o["used"]["status"] or o["used"]["status"] == "raised"
    out = execute(r)
    print("  ", {k: v for k, v in out.items() if k not in ("t",)})
    st = out["status"]
    if st == "horizon":
        return False
    if st == "raised":
        if r["expect"] == "raise":
            return not (out["written"] or out.get("files"))
        return r["expect"] in ("finite", "record")
    if r["expect"] == "raise":
        return False
    return not [i for i, (f, nc) in enumerate(zip(out["finite"], out["nc"])) if not f and not nc]
