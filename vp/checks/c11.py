"""C11  Each output stream is written at exactly its own requested cadence.

Explorer: exhaustive product lattice of cadence tuples x run lengths x molid subsets x engines
x {fresh, soft-crashed-after-checkpoint-and-resumed}, executed through the REAL run() loop and
the REAL HDF5/XYZ writers.  The electronic structure is a record/replay driver (one real
trajectory recorded with all cadences 1, replayed bitwise), validated against the real driver
on a sub-lattice (conformance).  Oracle: vp.oracles.cadence_model.
"""
import hashlib
import itertools

import numpy as np

from ..drivers import md as MD
from ..drivers import molecules as M
from ..drivers import sp
from ..oracles import cadence_model as CM
from ..pool import is_error, is_timeout, pmap

PID = "C11"
LEVEL = "model_checking"
RULE = (
    "every cadence tuple (data, coordinates, velocities, forces, xyz, print, checkpoint) of the stated finite "
    "alphabet x run length x molid subset x engine x {fresh, resumed after each checkpoint}; one execution of "
    "the real MD run loop + real writers per tuple (replayed electronic structure), plus real-driver runs on a "
    "sub-lattice; a case is non-trivial when at least one stream is enabled; distinct = distinct tuple"
)
ASSUMPTIONS = [
    "writer/step-loop logic does not depend on the physics: electronic-structure results are replayed bitwise "
    "from one recorded real trajectory per engine; the replay is itself compared with the real driver on a "
    "sub-lattice (conformance) in every run",
    "CPU, float64, single process",
    "the nonadiabatic stream is explored in the surface-hopping section with the repository's analytic model driver",
]

BATCH = ["CH4", "H2O", "HF"]
NSTEPS_TAPE = 8
_TAPES = {}
_REFS = {}


def _engine_params(engine):
    p = sp.make_params("AM1", eps=1e-7)
    kw = {}
    eng = engine
    if engine == "xl":
        kw["k"] = 3
    if engine == "ksa":
        kw["k"] = 4
    if engine == "excited":
        eng = "bomd"
        p["excited_states"] = {"n_states": 2, "method": "cis"}
        p["active_state"] = 1
    return eng, p, kw


def _mols(engine):
    if engine == "excited":
        # excited-state batches need identical species: three distorted formaldehydes
        out = []
        for d in (0.0, 0.03, -0.02):
            m = M.get("H2CO")
            m["coords"][1, 0] += d
            out.append(m)
        return out
    return [M.get(n) for n in BATCH]


def _prepare(engine):
    eng, p, kw = _engine_params(engine)
    res, tape = MD.record_run(eng, _mols(engine), p, NSTEPS_TAPE, out=dict(xyz=1, print_every=1, molid=[0, 1, 2]), **kw)
    if res["error"]:
        raise RuntimeError(f"recording run failed: {res['error']}")
    _TAPES[engine] = tape
    _REFS[engine] = res


def _cmp(a, b):
    a = np.asarray(a)
    b = np.asarray(b)
    return a.shape == b.shape and np.array_equal(a, b, equal_nan=True)


def compare(res, cad, steps, molid, ref, nmol=3, stdout=None):
    """conformance of one run's outputs with the cadence model and the cadence-1 reference."""
    prob = []
    exp = CM.expected_streams(cad, steps)
    if int(cad.get("nonadiabatic", 0)) > 0:
        exp["h5_file"] = True
    for mol in range(nmol):
        h5 = res.get(f"h5.{mol}")
        xyz = res.get(f"xyz.{mol}")
        if mol not in molid:
            if h5 is not None or xyz is not None:
                prob.append(f"mol {mol} not requested but files written")
            continue
        r5 = ref[f"h5.{mol}"]
        if not exp["h5_file"]:
            if h5 is not None:
                prob.append(f"mol {mol}: all h5 cadences 0 but an h5 file exists")
        elif h5 is None:
            prob.append(f"mol {mol}: h5 file missing")
        else:
            # vectors
            for name in CM.H5_VECTORS:
                lab = exp[name]
                has = f"{name}/steps" in h5
                if lab is None:
                    if has or any(k.startswith(name + "/") for k in h5):
                        prob.append(f"mol {mol}: stream {name} has cadence 0 but group exists")
                    continue
                if not has:
                    prob.append(f"mol {mol}: stream {name} missing")
                    continue
                got = h5[f"{name}/steps"].tolist()
                if got != lab:
                    prob.append(f"mol {mol}: {name}/steps = {got} expected {lab}")
                    continue
                vals = h5[f"{name}/values"]
                if vals.shape[0] != len(lab):
                    prob.append(f"mol {mol}: {name}/values has {vals.shape[0]} rows, expected {len(lab)}")
                    continue
                for i, s in enumerate(lab):
                    if not _cmp(vals[i], r5[f"{name}/values"][s]):
                        prob.append(f"mol {mol}: {name}/values row {i} (step {s}) differs from the state at that step")
                        break
            # data
            lab = exp["data"]
            dkeys = [k for k in h5 if k.startswith("data/") and not k.startswith("data/nonadiabatic/")]
            # nonadiabatic stream (surface hopping only)
            if "nonadiabatic" in cad:
                lab_na = CM.labels(int(cad["nonadiabatic"]), steps)
                nkeys = [k for k in h5 if k.startswith("data/nonadiabatic/")]
                if lab_na is None:
                    if nkeys:
                        prob.append(f"mol {mol}: nonadiabatic cadence 0 but group exists")
                elif "data/nonadiabatic/steps" not in h5:
                    prob.append(f"mol {mol}: /data/nonadiabatic missing")
                else:
                    got = h5["data/nonadiabatic/steps"].tolist()
                    if got != lab_na:
                        prob.append(f"mol {mol}: data/nonadiabatic/steps = {got} expected {lab_na}")
                    else:
                        for k in r5:
                            if not k.startswith("data/nonadiabatic/") or k.endswith("/steps"):
                                continue
                            if k not in h5 or h5[k].shape[0] != len(lab_na):
                                prob.append(f"mol {mol}: {k} missing or wrong length")
                                continue
                            for i, s_ in enumerate(lab_na):
                                if not _cmp(h5[k][i], r5[k][s_]):
                                    prob.append(f"mol {mol}: {k} row {i} (step {s_}) differs from the state at that step")
                                    break
            if lab is None:
                if dkeys:
                    prob.append(f"mol {mol}: data cadence 0 but /data exists: {dkeys[:3]}")
            else:
                if "data/steps" not in h5:
                    prob.append(f"mol {mol}: /data missing")
                else:
                    got = h5["data/steps"].tolist()
                    if got != lab:
                        prob.append(f"mol {mol}: data/steps = {got} expected {lab}")
                    else:
                        for k in r5:
                            if not k.startswith("data/") or k == "data/steps" or k.startswith("data/nonadiabatic/"):
                                continue
                            if k not in h5:
                                prob.append(f"mol {mol}: dataset {k} missing")
                                continue
                            if r5[k].ndim == 0 or r5[k].shape[0] != r5["data/steps"].shape[0]:
                                if not _cmp(h5[k], r5[k]):
                                    prob.append(f"mol {mol}: {k} differs")
                                continue
                            if h5[k].shape[0] != len(lab):
                                prob.append(f"mol {mol}: {k} has {h5[k].shape[0]} rows expected {len(lab)}")
                                continue
                            for i, s in enumerate(lab):
                                if not _cmp(h5[k][i], r5[k][s]):
                                    prob.append(f"mol {mol}: {k} row {i} (step {s}) differs from the state at that step")
                                    break
            for k in h5:
                if k not in r5:
                    prob.append(f"mol {mol}: unexpected dataset {k}")
            if "nonadiabatic" in cad:
                exp["h5_file"] = exp["h5_file"] or int(cad["nonadiabatic"]) > 0
            if "atoms" in h5 and not _cmp(h5["atoms"], r5["atoms"]):
                prob.append(f"mol {mol}: /atoms differs")
        # xyz
        lab = exp["xyz"]
        if lab is None:
            if xyz is not None:
                prob.append(f"mol {mol}: xyz cadence 0 but file exists")
        elif xyz is None:
            prob.append(f"mol {mol}: xyz file missing")
        else:
            got = [f[0] for f in xyz]
            if got != lab:
                prob.append(f"mol {mol}: xyz frame labels {got} expected {lab}")
            else:
                rx = {f[0]: f for f in ref[f"xyz.{mol}"]}
                for f in xyz:
                    if f[1:] != rx[f[0]][1:]:
                        prob.append(f"mol {mol}: xyz frame {f[0]} content differs from the state at that step")
                        break
    if stdout is not None and molid:
        got = MD.screen_steps(stdout)
        lab = exp["print"] or []
        if got != lab:
            prob.append(f"screen log steps {got} expected {lab}")
    return prob


def _sig(res, molid):
    h = hashlib.sha1()
    for mol in molid:
        h5 = res.get(f"h5.{mol}") or {}
        for k in sorted(h5):
            if k.endswith("steps"):
                h.update(k.encode() + bytes(str(h5[k].tolist()), "ascii"))
        x = res.get(f"xyz.{mol}")
        h.update(str([f[0] for f in x] if x else None).encode())
    return h.hexdigest()[:10]


def run_case(case, real=False):
    engine, steps, cad, molid, resume_at = case["engine"], case["steps"], case["cad"], case["molid"], case["resume_at"]
    eng, p, kw = _engine_params(engine)
    out = dict(
        data=cad["data"], coordinates=cad["coordinates"], velocities=cad["velocities"], forces=cad["forces"],
        xyz=cad["xyz"], print_every=cad["print"], checkpoint_every=cad["checkpoint"], molid=molid,
    )  # fmt: skip
    ref = _REFS[engine]
    wd = MD.scratch_dir("c11")
    try:
        if real:
            hook = MD.crash_after_checkpoint_hook(resume_at) if resume_at else None
            r = MD.run_md(eng, _mols(engine), p, steps, out=out, workdir=wd, hook=hook, nmol_out=range(3), **kw)
            stdout = r["stdout"]
            if resume_at:
                if not (r["error"] or "").startswith("SimulatedCrash"):
                    return {"problems": [f"planned crash at {resume_at} did not happen: {r['error']}"], "sig": "x"}
                r = MD.resume(wd, None, nmol_out=range(3))
                stdout += r["stdout"]
        else:
            with MD.replay_installed(_TAPES[engine]) as cls:
                cls.cursor = 0
                hook = MD.crash_after_checkpoint_hook(resume_at) if resume_at else None
                r = MD.run_md(eng, _mols(engine), p, steps, out=out, workdir=wd, hook=hook, nmol_out=range(3), **kw)
                stdout = r["stdout"]
                if resume_at:
                    if not (r["error"] or "").startswith("SimulatedCrash"):
                        return {"problems": [f"planned crash at {resume_at} did not happen: {r['error']}"], "sig": "x"}
                    r = MD.resume(wd, cls, nmol_out=range(3))
                    stdout += r["stdout"]
        if r["error"]:
            return {"problems": [f"run raised {r['error']}"], "sig": "err"}
        prob = compare(r, cad, steps, molid, ref, stdout=stdout)
        return {"problems": prob, "sig": _sig(r, molid), "res": r if case.get("want_res") else None}
    finally:
        MD.rm(wd)


def _real_case(case):
    return run_case(case, real=True)


def _lattice(tier, engines):
    if tier == "quick":
        vec = [0, 1, 2, 3, 5]
        others = [  # (data, xyz, print)
            (1, 0, 0), (0, 2, 3), (2, 3, 1), (3, 1, 2), (5, 5, 0), (8, 0, 8), (0, 0, 0),
        ]  # fmt: skip
        steps_l = [1, 6, 7]
        molids = [[0, 1, 2], [1]]
    else:
        vec = [0, 1, 2, 3, 5, 8]
        others = [(d, x, p) for d in (0, 1, 2, 3, 5, 8) for x, p in ((0, 0), (2, 3), (3, 1), (1, 2), (5, 5), (8, 8))]
        steps_l = [1, 2, 3, 4, 5, 6, 7, 8]
        molids = [[0, 1, 2], [1], [0, 2], []]
    cases = []
    for engine in engines:
        for steps in steps_l:
            for mi, molid in enumerate(molids):
                # full vector product on the first molid subset; the others get the diagonal + co-prime tuples
                vecs = list(itertools.product(vec, repeat=3))
                if mi > 0:
                    vecs = [v for v in vecs if len(set(v)) == 3 or v in ((0, 0, 0), (1, 1, 1))]
                for c, v, f in vecs:
                    oth = others if (mi == 0 and steps == steps_l[-1]) else others[: (3 if tier == "quick" else 8)]
                    for d, x, pr in oth:
                        cad = dict(data=d, coordinates=c, velocities=v, forces=f, xyz=x, print=pr, checkpoint=0)
                        cases.append(dict(engine=engine, steps=steps, cad=cad, molid=molid, resume_at=0))
    # resumed runs: checkpoint cadence x every checkpoint as the restart point
    for engine in engines:
        for steps in ([7] if tier == "quick" else [6, 7, 8]):
            for ck in ((2, 3) if tier == "quick" else (1, 2, 3, 5)):
                for at in CM.checkpoints(ck, steps):
                    if at >= steps:
                        continue
                    rv = [(1, 1, 1), (2, 3, 5), (3, 2, 0), (5, 1, 2), (0, 0, 3)]
                    if tier != "quick":
                        rv = list(itertools.product([0, 1, 2, 3, 5], repeat=3))
                    for c, v, f in rv:
                        for d, x, pr in ((1, 1, 1), (2, 3, 0), (3, 2, 2)):
                            cad = dict(data=d, coordinates=c, velocities=v, forces=f, xyz=x, print=pr, checkpoint=ck)
                            cases.append(dict(engine=engine, steps=steps, cad=cad, molid=[0, 1, 2], resume_at=at))
    return cases


def _key(c):
    cad = c["cad"]
    return (
        f"{c['engine']}|n={c['steps']}|d{cad['data']}c{cad['coordinates']}v{cad['velocities']}f{cad['forces']}"
        f"x{cad['xyz']}p{cad['print']}k{cad['checkpoint']}|mol={''.join(map(str, c['molid']))}|r{c['resume_at']}"
    )


def _desc(c, problems, driver):
    cad = c["cad"]
    vec = [cad[k] for k in CM.H5_VECTORS if cad[k] > 0]
    d = dict(c["cad"])
    d.update(
        engine=c["engine"], steps=c["steps"], molid="".join(map(str, c["molid"])), resume_at=c["resume_at"],
        driver=driver, vector_cadences_differ=len(set(vec)) > 1,
        first_problem=problems[0].split(":")[-1].strip()[:60] if problems else "",
    )  # fmt: skip
    return d


def run(chk, tier, seed):
    engines = ["bomd", "xl"] if tier == "quick" else ["bomd", "langevin", "xl", "ksa", "excited"]
    for e in engines:
        _prepare(e)
    # determinism + conformance of the replay driver with the recorded real run (all cadences 1)
    for e in engines:
        c = dict(engine=e, steps=NSTEPS_TAPE, molid=[0, 1, 2], resume_at=0, want_res=True,
                 cad=dict(data=1, coordinates=1, velocities=1, forces=1, xyz=1, print=1, checkpoint=0))  # fmt: skip
        r = run_case(c)
        chk.traces += 1
        if r["problems"]:
            chk.violation(_desc(c, r["problems"], "replay"), f"{_key(c)}: {r['problems'][0]}", replay=c)
    cases = _lattice(tier, engines)
    chk.planned = len(cases)
    results = pmap(run_case, cases, chunk=24, timeout=900, progress="C11 replay lattice")
    states = set()
    for c, r in zip(cases, results):
        k = _key(c)
        if is_timeout(r) or is_error(r):
            chk.violation(_desc(c, ["harness"], "replay"), f"{k}: run did not complete: {r}", replay=c)
            continue
        nontrivial = any(c["cad"][s] > 0 for s in ("data", "coordinates", "velocities", "forces", "xyz", "print")) and bool(c["molid"])
        chk.case(k, nontrivial=nontrivial, outcome=r["sig"])
        states.add((c["engine"], c["steps"], r["sig"]))
        chk.transitions += c["steps"] + (1 if c["resume_at"] else 0)
        if r["problems"]:
            chk.violation(_desc(c, r["problems"], "replay"), f"{k}: {r['problems'][0]} (+{len(r['problems']) - 1} more)", replay=c)
    # real-driver sub-lattice (conformance of the replayed exploration with the real electronic structure)
    sub = []
    vecs = [(1, 1, 1), (2, 3, 5), (3, 2, 0), (5, 1, 2), (0, 0, 3), (2, 2, 1)]
    if tier != "quick":
        vecs += [(8, 3, 2), (1, 5, 3), (3, 3, 3), (0, 2, 0), (5, 0, 1), (2, 1, 8)]
    for e in engines:
        for c_, v, f in vecs:
            for d, x, pr, ck, at in ((1, 2, 1, 0, 0), (2, 1, 3, 3, 3), (3, 3, 2, 2, 4)):
                cad = dict(data=d, coordinates=c_, velocities=v, forces=f, xyz=x, print=pr, checkpoint=ck)
                sub.append(dict(engine=e, steps=7, cad=cad, molid=[0, 1, 2], resume_at=at))
    res_real = pmap(_real_case, sub, chunk=1, timeout=900, progress="C11 real sub-lattice")
    for c, r in zip(sub, res_real):
        k = "real|" + _key(c)
        if is_timeout(r) or is_error(r):
            chk.violation(_desc(c, ["harness"], "real"), f"{k}: run did not complete: {r}", replay=dict(c, real=True))
            continue
        chk.case(k, nontrivial=True, outcome=r["sig"])
        chk.traces += 1
        chk.transitions += c["steps"]
        if r["problems"]:
            chk.violation(_desc(c, r["problems"], "real"), f"{k}: {r['problems'][0]} (+{len(r['problems']) - 1} more)", replay=dict(c, real=True))
    _sh_sublattice(chk, tier, seed)
    chk.states = len(states)
    chk.extra["engines"] = engines + ["sh (real driver only)"]
    chk.extra["real_driver_runs"] = len(sub)


# ------------------------------------------------------------------ surface hopping: the nonadiabatic stream

_SH_REF = {}


def _sh_cfg(cad, steps, resume_ck=0):
    from ..drivers import crash as CR

    return CR.default_cfg(
        engine="sh", mols=["H2CO"], excited={"n_states": 2, "method": "cis"}, active_state=1, steps=steps, eps=1e-7, seed=2,
        out=dict(data=cad["data"], coordinates=cad["coordinates"], velocities=cad["velocities"], forces=cad["forces"],
                 xyz=cad["xyz"], print_every=cad["print"], checkpoint_every=resume_ck, nonadiabatic=cad["nonadiabatic"]),
    )  # fmt: skip


def run_sh_case(case):
    from ..drivers import crash as CR
    from ..drivers import sh as SH

    cad, steps, at = case["cad"], case["steps"], case["resume_at"]
    cfg = _sh_cfg(cad, steps, cad["checkpoint"])
    wd = MD.scratch_dir("c11sh")
    try:
        hook = MD.crash_after_checkpoint_hook(at) if at else None
        r = CR.run_cfg(cfg, wd, hook=hook)
        stdout = r["stdout"]
        if at:
            if not (r["error"] or "").startswith("SimulatedCrash"):
                return {"problems": [f"planned crash at {at} did not happen: {r['error']}"], "sig": "x"}
            r = SH.resume_sh(wd, 1)
            stdout += r["stdout"]
        if r["error"]:
            return {"problems": [f"run raised {r['error']}"], "sig": "err"}
        prob = compare(r, cad, steps, [0], _SH_REF["ref"], nmol=1, stdout=stdout)
        return {"problems": prob, "sig": _sig(r, [0]) + str(r["h5.0"].get("data/nonadiabatic/steps", np.zeros(0)).tolist() if r.get("h5.0") else None)}
    finally:
        MD.rm(wd)


def _sh_sublattice(chk, tier, seed):
    from ..drivers import crash as CR

    one = dict(data=1, coordinates=1, velocities=1, forces=1, xyz=1, print=1, checkpoint=0, nonadiabatic=1)
    nref = 6
    wd = MD.scratch_dir("c11shref")
    try:
        ref = CR.run_cfg(_sh_cfg(one, nref), wd)
    finally:
        MD.rm(wd)
    if ref["error"]:
        chk.violation({"engine": "sh", "driver": "real", "first_problem": "reference run"}, f"surface-hopping reference run raised {ref['error']}", replay={"sh": True})
        return
    _SH_REF["ref"] = ref
    cases = []
    nas = [0, 1, 2, 3, 5]
    vecs = [(1, 1, 1), (2, 3, 5)] if tier == "quick" else [(1, 1, 1), (2, 3, 5), (0, 0, 0), (3, 1, 2)]
    datas = [1, 2] if tier == "quick" else [0, 1, 2, 3]
    for na in nas:
        for c_, v, f in vecs:
            for d in datas:
                cad = dict(data=d, coordinates=c_, velocities=v, forces=f, xyz=(2 if na % 2 else 0), print=0, checkpoint=0, nonadiabatic=na)
                cases.append(dict(engine="sh", steps=5, cad=cad, molid=[0], resume_at=0))
    for na in (1, 2, 3):
        for at, ck in ((2, 2), (4, 2), (3, 3)):
            cad = dict(data=1, coordinates=2, velocities=3, forces=1, xyz=1, print=0, checkpoint=ck, nonadiabatic=na)
            cases.append(dict(engine="sh", steps=5, cad=cad, molid=[0], resume_at=at))
    res = pmap(run_sh_case, cases, chunk=1, timeout=1200, progress="C11 surface-hopping sub-lattice (real driver)")
    for c, r in zip(cases, res):
        k = "real|" + _key(c) + f"|na{c['cad']['nonadiabatic']}"
        d = _desc(c, r.get("problems", ["harness"]) if isinstance(r, dict) else ["harness"], "real")
        if is_timeout(r) or is_error(r):
            chk.violation(d, f"{k}: run did not complete: {r}", replay=dict(c, sh=True))
            continue
        chk.case(k, nontrivial=True, outcome=r["sig"])
        chk.traces += 1
        chk.transitions += c["steps"]
        if r["problems"]:
            chk.violation(d, f"{k}: {r['problems'][0]} (+{len(r['problems']) - 1} more)", replay=dict(c, sh=True))


def replay(payload):
    c = payload["replay"]
    if c.get("sh"):
        print("re-run ./check C11 (surface-hopping sub-lattice)")
        return True
    _prepare(c["engine"])
    r = run_case(c, real=bool(c.get("real")))
    for p in r["problems"]:
        print("  ", p)
    return not r["problems"]
