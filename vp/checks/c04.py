"""C04  The SCF answer does not depend on which solver path produced it.

Explorer (S-seq, breadth first): states are (geometry index along a 4-geometry MD-like path,
provenance of the carried density = the sequence of solver configurations that produced it);
transitions are solves of the next geometry with one of the solver configurations, started from
the carried density.  Root = the cold tight-diagonalisation solution at g0.  Every sequence of
solver choices up to the tier's depth is executed on the real driver (prefixes shared level by
level, densities carried as arrays between forked workers).  Leaf transitions that are not
expanded further: the same solve started from carried density + a symmetric non-idempotent
perturbation, cold solves at every geometry, and the scf_eps axis at g0.

Oracle on every solve: (Etot, force, q, e_mo) equal the cold tight-diagonalisation reference at
that geometry within K_obs * t / (1 - a), t = max(scf_eps, sp2_tol), a = fixed mixing factor.
"""
import copy
import time
import traceback

import numpy as np

from ..budget import Horizon, IterationHorizon
from ..drivers import molecules as M
from ..drivers import sp
from ..oracles import scf_residuals as SR
from ..pool import is_error, is_timeout, pmap

PID = "C04"
LEVEL = "model_checking"
RULE = (
    "breadth-first enumeration of every sequence of solver configurations (10 configurations: {fixed 0, fixed 0.3, adaptive, "
    "Pulay} x {diagonalisation, SP2 1e-7}, Krylov/KSA, UHF-singlet adaptive) along a path of neighbouring geometries, the "
    "density of each solve carried into the next; depth 2 (quick) / 3 (thorough) from the cold reference at g0; plus, from "
    "every non-final state, the same solves started from a perturbed carried density, cold solves at every geometry and "
    "the scf_eps axis {1e-4..1e-10}.  state = (molecule, geometry index, provenance sequence); transition = one solve of the "
    "real driver; every solve is compared with the cold tight reference of its geometry (a trace validated)"
)
ASSUMPTIONS = [
    "closed-shell molecules with HOMO-LUMO gap > 2 eV at near-equilibrium geometries {H2O, NH3, CH4, H2CO, HCN, CH3OH}, AM1, CPU float64",
    "single-molecule calls (batching is C05's subject)",
    "carried densities are converted between the restricted and unrestricted layouts by the harness (P/2 per spin, P_a + P_b)",
    "sequences are bounded by depth 3; histories are not merged (state = full provenance)",
]

MOLS = ["H2O", "NH3", "CH4", "H2CO", "HCN", "CH3OH"]
KSA = [3, {"max_rank": 2, "err_threshold": 0.0, "T_el": 1500}]
SOLVER_OPT = {"fixed0": [0, 0.0], "fixed0.3": [0, 0.3], "adaptive": [1], "pulay": [2], "ksa": KSA}
# name -> (scf_converger key, sp2 tol, uhf)
CFGS = {
    "fixed0": ("fixed0", None, False),
    "fixed0/sp2": ("fixed0", 1e-7, False),
    "fixed0.3": ("fixed0.3", None, False),
    "fixed0.3/sp2": ("fixed0.3", 1e-7, False),
    "adaptive": ("adaptive", None, False),
    "adaptive/sp2": ("adaptive", 1e-7, False),
    "pulay": ("pulay", None, False),
    "pulay/sp2": ("pulay", 1e-7, False),
    "ksa": ("ksa", None, False),
    "uhf-adaptive": ("adaptive", None, True),
}
# leaf-only configurations (cold solves; not part of the breadth-first alphabet): the SP2 tolerance axis, including
# requests outside the window [1e-7, 1e-3] the float64 purification supports (the package clamps them into it)
SP2_WINDOW = (1e-7, 1e-3)
# (the loose end of the window is left out: at 1e-3 the purification error is no longer a "small multiple" in the sense
#  the constants K were measured for - H2O g2 at one orientation gives |dEtot| = 23 x tolerance; false alarm met at seed 2)
CFGS_LEAF = {f"adaptive/sp2@{t:g}": ("adaptive", t, False) for t in (1e-5, 1e-6, 1e-8, 1e-10)}
CFGS_LEAF.update({f"fixed0.3/sp2@{t:g}": ("fixed0.3", t, False) for t in (1e-5, 1e-10)})
# the other force evaluators on the restricted and the unrestricted-singlet path, and the SCF run for a CIS/RPA request
for _u, _un in ((False, "adaptive"), (True, "uhf-adaptive")):
    for _fm in ("analytical", "semi_numerical"):
        CFGS_LEAF[f"{_un}/{_fm}"] = ("adaptive", None, _u, {"fmode": _fm})
CFGS_LEAF["adaptive+cis"] = ("adaptive", None, False, {"excited": "cis"})
CFGS_LEAF["pulay+rpa"] = ("pulay", None, False, {"excited": "rpa"})
ALLCFG = dict(CFGS, **CFGS_LEAF)
LEAF_EPS_AXIS = ("adaptive+cis", "pulay+rpa", "adaptive/analytical", "uhf-adaptive/analytical")
# unrestricted singlet solved inside a batch with a molecule of another composition (row 0 = the molecule, unpadded)
MATE = {"H2O": "HF", "NH3": "H2O", "CH4": "NH3", "H2CO": "H2O", "HCN": "HF", "CH3OH": "H2CO"}
SEQ_EPS = 1e-8
EPS_AXIS = [1e-4, 1e-6, 1e-8, 1e-10]
REF_EPS = 1e-11
STEP = 0.02  # Angstrom per path step

# K_obs x t / (1 - a) bounds every observable; the evidence file records the largest measured ratio (`healthy_margin_ratio_to_t`)
K = {"Etot": 10.0, "q": 500.0, "e_mo": 2000.0, "force": 5000.0}
# measured (thorough, seed 0, 12.4k non-KSA solves): Etot 1.19, q 52, e_mo 215, force 387 (ratios to t/(1-a)); an orbital
# energy is first order in the density residual with a slope of the order of the two-electron integrals (10-20 eV), so
# K_e_mo ~ 15 x the density-residual constant of C03


def geometry(name, k, seed):
    m = M.apply(M.get(name), M.generic_rot(seed))
    n = len(m["species"])
    a = np.arange(n, dtype=float)[:, None]
    ph = np.array([[1.7, 2.9, 4.3]]) * (a + 1.0) + 0.6 * seed
    d = np.cos(ph)
    d -= d.mean(axis=0, keepdims=True)
    d /= np.abs(d).max()
    m["coords"] = m["coords"] + STEP * k * d
    return m


def _params(cfg, eps):
    key, s2, uhf = ALLCFG[cfg][:3]
    more = ALLCFG[cfg][3] if len(ALLCFG[cfg]) > 3 else {}
    extra = {}
    if more.get("excited"):
        # excited states requested alongside: the ground-state part of the answer is what is compared
        extra["excited_states"] = {"n_states": 2, "method": more["excited"], "tolerance": 1e-4}
    return sp.make_params("AM1", "adaptive", eps, sp2=s2, uhf=uhf, scf_converger=copy.deepcopy(SOLVER_OPT[key]),
                          force_mode=more.get("fmode", "autodiff"), **extra)


def _to_layout(P, uhf):
    """carried density -> layout of the next solve"""
    if P is None:
        return None
    if uhf and P.ndim == 3:
        return np.stack([0.5 * P, 0.5 * P], axis=1)
    if not uhf and P.ndim == 4:
        return P[:, 0] + P[:, 1]
    return P


def solve(task):
    """one transition: solve geometry `g` of `mol` with configuration `cfg` from density `P` (None = cold)"""
    import torch

    cfg = task["cfg"]
    uhf = ALLCFG[cfg][2] if cfg != "ref" else False
    if cfg == "ref":
        params = sp.make_params("AM1", "adaptive", REF_EPS)
    else:
        params = _params(cfg, task["eps"])
    t0 = time.process_time()
    geoms = geometry(task["mol"], task["g"], task["seed"])
    if task.get("mate"):
        geoms = [geoms, geometry(task["mate"], task["g"], task["seed"])]
    molecule, es = sp.build(geoms, params)
    molecule.verbose = False
    P = _to_layout(task.get("P"), uhf)
    if P is not None and task.get("perturb"):
        P = P + SR.perturbation(molecule, P.shape, 1e-2)
    out = {"status": "ok"}
    try:
        with Horizon(20000):
            if P is None:
                es(molecule)
            else:
                es(molecule, P0=torch.as_tensor(P).clone())
    except IterationHorizon as e:
        return {"status": "horizon", "msg": str(e)}
    except Exception as e:  # noqa: BLE001
        tb = traceback.extract_tb(e.__traceback__)[-1]
        return {"status": "exception", "exc": type(e).__name__, "msg": str(e)[:160], "where": f"{tb.filename.split('/')[-1]}:{tb.name}"}
    o = sp.observe(molecule, es, ["Etot", "force", "q", "e_mo", "e_gap", "dm"])
    if task.get("mate"):
        o = {k: (np.asarray(v)[:1] if v is not None else None) for k, v in o.items()}  # row 0 is the largest: no padding
    out.update(o)
    out["nc"] = bool(np.asarray(o["notconverged"]).any())
    out["t"] = time.process_time() - t0
    return out


def _emo(e):
    e = np.asarray(e)
    return e[:, 0] if e.ndim == 3 else e


def compare(task, out, ref):
    """-> list of (observable, error, tolerance); also fills ratios"""
    cfg = task["cfg"]
    key, s2, uhf = ALLCFG[cfg][:3]
    a = {"fixed0.3": 0.3}.get(key, 0.0)
    s2_eff = min(max(s2, SP2_WINDOW[0]), SP2_WINDOW[1]) if s2 else 0.0
    t = max(task["eps"], s2_eff) / (1.0 - a)
    bad = []
    ratios = {}
    for name in ("Etot", "force", "q", "e_mo"):
        x = np.asarray(out[name])
        r = np.asarray(ref[name])
        if name == "e_mo":
            errs = [np.abs(_emo(x) - r).max()]
            if x.ndim == 3:
                errs.append(np.abs(x[:, 1] - r).max())
            err = float(max(errs))
        else:
            if x.shape != r.shape:
                bad.append((name, float("inf"), 0.0))
                continue
            err = float(np.abs(x - r).max())
        tol = K[name] * t
        ratios[name] = err / t
        if not (err <= tol):
            bad.append((name, err, tol))
    return bad, ratios


def _desc(task, kind, **more):
    key, s2, uhf = ALLCFG[task["cfg"]][:3]
    d = {
        "kind": kind, "mol": task["mol"], "g": task["g"], "cfg": task["cfg"], "solver": key, "sp2": s2 is not None, "uhf": uhf,
        "eps": task["eps"], "start": task["start"], "depth": len(task["prov"]), "prev_cfg": task["prov"][-1] if task["prov"] else "none",
        "provenance": ">".join(task["prov"]), "mate": task.get("mate") or "none", "sp2_tol": s2 or 0.0,
    }  # fmt: skip
    d.update(more)
    return d


def _key(task):
    return f"{task['mol']}{'+' + task['mate'] if task.get('mate') else ''}|g{task['g']}|{'>'.join(task['prov'])}=>{task['cfg']}|{task['start']}|eps={task['eps']:g}"


def _replay_payload(task):
    t = {k: v for k, v in task.items() if k != "P"}
    return t


def _judge(chk, task, out, refs, margins, tally):
    k = _key(task)
    chk.transitions += 1
    if is_timeout(out):
        chk.case(k, outcome="wallclock")
        chk.violation(_desc(task, "wallclock"), f"{k}: killed by the wall-clock backstop", replay=_replay_payload(task))
        return None
    if is_error(out):
        chk.harness_error(f"{k}: {out['__error__']}")
        return None
    if out["status"] == "horizon":
        chk.case(k, outcome="horizon")
        chk.violation(_desc(task, "horizon"), f"{k}: does not terminate: {out['msg']}", replay=_replay_payload(task))
        return None
    if out["status"] == "exception":
        chk.case(k, outcome=("exception", out["exc"]))
        chk.violation(
            _desc(task, "exception", exc=out["exc"], where=out["where"]),
            f"{k}: valid solve raised {out['exc']}: {out['msg']}", replay=_replay_payload(task),
        )  # fmt: skip
        return None
    margins["_cpu"] = margins.get("_cpu", 0.0) + out.get("t", 0.0)
    if out["nc"]:
        chk.excluded += 1
        chk.case(k, nontrivial=False, outcome="notconverged")
        return out
    ref = refs[(task["mol"], task["g"])]
    bad, ratios = compare(task, out, ref)
    chk.traces += 1
    if ALLCFG[task["cfg"]][0] != "ksa":
        for n, v in ratios.items():
            if v > margins.get(n, 0.0):
                margins[n] = v
                tally[f"_argmax_{n}"] = k
    tally[task["cfg"]] = tally.get(task["cfg"], 0) + 1
    chk.case(k, nontrivial=True, outcome=(task["cfg"], tuple(sorted(b[0] for b in bad))))
    for name, err, tol in bad:
        chk.violation(
            _desc(task, "mismatch", observable=name, ratio=(err / tol if tol else float("inf"))),
            f"{k}: {name} differs from the cold tight reference by {err:.3e} > {tol:.3e}", replay=_replay_payload(task),
        )  # fmt: skip
    return out


def run(chk, tier, seed):
    import vp

    vp.warm()
    quick = tier == "quick"
    depth = 2 if quick else 3
    cfgs = list(CFGS)
    seed = int(seed)
    # references: cold tight diagonalisation at every geometry of every molecule
    ref_tasks = [dict(mol=m, g=g, cfg="ref", eps=REF_EPS, seed=seed, prov=[], start="cold") for m in MOLS for g in range(depth + 1)]
    ref_out = pmap(solve, ref_tasks, chunk=2, timeout=300)
    refs = {}
    for t, o in zip(ref_tasks, ref_out):
        if is_error(o) or is_timeout(o) or o["status"] != "ok" or o["nc"]:
            chk.harness_error(f"reference solve failed for {t['mol']} g{t['g']}: {str(o)[:200]}")
            return
        if float(np.min(o["e_gap"])) < 2.0:
            chk.harness_error(f"{t['mol']} g{t['g']} has gap {o['e_gap']} < 2 eV: outside the statement")
            return
        refs[(t["mol"], t["g"])] = o
    # determinism of one sample in two processes
    s = dict(mol="H2CO", g=1, cfg="pulay/sp2", eps=SEQ_EPS, seed=seed, prov=["ref"], start="carried", P=refs[("H2CO", 0)]["dm"])
    two = pmap(solve, [s, s], chunk=1, timeout=300)
    if any(is_error(x) or is_timeout(x) for x in two) or not np.array_equal(two[0]["force"], two[1]["force"]):
        chk.harness_error("same solve in two processes disagrees")
        return
    margins, tally = {}, {}
    states = {(m, 0, ("ref",)) for m in MOLS}
    frontier = [dict(mol=m, g=0, prov=["ref"], P=refs[(m, 0)]["dm"]) for m in MOLS]
    planned = 0
    for level in range(1, depth + 1):
        tasks = []
        for st in frontier:
            for c in cfgs:
                tasks.append(dict(mol=st["mol"], g=st["g"] + 1, cfg=c, eps=SEQ_EPS, seed=seed, prov=list(st["prov"]),
                                  start="carried", P=st["P"]))  # fmt: skip
                # leaf: same transition from a perturbed carried density
                tasks.append(dict(mol=st["mol"], g=st["g"] + 1, cfg=c, eps=SEQ_EPS, seed=seed, prov=list(st["prov"]),
                                  start="perturbed", perturb=True, P=st["P"]))  # fmt: skip
        planned += len(tasks)
        outs = pmap(solve, tasks, chunk=8, timeout=300, progress=f"C04 level {level}")
        nxt = []
        for t, o in zip(tasks, outs):
            r = _judge(chk, t, o, refs, margins, tally)
            if r is not None and t["start"] == "carried" and r.get("dm") is not None and not r["nc"]:
                prov = t["prov"] + [t["cfg"]]
                states.add((t["mol"], t["g"], tuple(prov)))
                if level < depth:
                    nxt.append(dict(mol=t["mol"], g=t["g"], prov=prov, P=r["dm"]))
        frontier = nxt
    # cold solves at every geometry and the eps axis at g0
    tasks = []
    for m in MOLS:
        for g in range(depth + 1):
            for c in cfgs:
                tasks.append(dict(mol=m, g=g, cfg=c, eps=SEQ_EPS, seed=seed, prov=[], start="cold"))
        for c in cfgs:
            for e in EPS_AXIS:
                if e != SEQ_EPS:
                    tasks.append(dict(mol=m, g=0, cfg=c, eps=e, seed=seed, prov=[], start="cold"))
        # the SP2 tolerance axis (inside and outside the supported window) and the unrestricted singlet inside a batch
        for g in (0, depth):
            for c in CFGS_LEAF:
                tasks.append(dict(mol=m, g=g, cfg=c, eps=SEQ_EPS, seed=seed, prov=[], start="cold"))
        for c in LEAF_EPS_AXIS:
            for e in EPS_AXIS:
                if e != SEQ_EPS:
                    tasks.append(dict(mol=m, g=0, cfg=c, eps=e, seed=seed, prov=[], start="cold"))
            for c in ("uhf-adaptive", "adaptive", "pulay/sp2"):
                tasks.append(dict(mol=m, g=g, cfg=c, eps=SEQ_EPS, seed=seed, prov=[], start="cold", mate=MATE[m]))
    planned += len(tasks)
    outs = pmap(solve, tasks, chunk=8, timeout=300, progress="C04 cold/eps")
    for t, o in zip(tasks, outs):
        _judge(chk, t, o, refs, margins, tally)
    chk.planned = planned
    chk.states = len(states)
    chk.extra["depth"] = depth
    chk.extra["solver_configurations"] = cfgs
    chk.extra["reference_solves"] = len(ref_tasks)
    chk.extra["healthy_margin_worst_case"] = {k[8:]: tally.pop(k) for k in [x for x in tally if x.startswith("_argmax_")]}
    chk.extra["solves_compared_per_configuration"] = tally
    chk.extra["cpu_s_in_calls"] = round(margins.pop("_cpu", 0.0), 1)
    chk.extra["healthy_margin_ratio_to_t"] = {k: float(f"{v:.4g}") for k, v in margins.items()}
    chk.extra["K_obs"] = K


def replay(payload):
    t = dict(payload["replay"])
    seed = t["seed"]
    P = None
    prov = t["prov"]
    if prov:
        # re-execute the chain from the cold reference at g0
        g0 = t["g"] - len(prov)
        o = solve(dict(mol=t["mol"], g=g0, cfg="ref", eps=REF_EPS, seed=seed, prov=[], start="cold"))
        P = o["dm"]
        for j, c in enumerate(prov[1:]):
            o = solve(dict(mol=t["mol"], g=g0 + j + 1, cfg=c, eps=SEQ_EPS, seed=seed, prov=prov[: j + 1], start="carried", P=P))
            if o["status"] != "ok":
                print("  chain broke at", c, o)
                return False
            P = o["dm"]
    ref = solve(dict(mol=t["mol"], g=t["g"], cfg="ref", eps=REF_EPS, seed=seed, prov=[], start="cold"))
    t["P"] = P
    out = solve(t)
    if out["status"] != "ok":
        print("  ", out)
        return False
    if out["nc"]:
        print("  reported not converged (accepted)")
        return True
    bad, ratios = compare(t, out, ref)
    print("  error/t per observable:", {k: float(f"{v:.4g}") for k, v in ratios.items()})
    for name, err, tol in bad:
        print(f"   {name}: {err:.3e} > {tol:.3e}")
    return not bad
