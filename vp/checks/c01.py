"""C01  Reported forces are the exact negative gradient of the reported energy; the three force
evaluators agree; padding atoms get exactly zero force.

Explorer: exhaustive finite lattices (S-lat) of executions of the real single-point driver.

  element lattice   method x {every hydride, every heavy-element pair H_nX-YH_m at 1..3 bond scales, named
                    multi-heavy molecules, the repository's own test geometry} x orientation {documentation
                    layout, generic} x force evaluator
  config lattice    method x sub-alphabet of molecules (RHF neutral / RHF ion / UHF doublet / UHF triplet) x
                    SCF converger x SP2 x active state {S0, CIS S1, CIS S2, RPA S1} x batch layout
                    {single, homogeneous batch, zero-padded mixed batch} x orientation x force evaluator

Oracle on every point: every Cartesian component of the returned force equals minus a 4-point central
difference (h = 2e-3 A, all 12N displaced geometries through the package as ONE homogeneous batch) of the
returned Etot; the evaluators agree pairwise; force rows of padding atoms are exactly 0.0.

A disagreement is confirmed with single-molecule calls before it is reported, and two attribution probes add
derived facts to the violation descriptor (so that known findings can be matched narrowly):
  * geometries with an axis-aligned atom pair are re-executed 0.02 rad off the axis (vanishes_when_tilted);
  * for the analytical evaluator on molecules that contain an element whose h_pp is below MOPAC's 0.1 eV floor,
    the evaluator is re-run with a harness-side wrapper that applies the floor inside `w_der` as the energy
    integrals do (vanishes_with_hpp_floor_in_derivative).
"""
import numpy as np

from ..drivers import lattice as L
from ..drivers import molecules as M
from ..drivers import sp
from ..oracles import tables as T
from ..pool import is_error, is_timeout, pmap

PID = "C01"
LEVEL = "exploration"
RULE = (
    "product lattice method x molecule alphabet (all hydrides, all heavy-element pairs at fixed bond scales, named "
    "multi-heavy molecules) x orientation {documentation layout, generic} x force evaluator, and on a molecule "
    "sub-alphabet the full product SCF converger x SP2 x spin/charge x active state x batch layout; one case = one "
    "(molecule, orientation, method, configuration, evaluator) execution compared with a batched 4-point finite "
    "difference of the returned energy (plus one case per evaluator pair); non-trivial when a force was returned and "
    "compared; distinct = distinct tuple"
)
ASSUMPTIONS = [
    "geometries are those of the stated finite alphabet (no continuous sampling); CPU, float64",
    "finite-difference reference: 4-point central stencil, h = 2e-3 A (truncation h^4 E^(5)/30 ~ 1e-9 eV/A), scf_eps 1e-10, "
    "CIS tolerance 1e-8; the stencil is evaluated as one homogeneous batch and a disagreement is confirmed with "
    "single-molecule calls before it is reported",
    "points where the energies of the stencil do not lie on one smooth surface (SCF landing on different solutions at "
    "the base and the displaced geometries, recognised from the stencil's own second differences) are excluded and "
    "counted, unless the roughness belongs to an axis-aligned atom pair (then it is reported)",
    "SP2 points: the density carries the SP2 purification error, tolerance 1e-5 + 5000 x sp2_tol (K_F of DESIGN C04); "
    "excited states: + 5000 x CIS tolerance; analytical/semi-numerical ground-state evaluators: 5e-5 instead of 1e-5 because "
    "they difference integrals internally with delta = 1e-5 A (measured round-off floor 5.6e-6 eV/A)",
    "excited states with autodiff/semi-numerical requested: the package itself switches to its analytical "
    "excited-state gradient (scf_backward = 0); the descriptor records the effective evaluator; excited-state forces "
    "by back-propagation (scf_backward >= 1) are not explored",
]

METHODS = ["MNDO", "AM1", "PM3", "PM6_SP"]
MODES = ["autodiff", "analytical", "semi_numerical"]
H = 2e-3
EPS = 1e-10
CIS_TOL = 1e-8
SP2_TOL = 1e-7
ATOL = 1e-5
# The analytical and the semi-numerical evaluators difference the overlap integrals (PM6_SP: also the core-core
# terms) internally with a central step delta = 1e-5 A, which amplifies the round-off of those integrals by
# 1/(2 delta): measured over all third-row pairs x 3 bond scales x 4 methods the noise floor is 5.6e-6 eV/A
# (PM6_SP S-Cl; it grows like 1/delta when delta is reduced, i.e. it is round-off, not truncation).  Their absolute
# tolerance is therefore 5e-5 (9x the measured floor; the smallest genuine defect met is 1.2e-3).
ATOL_INTERNAL_FD = 5e-5
RTOL = 1e-6
K_SP2 = 5000.0
K_CIS = 5000.0  # excited states: the gradient is first order in the CIS/Z-vector residuals, same factor as for the density
ROUGH_MAX = 5e-3  # |D(h) - D(2h)| eV/A: above this the energy is not smooth over the stencil
CURV_MAX = 1e-6  # |S(h) - S(2h)/4| eV: base point and neighbours are not on one smooth surface
NAMED_MULTI = ["H2CO", "CH3Cl", "CH3F", "SO2", "HCN", "CO", "N2", "C2H2", "CH3OH"]

# ------------------------------------------------------------------ one unit = (molecule, method, configuration)


def _cfg(unit):
    return dict(dict(solver="adaptive", sp2=False, excited=None, layout="single"), **unit.get("cfg", {}))


def _params(method, cfg, uhf, mode):
    extra = {}
    if cfg["excited"]:
        extra["excited_states"] = {"n_states": 3, "method": cfg["excited"][0], "tolerance": CIS_TOL}
    return sp.make_params(
        method, solver=cfg["solver"], eps=EPS, sp2=SP2_TOL if cfg["sp2"] else None, force_mode=mode, uhf=uhf, **extra
    )


def _layout_mols(mol, layout, seed):
    """(list of molecules, index of the target row, pad_extra)"""
    if layout == "single":
        return [mol], 0, 0
    if layout == "homog":
        other = dict(mol, coords=mol["coords"].copy())
        other["coords"][0] += np.array([0.03, -0.02, 0.01])
        other["coords"][-1] -= np.array([0.01, 0.02, -0.03])
        return [other, mol], 1, 0
    if layout == "mixed":
        mate = M.apply(M.get("CH4"), M.generic_rot(seed + 1), [0.4, -0.2, 0.3])
        return [mate, mol], 1, 1
    raise ValueError(layout)


def _tol(cfg, fmax, mode="autodiff"):
    internal_fd = mode != "autodiff" and not cfg["excited"]
    t = (ATOL_INTERNAL_FD if internal_fd else ATOL) + RTOL * fmax
    if cfg["sp2"]:
        t += K_SP2 * SP2_TOL
    if cfg["excited"]:
        t += K_CIS * CIS_TOL
    return t


def _smooth(fd, cfg):
    cmax = CURV_MAX * (100.0 if cfg["sp2"] else 1.0)
    return float(fd["rough"].max()) <= ROUGH_MAX and float(fd["curv"].max()) <= cmax


def _junction_in_stencil(mol, method, reach):
    """Does a displacement of one atom by at most `reach` (the stencil's +-2h) move some orbital pair across
    0.5 R/a0 |zeta_a - zeta_b| = 0.5, where the overlap code switches from its truncated power series to the closed form?
    The energy surface has a step of ~1e-7..1e-6 eV there (known finding C08-bintgs-series-jump; C06 mirrors the
    truncation), so a finite difference across it is not a reference for the force: such stencils are excluded."""
    from seqm.seqm_functions.constants import a0

    try:
        m, _ = sp.build([mol], sp.make_params(method))
        zs = m.parameters["zeta_s"].detach().numpy().reshape(-1)
        zp = m.parameters["zeta_p"].detach().numpy().reshape(-1)
    except Exception:  # noqa: BLE001 - the unit itself will report what the package refuses
        return False
    x = np.asarray(mol["coords"], float)
    n = len(mol["species"])
    for i in range(n):
        for j in range(i + 1, n):
            R = float(np.linalg.norm(x[i] - x[j]))
            for zi in {float(zs[i]), float(zp[i])}:
                for zj in {float(zs[j]), float(zp[j])}:
                    if zi > 0 and zj > 0 and zi != zj and abs(R - a0 / abs(zi - zj)) <= reach:
                        return True
    return False


def _call(fn, sp2):
    """run a package call; SP2 calls run under the deterministic iteration horizon (the SP2 loop has no cap)."""
    if sp2:
        with L.SP2Horizon(2000):
            return fn()
    return fn()


def run_unit(unit):
    """Executes one unit: the requested evaluators in the requested layout + one batched stencil (+ confirmation
    and attribution probes when something disagrees).  Returns a plain dict; never raises for package errors."""
    import time

    t0 = time.process_time()
    out = _run_unit(unit)
    out["cpu"] = time.process_time() - t0
    return out


def _run_unit(unit):
    from ..budget import IterationHorizon

    seed = unit.get("seed", 0)
    method, cfg = unit["method"], _cfg(unit)
    mol = L.build(unit["spec"], seed)
    uhf = mol["mult"] != 1
    n = len(mol["species"])
    act = cfg["excited"][1] if cfg["excited"] else None
    mols, row, pad = _layout_mols(mol, cfg["layout"], seed)
    expect_rej = L.expected_rejection(method, mols, uhf, cfg["solver"], cfg["sp2"], cfg["excited"], cfg["layout"] == "mixed")
    out = {"modes": {}, "expected_rejection": expect_rej, "natoms": n, "uhf": uhf}
    modes = unit.get("modes", MODES)
    sp_arr = M.batch(mols, pad_extra=pad)[0]
    for mode in modes:
        p = _params(method, cfg, uhf, mode)
        try:
            r = _call(lambda: sp.single_point(mols, p, pad_extra=pad, active_state=act), cfg["sp2"])
        except IterationHorizon as e:
            out["modes"][mode] = {"status": "horizon", "msg": str(e)[:200]}
            continue
        except Exception as e:  # noqa: BLE001 - the package refused (or crashed): classified by the parent
            out["modes"][mode] = {"status": "raised", "msg": f"{type(e).__name__}: {str(e).strip()[:160]}"}
            continue
        F = r["force"]
        padrows = F[sp_arr == 0]
        out["modes"][mode] = {
            "status": "ok",
            "force": F[row, :n].copy(),
            "Etot": float(r["Etot"][row]),
            "notconverged": bool(r["notconverged"][row]) if r["notconverged"] is not None else False,
            "pad_absmax": float(np.abs(padrows).max()) if padrows.size else 0.0,
            "npad": int(padrows.shape[0]),
            "finite": L.finite(F) and L.finite(r["Etot"]),
            "cis": None if r.get("cis_energies") is None else r["cis_energies"][row].tolist(),
        }
    ok = [m for m in modes if out["modes"][m]["status"] == "ok"]
    if not ok:
        return out
    # batched stencil of the target molecule under the same electronic-structure settings (energies only)
    p0 = _params(method, cfg, uhf, "autodiff")
    try:
        fd = _call(lambda: L.fd_force(mol, p0, H, active_state=act), cfg["sp2"])
    except IterationHorizon as e:
        out["fd"] = {"status": "horizon", "msg": str(e)[:200]}
        return out
    except Exception as e:  # noqa: BLE001
        out["fd"] = {"status": "raised", "msg": f"{type(e).__name__}: {str(e).strip()[:160]}"}
        return out
    fd["status"] = "ok"
    fd["nc_any"] = bool(np.any(fd.pop("notconverged")))
    fd["junction"] = _junction_in_stencil(mol, method, 2.0 * H + 1e-9)
    fd["smooth"] = _smooth(fd, cfg) and not fd["junction"]
    out["fd"] = fd
    fmax = float(np.abs(fd["F"]).max())
    out["tol"] = {m: _tol(cfg, fmax, m) for m in MODES}
    out["fmax"] = fmax
    clamp = method in METHODS and bool(T.clamp_elements(method, mol["species"]))
    for m in ok:
        d = out["modes"][m]
        diff = np.abs(d["force"] - fd["F"])
        a, c = np.unravel_index(int(np.argmax(diff)), diff.shape)
        d["err_fd"] = float(diff.max())
        d["worst"] = (int(a), int(c))
        d["dE"] = abs(d["Etot"] - fd["E0"])
        tol = out["tol"][m]
        if d["err_fd"] <= tol:
            continue
        # confirmation with singles before anything is called a violation (DESIGN section 9)
        if fd["smooth"] and not unit.get("no_confirm"):
            try:
                f1 = _call(lambda: L.fd_component_singles(mol, p0, H, int(a), int(c), active_state=act), cfg["sp2"])
                d["confirm_err"] = abs(float(d["force"][a, c]) - f1)
            except Exception as e:  # noqa: BLE001
                d["confirm_err"] = None
                d["confirm_msg"] = str(e)[:100]
        # attribution probe: does the disagreement of the analytical evaluator disappear when its integral
        # derivatives use the same 0.1 eV floor on h_pp as the energy integrals (harness-side wrapper)?
        effective = "analytical" if cfg["excited"] else m
        if effective == "analytical" and clamp:
            try:
                with L.hpp_floor_in_w_der():
                    r = sp.single_point(mols, _params(method, cfg, uhf, m), pad_extra=pad, active_state=act)
                d["force_with_floor"] = r["force"][row, :n].copy()
                d["err_fd_with_floor"] = float(np.abs(d["force_with_floor"] - fd["F"]).max())
            except Exception:  # noqa: BLE001
                d["err_fd_with_floor"] = None
    return out


# ------------------------------------------------------------------ descriptors


def _spin(mol, uhf):
    return ("UHF" if uhf else "RHF") + {1: "", 2: "-doublet", 3: "-triplet"}.get(mol["mult"], f"-m{mol['mult']}")


def _excited_tag(cfg):
    return "S0" if not cfg["excited"] else f"{cfg['excited'][0]}{cfg['excited'][1]}"


def describe(unit, kind, mode, evaluator=None, **more):
    cfg = _cfg(unit)
    mol = L.build(unit["spec"], unit.get("seed", 0))
    uhf = mol["mult"] != 1
    clamp = T.clamp_elements(unit["method"], mol["species"]) if unit["method"] in METHODS else []
    if evaluator is None:
        evaluator = "analytical" if cfg["excited"] else mode
    d = dict(
        kind=kind, method=unit["method"], molecule=L.spec_name(unit["spec"]), orient=unit["spec"].get("orient", "generic"),
        lattice=unit.get("lattice", "element"), mode=mode, evaluator=evaluator,
        involves_analytical=("analytical" in str(evaluator)),
        solver=cfg["solver"], sp2=bool(cfg["sp2"]), spin=_spin(mol, uhf), charge=int(mol["charge"]), mult=int(mol["mult"]),
        excited=_excited_tag(cfg), layout=cfg["layout"],
        elements=",".join(str(z) for z in sorted(set(mol["species"]))), natoms=len(mol["species"]),
        hpp_clamp_active=bool(clamp), hpp_clamp_elements=",".join(map(str, clamp)),
    )  # fmt: skip
    d.update(L.axis_facts(mol))
    d.update(more)
    return d


def unit_key(unit, mode):
    cfg = _cfg(unit)
    return (
        f"{unit['method']}|{L.spec_name(unit['spec'])}|{unit['spec'].get('orient', 'generic')}|{cfg['solver']}|"
        f"sp2={int(bool(cfg['sp2']))}|{_excited_tag(cfg)}|{cfg['layout']}|{mode}"
    )


# ------------------------------------------------------------------ lattices


def element_lattice(tier, seed):
    units = []
    scales = [1.0] if tier == "quick" else [0.8, 1.0, 1.3]
    for method in METHODS:
        heavy = [z for z in M.ELEMENTS[method] if z > 1]
        # hydrides of EVERY element of the union alphabet: the ones absent from this method's table must be refused loudly
        for z in L.HEAVY:
            for o in ("doc", "generic"):
                units.append(dict(lattice="element", method=method, spec={"mol": L.HYDRIDES[z], "orient": o}))
        for name in NAMED_MULTI:
            for o in ("doc", "generic"):
                units.append(dict(lattice="element", method=method, spec={"mol": name, "orient": o}))
        # the first geometry of the repository's own force tests, as given there
        units.append(dict(lattice="element", method=method, spec={"mol": "H2CO_repo_test", "orient": "doc"}))
        for i, a in enumerate(heavy):
            for b in heavy[: i + 1]:
                for s in scales:
                    for o in ("generic",) if tier == "quick" else ("doc", "generic"):
                        units.append(dict(lattice="element", method=method, spec={"pair": [a, b, s], "orient": o}))
    for u in units:
        u["seed"] = seed
    return units


def config_lattice(tier, seed):
    if tier == "quick":
        methods = ["AM1", "PM3"]
        mols = ["H2O", "H2CO", "H2COH+", "OH-", "CH3", "CH2"]
        solvers = ["fixed0.3", "adaptive", "pulay"]
        excited = [None, ("cis", 1), ("rpa", 1)]
        orients = {"single": ("doc", "generic"), "homog": ("generic",), "mixed": ("generic",)}
    else:
        methods = METHODS
        mols = ["H2O", "H2CO", "H2COH+", "HCOO-", "OH-", "NH4+", "CH3", "NH2", "CH2", "O2"]
        solvers = ["fixed0", "fixed0.3", "adaptive", "pulay"]
        excited = [None, ("cis", 1), ("cis", 2), ("rpa", 1)]
        orients = {"single": ("doc", "generic"), "homog": ("generic",), "mixed": ("generic",)}
    units = []
    for method in methods:
        for name in mols:
            for solver in solvers:
                for sp2 in (False, True):
                    for ex in excited:
                        for layout in ("single", "homog", "mixed"):
                            for o in orients[layout]:
                                if o == "doc" and (ex or sp2) and tier == "quick":
                                    continue
                                cfg = dict(solver=solver, sp2=sp2, excited=list(ex) if ex else None, layout=layout)
                                u = dict(lattice="config", method=method, spec={"mol": name, "orient": o}, cfg=cfg, seed=seed)
                                if ex and tier == "quick":
                                    u["modes"] = ["autodiff", "analytical"]  # all three run the same evaluator here
                                units.append(u)
    return units


# ------------------------------------------------------------------ judging


def _tilted_unit(unit):
    return dict(unit, spec=dict(unit["spec"], orient="tilted"), no_confirm=True)


def _has_axis(unit):
    return any(L.axis_facts(L.build(unit["spec"], unit.get("seed", 0))).values())


def _tilt_facts(tr, mode):
    """derived facts from the re-execution 0.02 rad off the axis"""
    if not tr or is_error(tr) or is_timeout(tr):
        return {}
    tm = tr.get("modes", {}).get(mode, {})
    fd = tr.get("fd", {})
    if tm.get("status") != "ok" or fd.get("status") != "ok" or not fd.get("smooth") or "err_fd" not in tm:
        return {}
    out = {"vanishes_when_tilted": bool(tm["err_fd"] <= tr["tol"][mode]), "err_tilted": tm["err_fd"]}
    if tm.get("err_fd_with_floor") is not None:
        out["vanishes_when_tilted_with_hpp_floor"] = bool(tm["err_fd_with_floor"] <= tr["tol"][mode])
    return out


def judge(chk, unit, res, stats, tilt_cache):
    cfg = _cfg(unit)
    modes = unit.get("modes", MODES)
    if is_timeout(res) or is_error(res):
        chk.case(unit_key(unit, "*"), nontrivial=False, outcome="harness")
        chk.violation(describe(unit, "did_not_complete", "*"), f"{unit_key(unit, '*')}: {res}", replay=unit)
        return
    fd = res.get("fd")
    tr = tilt_cache.get(unit_key(unit, "*"))
    for mode in modes:
        key = unit_key(unit, mode)
        d = res["modes"][mode]
        rp = dict(unit, modes=[mode])
        if d["status"] == "raised":
            if res["expected_rejection"]:
                chk.rejected += 1
                chk.case(key, nontrivial=False, outcome="rejected:" + res["expected_rejection"][:24])
            else:
                chk.case(key, nontrivial=True, outcome="raised")
                chk.violation(
                    describe(unit, "unexpected_exception", mode, exception=d["msg"][:60]),
                    f"{key}: the package raised on a valid request: {d['msg']}", replay=rp,
                )  # fmt: skip
            continue
        if d["status"] == "horizon":
            chk.excluded += 1
            stats["horizon"] += 1
            chk.case(key, nontrivial=False, outcome="horizon")
            continue
        # a force came back
        if not d["finite"]:
            chk.case(key, nontrivial=True, outcome="nonfinite")
            chk.violation(describe(unit, "nonfinite", mode), f"{key}: non-finite force or energy returned silently", replay=rp)
            continue
        if d["npad"] and d["pad_absmax"] != 0.0:
            chk.violation(
                describe(unit, "padding_force_nonzero", mode, err=d["pad_absmax"]),
                f"{key}: padding atoms carry a force, max |F_pad| = {d['pad_absmax']:.3e}", replay=rp,
            )  # fmt: skip
        if fd is None or fd["status"] != "ok":
            chk.excluded += 1
            chk.case(key, nontrivial=bool(d["npad"]), outcome="fd:" + (fd or {}).get("status", "none"))
            if fd and fd["status"] == "horizon":
                stats["horizon"] += 1
            if fd and fd["status"] == "raised" and not res["expected_rejection"]:
                chk.violation(
                    describe(unit, "unexpected_exception", "stencil", exception=fd["msg"][:60]),
                    f"{key}: energy-only batch of displaced geometries raised: {fd['msg']}", replay=unit,
                )  # fmt: skip
            continue
        if d["notconverged"] or fd["nc_any"]:
            chk.excluded += 1
            stats["notconverged"] += 1
            chk.case(key, nontrivial=False, outcome="notconverged")
            continue
        if cfg["excited"] and d["cis"] is not None:
            k = cfg["excited"][1] - 1
            e = np.asarray(d["cis"])
            gaps = [abs(e[k] - e[j]) for j in (k - 1, k + 1) if 0 <= j < len(e)]
            if gaps and min(gaps) < 1e-3:
                chk.excluded += 1
                stats["degenerate_state"] += 1
                chk.case(key, nontrivial=False, outcome="degenerate-active-state")
                continue
        err, tol = d["err_fd"], res["tol"][mode]
        tf = _tilt_facts(tr, mode)
        if not fd["smooth"]:
            # energies of the stencil are not on one smooth surface.  If that belongs to an axis-aligned atom pair
            # (smooth and in agreement 0.02 rad off the axis) it is the package's doing and is reported; otherwise
            # it is an SCF multi-solution matter outside the statement.
            if err > tol and tf.get("vanishes_when_tilted"):
                chk.case(key, nontrivial=True, outcome=f"{mode[:4]}:rough-on-axis")
                desc = describe(unit, "force_vs_fd", mode, err=err, tol=tol, energy_not_smooth_across_stencil=True,
                                confirmed_with_singles=False, **tf)  # fmt: skip
                chk.violation(
                    desc,
                    f"{key}: max |F + dE/dx| = {err:.3e} eV/A (tolerance {tol:.1e}) and the energy is not smooth across the "
                    f"stencil (second differences disagree by {float(fd['curv'].max()):.1e} eV); 0.02 rad off the axis the surface is "
                    f"smooth and the force agrees to {tf['err_tilted']:.1e}", replay=rp,
                )  # fmt: skip
            else:
                chk.excluded += 1
                stats["rough_stencil"] += 1
                if fd.get("junction"):
                    stats["junction_stencil"] = stats.get("junction_stencil", 0) + 1
                chk.case(key, nontrivial=False, outcome="junction-in-stencil" if fd.get("junction") else "rough-stencil")
            continue
        stats["max_curv"] = max(stats["max_curv"], float(fd["curv"].max()) / (100.0 if cfg["sp2"] else 1.0))
        chk.case(key, nontrivial=True, outcome=f"{mode[:4]}:{L.fmt_err(err)}")
        if d["dE"] > 1e-6 + (1e-4 if cfg["sp2"] else 0.0):
            chk.violation(
                describe(unit, "energy_differs_from_stencil_base", mode, err=d["dE"]),
                f"{key}: Etot of this call differs from Etot of the same geometry in the energy-only batch by {d['dE']:.3e} eV",
                replay=rp,
            )  # fmt: skip
        if err <= tol:
            stats["max_ok"][mode] = max(stats["max_ok"][mode], err / tol)
            if err > stats["worst_ok"][mode][0]:
                stats["worst_ok"][mode] = (err, key)
            continue
        confirmed = d.get("confirm_err") is not None and d["confirm_err"] > tol
        if not confirmed:
            # the batched stencil and the single-molecule stencil disagree: a batching matter (C05), not a force defect
            chk.excluded += 1
            stats["unconfirmed"].append((key, err, d.get("confirm_err")))
            continue
        more = dict(err=err, tol=tol, confirmed_with_singles=True, energy_not_smooth_across_stencil=False)
        others = [(res["modes"][m].get("err_fd"), res["tol"][m]) for m in modes if m != mode and res["modes"][m]["status"] == "ok"]
        more["other_evaluators_ok"] = bool(all(o is not None and o <= t for o, t in others)) if others else None
        if "err_fd_with_floor" in d:
            ef = d["err_fd_with_floor"]
            more["vanishes_with_hpp_floor_in_derivative"] = bool(ef is not None and ef <= tol)
        more.update(tf)
        desc = describe(unit, "force_vs_fd", mode, **more)
        chk.violation(
            desc,
            f"{key}: max |F + dE/dx| = {err:.3e} eV/A (tolerance {tol:.1e}, |F|max {res['fmax']:.2f}) at atom {d['worst'][0]} "
            f"component {'xyz'[d['worst'][1]]}; singles confirm {d['confirm_err']:.3e}"
            + (f"; after a 0.02 rad tilt {tf['err_tilted']:.1e}" if "err_tilted" in tf else "")
            + (f"; with the h_pp floor in w_der {d['err_fd_with_floor']:.1e}" if d.get("err_fd_with_floor") is not None else ""),
            replay=rp,
        )  # fmt: skip
    # pairwise agreement of the evaluators (same tolerance, but without the SP2 allowance: same density in all three)
    okm = [m for m in modes if res["modes"][m]["status"] == "ok" and res["modes"][m]["finite"] and not res["modes"][m]["notconverged"]]
    for i, a in enumerate(okm):
        for b in okm[i + 1 :]:
            da, db = res["modes"][a], res["modes"][b]
            diff = float(np.abs(da["force"] - db["force"]).max())
            internal_fd = (a != "autodiff" or b != "autodiff") and not cfg["excited"]
            tolp = (ATOL_INTERNAL_FD if internal_fd else ATOL) + RTOL * float(np.abs(da["force"]).max())
            key = unit_key(unit, f"{a}~{b}")
            chk.case(key, nontrivial=True, outcome=f"pair:{L.fmt_err(diff)}")
            if diff <= tolp:
                stats["max_pair"] = max(stats["max_pair"], diff / tolp)
                continue
            ev = f"{a}~{b}" if not cfg["excited"] else "analytical~analytical"
            more = dict(err=diff, tol=tolp)
            fa = da.get("force_with_floor", da["force"])
            fb = db.get("force_with_floor", db["force"])
            if "force_with_floor" in da or "force_with_floor" in db:
                more["vanishes_with_hpp_floor_in_derivative"] = bool(float(np.abs(fa - fb).max()) <= tolp)
            chk.violation(
                describe(unit, "evaluators_disagree", f"{a}~{b}", evaluator=ev, **more),
                f"{key}: evaluators differ by {diff:.3e} eV/A (tolerance {tolp:.1e})"
                + (f"; with the h_pp floor in w_der {float(np.abs(fa - fb).max()):.1e}" if "vanishes_with_hpp_floor_in_derivative" in more else ""),
                replay=dict(unit, modes=[a, b]),
            )  # fmt: skip


def _cost(u):
    if "pair" in u["spec"]:
        a, b, _ = u["spec"]["pair"]
        return 2 + M.VALENCE[a] + M.VALENCE[b]
    return len(L.get_named(u["spec"]["mol"])["species"]) + (3 if u.get("cfg", {}).get("excited") else 0)


def run(chk, tier, seed):
    import vp

    vp.warm()
    units = element_lattice(tier, seed) + config_lattice(tier, seed)
    # one case per (unit, evaluator) plus one per evaluator pair of a unit
    chk.planned = sum(len(u.get("modes", MODES)) * (len(u.get("modes", MODES)) + 1) // 2 for u in units)
    # determinism: one sample unit twice in two separate processes must agree bitwise
    probe = dict(lattice="element", method="AM1", spec={"mol": "H2CO", "orient": "generic"}, seed=seed)
    r2 = pmap(run_unit, [probe, probe], chunk=1, timeout=600)
    same = not (is_error(r2[0]) or is_error(r2[1]) or is_timeout(r2[0]) or is_timeout(r2[1]))
    same = same and all(np.array_equal(r2[0]["modes"][m]["force"], r2[1]["modes"][m]["force"]) for m in MODES)
    same = same and np.array_equal(r2[0]["fd"]["F"], r2[1]["fd"]["F"])
    if not same:
        chk.harness_error("the same case executed in two processes did not give bit-identical observations")
        return
    # big units first so that the tail of the pool is short
    order = sorted(range(len(units)), key=lambda i: -_cost(units[i]))
    results = pmap(run_unit, [units[i] for i in order], chunk=4, timeout=900, progress=f"C01 {tier} lattice")
    by_unit = dict(zip(order, results))
    # an exception on a request that is not a documented rejection is re-executed once in a process of its own before
    # it is believed (DESIGN section 9); if it does not come back the observation of the second execution is used
    nonrepro = []
    for _attempt in (1, 2):  # at most two fresh processes per case
        again = [
            i for i, r in by_unit.items()
            if not (is_error(r) or is_timeout(r)) and not r["expected_rejection"]
            and (any(d["status"] == "raised" for d in r["modes"].values()) or r.get("fd", {}).get("status") == "raised")
        ]  # fmt: skip
        for i, r in zip(again, pmap(run_unit, [units[i] for i in again], chunk=1, timeout=900)):
            if is_error(r) or is_timeout(r):
                continue
            first = by_unit[i]
            for m, d in first["modes"].items():
                if d["status"] == "raised" and r["modes"][m]["status"] != "raised":
                    nonrepro.append(f"{unit_key(units[i], m)}: {d['msg'][:120]}")
            if first.get("fd", {}).get("status") == "raised" and r.get("fd", {}).get("status") != "raised":
                nonrepro.append(f"{unit_key(units[i], 'stencil')}: {first['fd']['msg'][:120]}")
            by_unit[i] = r
    chk.extra["exceptions_not_reproduced_in_a_fresh_process"] = nonrepro
    chk.excluded += len(nonrepro)
    # units with an axis-aligned atom pair that disagree with the stencil (or whose stencil is rough) are re-executed
    # 0.02 rad off the axis, so that the descriptor can say whether the disagreement belongs to the orientation itself
    need = []
    for i, u in enumerate(units):
        r = by_unit[i]
        if is_error(r) or is_timeout(r) or r.get("fd", {}).get("status") != "ok":
            continue
        if any(d["status"] == "ok" and d.get("err_fd", 0.0) > r["tol"][m] for m, d in r["modes"].items()) and _has_axis(u):
            need.append(u)
    tilted = pmap(run_unit, [_tilted_unit(u) for u in need], chunk=2, timeout=900, progress="C01 tilted re-runs")
    tilt_cache = {unit_key(u, "*"): t for u, t in zip(need, tilted)}
    stats = {
        "horizon": 0, "notconverged": 0, "degenerate_state": 0, "rough_stencil": 0, "unconfirmed": [],
        "max_ok": {m: 0.0 for m in MODES}, "worst_ok": {m: (0.0, "") for m in MODES}, "max_pair": 0.0, "max_curv": 0.0,
    }  # fmt: skip
    for i, u in enumerate(units):
        judge(chk, u, by_unit[i], stats, tilt_cache)
    walks(chk, tier, seed)
    chk.extra["units"] = len(units)
    cpu = {}
    for i, u in enumerate(units):
        r = by_unit[i]
        if not (is_error(r) or is_timeout(r)):
            cpu[u["lattice"]] = cpu.get(u["lattice"], 0.0) + r.get("cpu", 0.0)
    chk.extra["cpu_seconds_in_package_calls"] = {k: round(v, 1) for k, v in cpu.items()}
    chk.extra["tilted_reruns"] = len(need)
    chk.extra["excluded_breakdown"] = {k: stats[k] for k in ("horizon", "notconverged", "degenerate_state", "rough_stencil")}
    chk.extra["excluded_breakdown"]["batched_stencil_not_confirmed_by_singles"] = len(stats["unconfirmed"])
    chk.extra["unconfirmed_examples"] = [f"{k}: batch {e:.2e}, singles {c}" for k, e, c in stats["unconfirmed"][:5]]
    chk.extra["largest_healthy_error_over_tolerance"] = {m: round(v, 4) for m, v in stats["max_ok"].items()}
    chk.extra["largest_healthy_error"] = {m: f"{v[0]:.2e} at {v[1]}" for m, v in stats["worst_ok"].items()}
    chk.extra["largest_healthy_pairwise_over_tolerance"] = round(stats["max_pair"], 4)
    chk.extra["stencils_excluded_for_a_series_junction_of_the_overlap_code"] = stats.get("junction_stencil", 0)
    chk.extra["largest_accepted_curvature_mismatch_over_limit"] = round(stats["max_curv"] / CURV_MAX, 4)
    chk.extra["tolerance"] = (
        f"autodiff and excited states {ATOL} eV/A, analytical/semi-numerical ground state {ATOL_INTERNAL_FD} eV/A (internal "
        f"delta = 1e-5 A differencing), + {RTOL} |F|max (+ {K_SP2} x {SP2_TOL} with SP2, + {K_CIS} x {CIS_TOL} for excited states); "
        f"h = {H} A; scf_eps = {EPS}"
    )


# ----------------------------------------------------------------------------- objects with a history


def walk_task(item):
    """The force/energy relation must also hold for a Molecule object that has already been evaluated at other
    geometries (as MD and the built-in optimiser do): one object is walked along a bond-stretch path on which
    frontier orbitals change order, carrying density, amplitudes and tracked orbitals; at every point its Etot and
    force are compared with a fresh object at the same geometry and the force with a central difference of fresh
    energies."""
    import torch

    name, method, active, mode, bond, path, rot = item[:7]
    exc_method = item[7] if len(item) > 7 else "cis"
    base = M.apply(M.get(name), M.generic_rot(rot))
    a, b = bond
    u = base["coords"][b] - base["coords"][a]
    u = u / np.linalg.norm(u)
    r0 = float(np.linalg.norm(base["coords"][b] - base["coords"][a]))

    def geom(r):
        m = dict(base)
        c = base["coords"].copy()
        c[b:] = c[b:] + (r - r0) * u  # rigidly shift atom b and everything listed after it
        m["coords"] = c
        return m

    # `active` is one state for the whole walk or one state per point of the path (the state of interest changes along
    # the history, as after a surface hop or when a user asks for another state of a molecule already computed)
    acts = tuple(active) if isinstance(active, (tuple, list)) else (active,) * len(path)

    def params(act):
        p = sp.make_params(method, eps=1e-10, force_mode=mode)
        if any(acts):
            p["excited_states"] = {"n_states": 3, "method": exc_method, "tolerance": 1e-9}
            p["active_state"] = act
        return p

    def fresh(m, act):
        molecule, es = sp.build([m], params(act))
        molecule.verbose = False
        es(molecule)
        return float(molecule.Etot[0]), sp.to_np(molecule.force)[0]

    molecule, es = sp.build([geom(path[0])], params(acts[0]))
    molecule.verbose = False
    worst = {"dE": 0.0, "dF": 0.0, "dFD": 0.0}
    for r, act in zip(path, acts):
        g = geom(r)
        with torch.no_grad():
            molecule.coordinates.copy_(torch.as_tensor(g["coords"]).unsqueeze(0))
        if any(acts):
            molecule.active_state = act
        es(molecule, P0=molecule.dm, cis_amp=molecule.cis_amplitudes)
        E, F = float(molecule.Etot[0]), sp.to_np(molecule.force)[0]
        Ef, Ff = fresh(g, act)
        worst["dE"] = max(worst["dE"], abs(E - Ef))
        worst["dF"] = max(worst["dF"], float(np.abs(F - Ff).max()))
    # derivative along the stretch at the last point, from fresh energies
    h = 2e-3
    e = {k: fresh(geom(path[-1] + k * h), acts[-1])[0] for k in (-2, -1, 1, 2)}
    dEdr = (8 * (e[1] - e[-1]) - (e[2] - e[-2])) / (12 * h)
    Fr = float((F[b:] * u).sum())  # force on the shifted group projected on the stretch direction
    worst["dFD"] = abs(Fr + dEdr)
    return worst


def walks(chk, tier, seed):
    items = []
    for mode in ("analytical", "autodiff"):
        items.append(("H2CO", "AM1", 1, "analytical", (0, 1), (1.2, 1.5, 1.8), seed))
        items.append(("H2CO", "AM1", 0, mode, (0, 1), (1.2, 1.5, 1.8), seed))
    items.append(("H2CO", "AM1", 2, "analytical", (0, 1), (1.2, 1.5, 1.8), seed))
    # every sequence of states of interest {S0, S1, S2} along the path on ONE object
    import itertools

    for acts in itertools.product((0, 1, 2), repeat=3):
        if len(set(acts)) > 1:
            items.append(("H2CO", "AM1", acts, "analytical", (0, 1), (1.2, 1.25, 1.3), seed))
    # RPA (X and Y amplitudes carried by the object), every active state, steps large enough to flip eigenvector phases
    for act in (1, 2, 3):
        items.append(("H2CO", "AM1", act, "analytical", (0, 1), (1.2, 1.35, 1.5), seed, "rpa"))
        items.append(("H2CO", "PM3", act, "analytical", (0, 1), (1.22, 1.37, 1.27), seed, "rpa"))
    if tier != "quick":
        for acts in itertools.product((0, 1, 2), repeat=2):
            if len(set(acts)) > 1:
                items.append(("CH3OH", "AM1", acts, "analytical", (0, 1), (1.42, 1.5), seed))
                items.append(("H2O", "PM3", acts, "analytical", (0, 1), (0.96, 1.05), seed))
        items.append(("CH3OH", "AM1", 1, "analytical", (0, 1), (1.42, 1.7, 2.0), seed))
        items.append(("CH3OH", "PM3", 0, "analytical", (0, 1), (1.42, 1.7, 2.0), seed))
    items = list(dict.fromkeys(items))
    res = pmap(walk_task, items, chunk=1, timeout=1800, progress="C01 objects with a history")
    for it, r in zip(items, res):
        key = f"walk|{it[0]}|{it[1]}|S{it[2]}|{it[3]}|path={it[5]}" + (f"|{it[7]}" if len(it) > 7 else "")
        desc = dict(kind="history_walk", molecule=it[0], method=it[1], active_state=(it[2] if isinstance(it[2], int) else "".join(map(str, it[2]))), mode=it[3])
        if isinstance(r, dict) and ("__error__" in r or "__timeout__" in r):
            chk.violation(desc, f"{key}: {str(r)[:300]}", replay={"walk": list(it)})
            continue
        chk.case(key, nontrivial=True, outcome=f"{r['dF']:.1e}")
        # measured on the healthy tree: dE <= 2.2e-9, dF <= 1.1e-8, |F + dE/dr| <= 3.8e-8 (a stretched triple bond such as
        # HCN at 1.7 A has several SCF solutions and is outside the statement: not in the path alphabet)
        if r["dE"] > 1e-6 or r["dF"] > 1e-5 or r["dFD"] > 1e-5:
            chk.violation(desc, f"{key}: an object with a history differs from a fresh one: dE={r['dE']:.2e} eV, dF={r['dF']:.2e} eV/A; |F + dE/dr| = {r['dFD']:.2e} at the last point", replay={"walk": list(it)})


def replay(payload):
    if isinstance(payload.get("replay"), dict) and payload["replay"].get("walk"):
        it = payload["replay"]["walk"]
        it[4] = tuple(it[4])
        it[5] = tuple(it[5])
        if isinstance(it[2], list):
            it[2] = tuple(it[2])
        r = walk_task(tuple(it))
        print(r)
        return r["dE"] <= 1e-6 and r["dF"] <= 1e-5 and r["dFD"] <= 1e-5
    unit = payload["replay"]
    res = run_unit(unit)
    ok = True
    print("  expected rejection:", res["expected_rejection"])
    if "fd" in res and res["fd"]["status"] == "ok":
        print(f"  stencil: smooth={res['fd']['smooth']} roughness {res['fd']['rough'].max():.2e} curvature mismatch {res['fd']['curv'].max():.2e}")
    for m, d in res["modes"].items():
        if d["status"] != "ok":
            print(f"  {m}: {d['status']} {d.get('msg', '')}")
            ok = ok and bool(res["expected_rejection"])
            continue
        line = f"  {m}: Etot {d['Etot']:.10f} pad|F|max {d['pad_absmax']:.1e}"
        if "err_fd" in d:
            line += f" max|F+dE/dx| {d['err_fd']:.3e} (tol {res['tol'][m]:.1e}) worst atom/comp {d['worst']} singles-confirm {d.get('confirm_err')}"
            if d.get("err_fd_with_floor") is not None:
                line += f" with-hpp-floor {d['err_fd_with_floor']:.3e}"
            if res["fd"].get("junction"):
                line += " [stencil straddles a series junction of the overlap code: the finite difference is no reference here]"
            else:
                ok = ok and d["err_fd"] <= res["tol"][m]
        ok = ok and d["pad_absmax"] == 0.0 and d["finite"]
        print(line)
    ms = [m for m, d in res["modes"].items() if d["status"] == "ok"]
    for i, a in enumerate(ms):
        for b in ms[i + 1 :]:
            diff = float(np.abs(res["modes"][a]["force"] - res["modes"][b]["force"]).max())
            print(f"  {a} ~ {b}: {diff:.3e}")
            ok = ok and diff <= ATOL_INTERNAL_FD + RTOL * float(np.abs(res["modes"][a]["force"]).max())
    return ok
