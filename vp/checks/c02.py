"""C02  Energies are invariant and vector outputs covariant under rigid motions.

Explorer: breadth-first search of the Cayley graph of the octahedral rotation group O (24 states,
generators a = C4(z), b = C3(111), 48 edges) acting on (i) the documentation-layout geometry -- O maps
axes to axes, so every state of that orbit has bonds on +-x, +-y, +-z, the singular sets of the package's
two local->molecular frame rotations -- and (ii) the same geometry after a generic pre-rotation; plus the
cone alphabet (each of the six axis directions tilted by eps in {0,1e-9..1e-3} towards both
perpendiculars) and the translation alphabet.  The geometry of a state is produced by applying ONE
generator to the geometry of an already explored state; every edge is followed, the geometry it produces
must be bitwise the one stored for its target (path independence of the state) and the observations at
its two ends must satisfy the transition relation obs(h.g) = h.obs(g).

Oracle (group-theoretic prediction, never an axis-aligned reference): with ref = the identity of the
generic orbit, every state g.x must give scalars(ref) and R_rel.vectors(ref); net force and net torque
vanish at every state.  All states of one (molecule, method, force mode, electronic state) go through the
package as a few homogeneous batches; before anything is reported the offending geometry and the reference
are re-evaluated as single-molecule calls (a discrepancy that exists only in the batch is C05's business
and is counted, not reported here).
"""
import numpy as np

from ..drivers import molecules as M
from ..drivers import rigid as RG
from ..drivers import sp
from .. import warm
from ..pool import is_error, is_timeout, pmap

PID = "C02"
LEVEL = "model_checking"
RULE = (
    "BFS over the Cayley graph of the octahedral group (24 states, 48 generator edges) applied to the documentation "
    "layout and to a generic pre-rotation of it, plus 90 cone points (6 axes x tilt 0,1e-9..1e-3 x 2 perpendiculars) "
    "and 4 translated states, for every (molecule, method, force mode, electronic state) of the tier; one execution "
    "of the real driver per state (rows of homogeneous batches; offenders re-run as single-molecule calls); a case is "
    "one (configuration, state) and is distinct by its label; all are non-trivial (prediction from the generic-orbit "
    "identity, plus the absolute invariants sum F = 0, sum r x F = 0)"
)
ASSUMPTIONS = [
    "SO(3) is represented by two orbits of the octahedral group, the cones around the six axis directions and three "
    "translations; orientations outside are not decided",
    "molecule alphabet of the tier; neutral molecules (the dipole of an ion is origin dependent); closed shell, plus two "
    "UHF doublets in the thorough tier",
    "CPU, float64; scf_eps 1e-11, CIS/RPA tolerance 1e-9; molecules reported notconverged are excluded and counted",
    "excited-state vectors are compared for the non-degenerate states of H2CO only (degenerate subspaces have no "
    "state-wise covariance); NAC and transition dipoles up to the free sign of each state",
    "rows of a homogeneous batch are used as executions; every reported disagreement was reproduced by "
    "single-molecule calls of both the state and the reference",
]

EPS = 1.0e-11
CIS_TOL = 1.0e-9
# tolerances: K x threshold.  scalars 1000 x scf_eps; autodiff vectors 1e5 x scf_eps (forces are first order in the
# density residual, measured <= 455 eps in DESIGN C04; measured here <= 1.6e-9 sp, 5e-9 PM6); analytical and
# semi-numerical modes contain a central difference of the overlap with step 1e-5 A (anal_grad.delta), measured
# covariance noise <= 6.2e-7 on healthy orientations, hence 1e-5 (the same tolerance C01 grants these modes).
TOL = {
    "autodiff": dict(scalar=1e-8, vector=1e-6, rigid=1e-7, exc_scalar=1e-7, exc_vector=1e-6),
    "analytical": dict(scalar=1e-8, vector=1e-5, rigid=1e-5, exc_scalar=1e-7, exc_vector=1e-6),
    "semi_numerical": dict(scalar=1e-8, vector=1e-5, rigid=1e-5, exc_scalar=1e-7, exc_vector=1e-6),
}
# the same geometry at another batch position (reached by another generator word).  autodiff: 10 x scf_eps (measured
# 1.4e-14).  analytical / semi-numerical: the central difference of the overlap (step 1e-5 A) amplifies last-bit
# differences of vectorised libm calls between batch positions, unit roundoff x |beta S| (<= 100 eV) / 1e-5 A ~ 1e-9
# (measured 3.2e-10), hence 1e-8.
DUP_TOL = {"autodiff": 1e-10, "analytical": 1e-8, "semi_numerical": 1e-8}
D_ELEMENTS = set(range(13, 18)) | set(range(21, 30)) | set(range(33, 36)) | set(range(39, 48)) | set(range(51, 54)) | {57} | set(range(71, 80))
POLE_Z_ANGLE = 1.0e-6  # neighbourhood of the z pole of the polar-angle frame of the d-orbital code (error ~ 3e-14/angle)

_CAY = None


def cay():
    global _CAY
    if _CAY is None:
        _CAY = RG.Cayley()
    return _CAY


# ------------------------------------------------------------------ configurations


def _has(method, name):
    if method == "PM6":
        return True
    return all(z in M.ELEMENTS[method] for z in set(M.get(name)["species"]))


def configs(tier):
    out = []

    def add(mol, method, mode, exc=None, active=0, uhf=False, cutoff=None):
        if _has(method, mol):
            out.append(dict(mol=mol, method=method, mode=mode, exc=exc, active=active, uhf=uhf, cutoff=cutoff))

    sp_methods = ["MNDO", "AM1", "PM3", "PM6_SP"]
    modes = ["autodiff", "analytical", "semi_numerical"]
    if tier == "quick":
        core = ["H2O", "H2CO", "SO2"]
        for mol in core:
            for me in sp_methods:
                for mo in modes:
                    add(mol, me, mo)
        add("HCN", "AM1", "autodiff")
        add("HCN", "PM3", "analytical")
        for mol in ("H2O", "SO2"):
            add(mol, "PM6", "autodiff")
        for mo in ("analytical", "semi_numerical"):
            add("H2O", "PM6", mo)  # expected: rejected by the package
        add("H2CO", "AM1", "analytical", exc="cis", active=1)
        add("H2CO", "PM3", "autodiff", exc="cis", active=0)
        add("H2CO", "AM1", "analytical", exc="rpa", active=1)
        # a finite pair cutoff smaller than the molecule: which pairs interact must not depend on the orientation
        add("CH3OH", "AM1", "autodiff", cutoff=2.0)
    else:
        core = ["H2O", "NH3", "H2CO", "HCN", "SO2", "CH3Cl"]
        for mol in core:
            for me in sp_methods:
                for mo in modes:
                    add(mol, me, mo)
        # wider molecule alphabet in the cheapest mode
        for mol in ("CH3F", "CH3OH", "C2H2", "CO", "H2S", "PH3", "SiH4", "HCl", "HF", "CH4", "AlH3", "BH3", "BeH2", "LiH", "NaH", "MgH2"):
            for me in sp_methods:
                add(mol, me, "autodiff")
        for mol in ("CH3F", "H2S", "PH3"):
            for me in ("AM1", "PM3"):
                add(mol, me, "analytical")
        for mol in ("H2O", "NH3", "H2CO", "HCN", "SO2", "CH3Cl", "H2S", "PH3", "HCl", "SiH4"):
            add(mol, "PM6", "autodiff")
        for mo in ("analytical", "semi_numerical"):
            add("H2O", "PM6", mo)
        for me in ("MNDO", "AM1", "PM3"):
            add("H2CO", me, "analytical", exc="cis", active=1)
            add("H2CO", me, "analytical", exc="cis", active=2)
            add("H2CO", me, "autodiff", exc="cis", active=0)
            add("H2CO", me, "analytical", exc="rpa", active=1)
        add("H2CO", "AM1", "autodiff", exc="cis", active=1)
        for me in ("AM1", "PM3"):
            add("CH3OH", me, "autodiff", cutoff=2.0)
            add("CH3Cl", me, "autodiff", cutoff=2.2)
        # open-shell (UHF) doublets
        for mol in ("CH3", "NH2"):
            for me in ("AM1", "PM3"):
                add(mol, me, "autodiff", uhf=True)
    return out


def ckey(c):
    e = f"{c['exc']}{c['active']}" if c["exc"] else ("UHF" if c.get("uhf") else "S0")
    return f"{c['mol']}|{c['method']}|{c['mode']}|{e}" + (f"|cutoff={c['cutoff']:g}" if c.get("cutoff") else "")


def make_params(c):
    extra = {}
    if c["exc"]:
        extra["excited_states"] = {"n_states": 3, "method": c["exc"], "tolerance": CIS_TOL, "compute_transition_properties": True}
        if c["exc"] == "cis":
            extra["nonadiabatic"] = {"compute_nac": True}
        if c["mode"] == "autodiff" and c["active"] > 0:
            extra["scf_backward"] = 1
    if c.get("cutoff"):
        extra["pair_outer_cutoff"] = float(c["cutoff"])
    return sp.make_params(c["method"], eps=EPS, force_mode=c["mode"], uhf=bool(c.get("uhf")), **extra)


# ------------------------------------------------------------------ the state space of one configuration


def build_states(molname, seed):
    """All states of one molecule: list of dict(label, family, Rrel, coords[, dup_of]); plus the edge lists.
    Rrel is the rotation that takes the reference geometry (generic-orbit identity) to the state."""
    C = cay()
    mol = M.get(molname)
    x0 = mol["coords"]
    G = M.generic_rot(seed)
    xg = x0 @ G.T
    states = []
    geo_doc, n1, bad1 = C.bfs_geometries(x0)
    geo_gen, n2, bad2 = C.bfs_geometries(xg)
    for w in C.order:
        states.append(dict(label=f"doc|{w or 'e'}", family="orbit_doc", Rrel=C.mats[w] @ G.T, coords=geo_doc[w], word=w))
    for w in C.order:
        states.append(dict(label=f"gen|{w or 'e'}", family="orbit_gen", Rrel=C.mats[w].copy(), coords=geo_gen[w], word=w))
    # non-tree edges of the generic orbit: the same state reached by another word, executed at another batch position
    tree = set()
    seen = {""}
    for (s, g, t) in C.edges:
        if t not in seen:
            seen.add(t)
            tree.add((s, g, t))
    for (s, g, t) in C.edges:
        if (s, g, t) not in tree:
            states.append(dict(label=f"gen|{s or 'e'}.{g}->{t or 'e'}", family="dup", Rrel=C.mats[t].copy(),
                               coords=geo_gen[s] @ C.gens[g].T, word=t, dup_of=f"gen|{t or 'e'}"))  # fmt: skip
    for lab, R in RG.cone_rotations(C):
        states.append(dict(label=lab, family="cone", Rrel=R @ G.T, coords=x0 @ R.T))
    for tn, t in RG.TRANSLATIONS.items():
        if tn == "t0":
            continue
        states.append(dict(label=f"doc+{tn}", family="trans_doc", Rrel=G.T.copy(), coords=x0 + t))
        states.append(dict(label=f"gen+{tn}", family="trans_gen", Rrel=np.eye(3), coords=xg + t))
    return mol, states, dict(edges_followed=n1 + n2, inconsistent=bad1 + bad2)


def chunks_of(states):
    """index lists: one package call each (every call also carries the reference as row 0)."""
    fam = lambda f: [i for i, s in enumerate(states) if s["family"] in f]  # noqa: E731
    cone = fam(("cone",))
    h = len(cone) // 2
    return [fam(("orbit_doc",)), fam(("orbit_gen", "trans_gen", "trans_doc")), fam(("dup",)), cone[:h], cone[h:]]


def _ref_index(states):
    return next(i for i, s in enumerate(states) if s["label"] == "gen|e")


def _facts(mol, coords, method):
    f = RG.pair_axis_facts(coords)
    c = np.asarray(coords)
    tilt = 0.0
    n = len(c)
    for i in range(n):
        for j in range(i + 1, n):
            d = c[j] - c[i]
            ang = float(np.arctan2(np.hypot(d[1], d[2]), abs(d[0])))
            if ang < RG.FROZEN_X_ANGLE:
                tilt = max(tilt, ang)
    f["frozen_tilt_x"] = tilt
    f["pole_z"] = bool(f["min_angle_z"] < POLE_Z_ANGLE)
    f["has_d"] = bool(method == "PM6" and any(z in D_ELEMENTS for z in mol["species"]))
    return f


def _sig(o):
    if o["force"] is None:
        return "noforce"
    return "F0=" + ",".join(f"{v:.3f}" for v in o["force"][0])


def _clean(bad):
    return {k: [float(min(v[0], 1e300)), v[1]] for k, v in bad.items()}


def run_task(task):
    """one package call: reference + a chunk of states of one configuration; offenders re-run as singles."""
    c, seed, idx = task["config"], task["seed"], task["idx"]
    mol, states, _ = build_states(c["mol"], seed)
    params = make_params(c)
    tol = TOL[c["mode"]]
    act = c["active"] if c["exc"] else None
    ref_state = states[_ref_index(states)]
    rows = [states[i] for i in idx]
    try:
        obs = RG.evaluate(mol, [ref_state["coords"]] + [r["coords"] for r in rows], params, active_state=act)
    except Exception as e:  # noqa: BLE001 - the package raised: rejected combination or a violation, decided by run()
        return {"raised": f"{type(e).__name__}: {str(e)[:160]}"}
    ref = obs[0]
    out = {"rows": [], "ref_notconverged": bool(ref["notconverged"]), "edges": [], "singles": 0}
    if out["ref_notconverged"]:
        return out
    ref_single = None
    by_label = {}
    for r, o in zip(rows, obs[1:]):
        rec = dict(label=r["label"], family=r["family"], sig=_sig(o), notconverged=bool(o["notconverged"]), bad={}, batch_only={})
        by_label[r["label"]] = o
        out["rows"].append(rec)
        if rec["notconverged"]:
            continue
        bad = RG.compare(o, ref, r["Rrel"], tol)
        if bad:
            rec["facts"] = _facts(mol, r["coords"], c["method"])
            # single-molecule re-evaluation of both ends before anything is reported
            try:
                if ref_single is None:
                    ref_single = RG.evaluate(mol, [ref_state["coords"]], params, active_state=act)[0]
                    out["singles"] += 1
                o1 = RG.evaluate(mol, [r["coords"]], params, active_state=act)[0]
                out["singles"] += 1
                if o1["notconverged"] or ref_single["notconverged"]:
                    rec["notconverged"] = True
                    continue
                bad1 = RG.compare(o1, ref_single, r["Rrel"], tol)
            except Exception as e:  # noqa: BLE001
                bad1 = {"exception": (float("inf"), f"single call raised {type(e).__name__}: {str(e)[:100]}")}
            rec["bad"] = _clean(bad1)
            rec["batch_only"] = _clean({k: v for k, v in bad.items() if k not in bad1})
    # transition relation along the Cayley edges whose two ends are in this chunk: obs(h.g) = h.obs(g)
    C = cay()
    badlab = {rec["label"] for rec in out["rows"] if rec["bad"] or rec["notconverged"]}
    for orbit in ("doc", "gen"):
        for (s, g, t) in C.edges:
            ls, lt = f"{orbit}|{s or 'e'}", f"{orbit}|{t or 'e'}"
            a, b = by_label.get(ls), by_label.get(lt)
            if a is None or b is None or a["notconverged"] or b["notconverged"]:
                continue
            res = RG.edge_residual(a, b, C.gens[g])
            healthy = ls not in badlab and lt not in badlab
            broken = healthy and (res["force"] > 2 * tol["vector"] or res["Etot"] > 2 * tol["scalar"] or res.get("dipole", 0.0) > 2 * tol["vector"])
            out["edges"].append([ls, g, lt, float(res["force"]), float(res["Etot"]), bool(healthy), bool(broken)])
    return out


def run_dup_task(task):
    """path independence: the tree geometry and the geometry produced by every non-tree edge, in one batch."""
    c, seed = task["config"], task["seed"]
    mol, states, _ = build_states(c["mol"], seed)
    params = make_params(c)
    act = c["active"] if c["exc"] else None
    dups = [s for s in states if s["family"] == "dup"]
    tree = {s["label"]: s for s in states if s["family"] == "orbit_gen"}
    need = sorted({d["dup_of"] for d in dups})
    try:
        obs = RG.evaluate(mol, [tree[k]["coords"] for k in need] + [d["coords"] for d in dups], params, active_state=act)
    except Exception as e:  # noqa: BLE001
        return {"raised": f"{type(e).__name__}: {str(e)[:160]}"}
    first = dict(zip(need, obs[: len(need)]))
    out = {"pairs": []}
    for d, o in zip(dups, obs[len(need) :]):
        a = first[d["dup_of"]]
        geo_same = bool(np.array_equal(a["coords"], o["coords"]))
        if a["notconverged"] or o["notconverged"]:
            out["pairs"].append([d["label"], geo_same, None, None])
            continue
        out["pairs"].append([d["label"], geo_same, float(np.max(np.abs(a["Etot"] - o["Etot"]))), float(np.max(np.abs(a["force"] - o["force"])))])
    return out


# ------------------------------------------------------------------ reporting


def _desc(c, seed, rec, kind):
    f = rec["facts"]
    err, name = rec["bad"][kind]
    tilt = f["frozen_tilt_x"]
    return dict(
        molecule=c["mol"], method=c["method"], force_mode=c["mode"], excited=c["exc"] or "none", active_state=c["active"],
        family=rec["family"], state=rec["label"], kind=kind, observable=name, err=float(err), seed=int(seed),
        min_angle_x=f["min_angle_x"], min_angle_y=f["min_angle_y"], min_angle_z=f["min_angle_z"],
        frozen_x=f["frozen_x"], frozen_tilt_x=tilt, frozen_z=f["frozen_z"], pole_z=f["pole_z"], has_d=f["has_d"],
        # error per radian of tilt inside the frozen cone (1e300 when the pair is exactly on the axis or not frozen)
        err_per_tilt=float(min(err / tilt, 1e300)) if tilt > 0 else 1e300,
        confirmed_single=True,
    )  # fmt: skip


def object_walk_task(item):
    """ONE Molecule object is carried along a path of the Cayley graph (its coordinates replaced in place by g.x), as a
    user does who rotates a molecule he has already computed: scalars must stay what they were at the start of the
    walk and vectors must follow the accumulated rotation, whatever the object remembers from earlier evaluations
    (tracked orbitals, amplitudes, density)."""
    import torch

    name, method, exc, active, word, seed = item
    base = M.apply(M.get(name), M.generic_rot(seed))
    c = dict(mol=name, method=method, mode="analytical" if exc else "autodiff", exc=exc, active=active, uhf=False)
    params = make_params(c)
    molecule, es = sp.build([base], params)
    molecule.verbose = False
    if exc:
        molecule.active_state = active
    es(molecule)
    norb = int(4 * molecule.nHeavy[0] + molecule.nHydro[0])  # e_mo is padded on the first evaluation only

    def grab():
        o = {"Etot": float(molecule.Etot[0]), "force": sp.to_np(molecule.force)[0], "e_mo": np.sort(sp.to_np(molecule.e_mo)[0][:norb]),
             "q": sp.to_np(molecule.q)[0], "gap": float(molecule.e_gap[0]), "dipole": sp.to_np(molecule.dipole)[0]}  # fmt: skip
        if exc:
            o["cis"] = sp.to_np(molecule.cis_energies)[0]
            for nm in ("oscillator_strength", "transition_dipole"):
                v = getattr(molecule, nm, None)
                if torch.is_tensor(v):
                    o[nm] = sp.to_np(v)[0]
        return o

    o0 = grab()
    # generators: a = C4(z), b = C3(111) (rotations about the origin), t = a translation
    gens = {"a": np.array([[0.0, -1, 0], [1, 0, 0], [0, 0, 1]]), "b": np.array([[0.0, 0, 1], [1, 0, 0], [0, 1, 0]])}
    shift = np.array([0.37, -0.21, 0.53])
    Rtot, Ttot = np.eye(3), np.zeros(3)
    worst = {"Etot": 0.0, "cis": 0.0, "force": 0.0, "e_mo": 0.0, "q": 0.0, "gap": 0.0, "dipole": 0.0, "osc": 0.0, "tdipole": 0.0}
    where = {}
    neutral = base["charge"] == 0
    for i, g in enumerate(word):
        if g == "t":
            Ttot = Ttot + shift
        else:
            Rtot, Ttot = gens[g] @ Rtot, gens[g] @ Ttot
        with torch.no_grad():
            molecule.coordinates.copy_(torch.as_tensor(base["coords"] @ Rtot.T + Ttot).unsqueeze(0))
        es(molecule)
        o = grab()
        dev = {"Etot": abs(o["Etot"] - o0["Etot"]), "force": float(np.abs(o["force"] - o0["force"] @ Rtot.T).max()),
               "e_mo": float(np.abs(o["e_mo"] - o0["e_mo"]).max()), "q": float(np.abs(o["q"] - o0["q"]).max()),
               "gap": abs(o["gap"] - o0["gap"])}  # fmt: skip
        if neutral:  # the dipole of an ion depends on the origin: only neutral molecules are compared
            dev["dipole"] = float(np.abs(o["dipole"] - o0["dipole"] @ Rtot.T).max())
        if exc:
            dev["cis"] = float(np.abs(o["cis"] - o0["cis"]).max())
            # state-specific vectors are defined only for states that are not degenerate with a neighbour
            e = o0["cis"]
            nd = [j for j in range(len(e)) if all(abs(e[j] - e[k]) > 1e-3 for k in range(len(e)) if k != j)]
            if "oscillator_strength" in o and "oscillator_strength" in o0 and nd:
                dev["osc"] = float(np.abs(o["oscillator_strength"][nd] - o0["oscillator_strength"][nd]).max())
            if "transition_dipole" in o and "transition_dipole" in o0 and nd:
                a_, b_ = o["transition_dipole"], o0["transition_dipole"] @ Rtot.T
                # the overall sign of an eigenvector is not an observable
                dev["tdipole"] = float(max(min(np.abs(a_[j] - b_[j]).max(), np.abs(a_[j] + b_[j]).max()) for j in nd))
        for k, v in dev.items():
            if v > worst[k]:
                worst[k], where[k] = v, word[: i + 1]
    return {"worst": worst, "where": where}


def object_walks(chk, tier, seed):
    words = ["b", "bb", "ab", "ba", "abab", "bbab", "t", "tb", "bt", "atbt"]
    if tier != "quick":
        words += ["aab", "abb", "babab", "aaaa", "tt", "tat", "btab", "abtb"]
    items = []
    for w in words:
        items.append(("H2CO", "AM1", "cis", 1, w, seed))
        items.append(("H2O", "PM3", None, 0, w, seed))
        items.append(("NH3", "AM1", "cis", 1, w, seed))
        if tier != "quick":
            items.append(("H2CO", "AM1", "rpa", 1, w, seed))
    res = pmap(object_walk_task, items, chunk=1, timeout=1200, progress="C02 one object along Cayley-graph paths")
    for it, r in zip(items, res):
        key = f"object_walk|{it[0]}|{it[1]}|{it[2] or 'S0'}{it[3] or ''}|word={it[4]}"
        d = dict(molecule=it[0], method=it[1], force_mode="analytical" if it[2] else "autodiff", excited=bool(it[2]), active_state=it[3], family="object_walk",
                 state=it[4], frozen_x=False, pole_z=False, kind="scalar")  # fmt: skip
        if is_error(r) or is_timeout(r):
            chk.violation(dict(d, kind="exception"), f"{key}: {str(r)[:300]}", replay={"object_walk": list(it)})
            continue
        chk.case(key, nontrivial=True, outcome=f"{max(r['worst'].values()):.0e}")
        chk.traces += 1
        chk.transitions += len(it[4])
        # measured on the healthy tree: Etot 3e-11, excitation energies 2e-9, orbital energies 1e-10, forces 4e-8
        lim = {"Etot": 1e-8, "cis": 1e-7, "e_mo": 1e-7, "force": 1e-5, "q": 1e-7, "gap": 1e-7, "dipole": 1e-6, "osc": 1e-6, "tdipole": 1e-5}
        for k, v in r["worst"].items():
            if v > lim[k]:
                chk.violation(dict(d, kind="scalar" if k != "force" else "force", observable=k, err=float(v)),
                              f"{key}: {k} of the carried object is off by {v:.3e} from the group prediction after the word {r['where'].get(k)}", replay={"object_walk": list(it)})  # fmt: skip


def run(chk, tier, seed):
    warm()  # import torch + seqm once in the parent; the forked children inherit them
    object_walks(chk, tier, seed)
    C = cay()
    cfgs = configs(tier)
    tasks = []
    per_cfg_states = {}
    for c in cfgs:
        if c["mol"] not in per_cfg_states:
            _, st, info = build_states(c["mol"], seed)
            per_cfg_states[c["mol"]] = (st, info)
            if info["inconsistent"]:
                chk.harness_error(f"{c['mol']}: explorer state not path independent along edges {info['inconsistent'][:3]}")
        st, _ = per_cfg_states[c["mol"]]
        for idx in chunks_of(st):
            fam = st[idx[0]]["family"]
            if fam == "dup":
                tasks.append(dict(config=c, seed=seed, dup=True))
            else:
                tasks.append(dict(config=c, seed=seed, idx=idx))
    planned = {ckey(c): len(per_cfg_states[c["mol"]][0]) for c in cfgs}
    # expensive first (PM6, backward through the SCF), so the pool drains evenly
    cost = lambda t: (t["config"]["method"] == "PM6") * 4 + bool(t["config"]["exc"]) * 2  # noqa: E731
    order = sorted(range(len(tasks)), key=lambda i: -cost(tasks[i]))
    results = [None] * len(tasks)
    res = pmap(_dispatch, [tasks[i] for i in order], chunk=1, timeout=1800, progress=f"C02 {tier}")
    for i, r in zip(order, res):
        results[i] = r
    by_cfg = {}
    for t, r in zip(tasks, results):
        by_cfg.setdefault(ckey(t["config"]), []).append((t, r))
    singles = 0
    batch_only = 0
    package_calls = 0
    edge_max = 0.0
    dup_max = {}
    states_total = 0
    for c in cfgs:
        k = ckey(c)
        tr = by_cfg[k]
        st, info = per_cfg_states[c["mol"]]
        broken = [(t, r) for t, r in tr if is_timeout(r) or is_error(r)]
        if broken:
            chk.violation(dict(molecule=c["mol"], method=c["method"], force_mode=c["mode"], excited=c["exc"] or "none", kind="harness",
                               family="all", err=1e300), f"{k}: task did not complete: {str(broken[0][1])[:300]}", replay=dict(config=c, seed=seed, label="gen|e"))  # fmt: skip
            continue
        raised = [(t, r) for t, r in tr if "raised" in r]
        if raised:
            if len(raised) == len(tr) and len({_strip_digits(r["raised"]) for _, r in raised}) == 1:
                chk.rejected += 1  # the package refuses this combination for every orientation, loudly
                planned.pop(k)
                chk.extra.setdefault("rejected_combinations", {})[k] = raised[0][1]["raised"]
                continue
            t, r = raised[0]
            chk.violation(dict(molecule=c["mol"], method=c["method"], force_mode=c["mode"], excited=c["exc"] or "none", kind="exception",
                               family="some", err=1e300), f"{k}: the package raised for some orientations only: {r['raised']}",
                          replay=dict(config=c, seed=seed, label="gen|e"))  # fmt: skip
            continue
        if any(r.get("ref_notconverged") for _, r in tr if "rows" in r):
            chk.excluded += len(st)
            chk.extra.setdefault("reference_notconverged", []).append(k)
            continue
        states_total += sum(1 for s in st if s["family"] != "dup")
        groups = {}
        for t, r in tr:
            package_calls += 1
            if t.get("dup"):
                for lab, same, dE, dF in r["pairs"]:
                    chk.traces += 1
                    if dE is None:
                        chk.excluded += 1
                        continue
                    chk.case(f"{k}|{lab}", nontrivial=True, outcome="dup")
                    dup_max[c["mode"]] = max(dup_max.get(c["mode"], 0.0), dE, dF)
                    if not same:
                        chk.harness_error(f"{k}: {lab} geometry differs from the tree geometry")
                    if max(dE, dF) > DUP_TOL[c["mode"]]:
                        chk.violation(dict(molecule=c["mol"], method=c["method"], force_mode=c["mode"], excited=c["exc"] or "none",
                                           kind="path", family="dup", state=lab, err=float(max(dE, dF)), frozen_x=False, pole_z=False),
                                      f"{k} {lab}: the same geometry reached by two generator words gives different results "
                                      f"(dE={dE:.2e}, dF={dF:.2e})", replay=dict(config=c, seed=seed, label=lab))  # fmt: skip
                continue
            singles += r["singles"]
            for ls, g, lt, rF, rE, healthy, broken in r["edges"]:
                chk.transitions += 1
                if healthy:
                    edge_max = max(edge_max, rF)
                if broken:  # cannot happen while both ends satisfy the state oracle (triangle inequality); kept as a cross-check
                    chk.violation(dict(molecule=c["mol"], method=c["method"], force_mode=c["mode"], excited=c["exc"] or "none",
                                       kind="edge", family="edge", state=f"{ls}-{g}->{lt}", err=float(max(rF, rE)), frozen_x=False, pole_z=False),
                                  f"{k}: transition relation obs(h.g) = h.obs(g) broken along {ls} -{g}-> {lt} (dF={rF:.2e}, dE={rE:.2e})",
                                  replay=dict(config=c, seed=seed, label=lt))  # fmt: skip
            for rec in r["rows"]:
                if rec["notconverged"]:
                    chk.excluded += 1
                    continue
                chk.traces += 1
                chk.case(f"{k}|{rec['label']}", nontrivial=True, outcome=",".join(sorted(rec["bad"])) + "|" + rec["sig"])
                batch_only += 1 if rec["batch_only"] and not rec["bad"] else 0
                for kind in rec["bad"]:
                    d = _desc(c, seed, rec, kind)
                    gk = (rec["family"], kind, d["frozen_x"], d["pole_z"], d["frozen_tilt_x"] > 0)
                    groups.setdefault(gk, []).append(d)
        # one report per (configuration, family, observable kind, singular-set class): worst state + counts
        for gk, ds in sorted(groups.items(), key=lambda kv: str(kv[0])):
            worst = max(ds, key=lambda d: d["err"])
            desc = dict(worst)
            desc["n_states"] = len(ds)
            finite = [d["err_per_tilt"] for d in ds]
            desc["err_per_tilt"] = float(max(finite))
            desc["err"] = float(worst["err"])
            detail = (
                f"{k} seed={seed} {worst['family']} {worst['state']}: {worst['kind']} ({worst['observable']}) off by {worst['err']:.3e} "
                f"from the group prediction in {len(ds)} state(s); min pair angle to x {worst['min_angle_x']:.2e}, to z "
                f"{worst['min_angle_z']:.2e}; frozen_x={worst['frozen_x']} pole_z={worst['pole_z']}"
            )
            chk.violation(desc, detail, replay=dict(config=c, seed=seed, label=worst["state"]))
    chk.states = states_total
    chk.planned = sum(planned.values())
    chk.extra.update(
        package_calls=package_calls, single_molecule_reruns=singles, batch_only_discrepancies=batch_only,
        max_edge_residual_force_healthy=edge_max, max_duplicate_state_difference=dup_max, configurations=len(cfgs),
        generic_rotation=int(seed) % len(M.GENERIC_ROTS), group_order=len(C.words), group_edges=len(C.edges),
    )  # fmt: skip


def _strip_digits(msg):
    return "".join(ch for ch in msg if not ch.isdigit())


def _dispatch(task):
    return run_dup_task(task) if task.get("dup") else run_task(task)


def replay(payload):
    r = payload["replay"]
    if isinstance(r, dict) and r.get("object_walk"):
        out = object_walk_task(tuple(r["object_walk"]))
        print(out)
        lim = {"Etot": 1e-8, "cis": 1e-7, "e_mo": 1e-7, "force": 1e-5, "q": 1e-7, "gap": 1e-7, "dipole": 1e-6, "osc": 1e-6, "tdipole": 1e-5}
        return all(v <= lim[k] for k, v in out["worst"].items())
    c, seed, label = r["config"], r["seed"], r["label"]
    mol, states, _ = build_states(c["mol"], seed)
    params = make_params(c)
    act = c["active"] if c["exc"] else None
    ref_state = states[_ref_index(states)]
    st = next(s for s in states if s["label"] == label)
    if st["family"] == "dup":  # path independence: re-run the batch that holds the tree row and every non-tree row
        ok = True
        for lab, same, dE, dF in run_dup_task(dict(config=c, seed=seed))["pairs"]:
            if lab == label:
                print(f"  {ckey(c)} {lab}: same geometry {same}, dE={dE}, dF={dF} (tolerance {DUP_TOL[c['mode']]:g})")
                ok = bool(same) and dE is not None and max(dE, dF) <= DUP_TOL[c["mode"]]
        return ok
    ref = RG.evaluate(mol, [ref_state["coords"]], params, active_state=act)[0]
    o = RG.evaluate(mol, [st["coords"]], params, active_state=act)[0]
    bad = RG.compare(o, ref, st["Rrel"], TOL[c["mode"]])
    f = _facts(mol, st["coords"], c["method"])
    print(f"  {ckey(c)} {label}: min angle to x {f['min_angle_x']:.3e}, to z {f['min_angle_z']:.3e}, frozen_x={f['frozen_x']} pole_z={f['pole_z']}")
    for k, (e, n) in sorted(bad.items()):
        print(f"   {k:9s} {n:22s} off by {e:.3e}")
    fs, tq = RG.rigid_invariants(o)
    print(f"   net force {np.abs(fs).max():.2e}  net torque {np.abs(tq).max():.2e}")
    return not bad
