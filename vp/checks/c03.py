"""C03  A converged SCF result is self-consistent; failure is flagged; calls terminate.

Explorer (S-env + S-lat): three exhaustive product lattices of calls of the real
Electronic_Structure driver,

  A  padding lattice      every ordered batch (size <= 2 quick / <= 3 thorough) of
                          {CH4, H2O, OH-, NH4+, H2CO, CH3(UHF)} x solver x {diag, SP2 tol} x scf_eps,
                          default start density, full iteration cap;
  B  environment lattice  fixed batches x solver x {diag, SP2} x scf_eps x start density
                          {default guess, density of a neighbouring geometry, that density plus a
                          symmetric non-idempotent 1e-2 matrix} x iteration cap {1,2,3,5,1000}
                          (the harness answers `scf_loop.MAX_ITER`, which the solvers read at call time);
  C  method lattice       {MNDO, PM3, PM6_SP} x 3 batches x 2 solvers x {diag, SP2} x 2 eps.

Oracle on every molecule of every call that is reported converged: residuals of the RETURNED
density (vp.oracles.scf_residuals, numpy; F rebuilt with the package's hcore+fock).  Every call
runs under a per-invocation iteration horizon; a trip is the violation "does not terminate".
`notconverged == True` is always accepted (and counted as excluded).
"""
import copy
import math
import time
import traceback

import numpy as np

from ..drivers import molecules as M
from ..drivers import sp
from ..oracles import scf_residuals as SR
from ..pool import is_error, is_timeout, pmap

PID = "C03"
LEVEL = "exploration"
RULE = (
    "product lattices of real single-point calls: (A) every ordered batch of the 6-molecule alphabet up to the tier's "
    "batch size x 6 density solvers x {diagonalisation, SP2 tolerances} x scf_eps; (B) fixed batches x solver x "
    "{diag, SP2} x scf_eps x 3 start densities x iteration cap {1,2,3,5,1000} set by the harness; (C) other methods on "
    "a sub-lattice.  One call per lattice point under a per-invocation iteration horizon; a case is non-trivial when at "
    "least one molecule of the call is reported converged (its returned density is then checked) or the call did not "
    "return; distinct = distinct lattice point"
)
ASSUMPTIONS = [
    "CPU, float64; s/p-basis methods only (AM1 on the full lattice, MNDO/PM3/PM6_SP on a sub-lattice); PM6 d-orbitals not covered",
    "the package's hcore() and fock()/fock_u_batch() are trusted as the definition of F(P) (the property is relative to them; "
    "their correctness is C06's subject); everything else is numpy on the returned density",
    "termination is decided as an iteration bound (per invocation: 3000 SP2 purification steps, 20 x (cap+2) SCF passes), "
    "not as a wall-clock bound; the pool's wall-clock kill is a backstop only",
    "molecules off the 6-molecule alphabet and batches larger than 3 are not explored",
]

# N2 has the orbital count of CH4/NH4+ (8) with another heavy/hydrogen split: the pack/unpack fast path must not merge them
MOLS = ["CH4", "H2O", "OH-", "NH4+", "H2CO", "CH3", "N2"]
# molecules of the open-shell padding lattice E only (kept out of the shared alphabet): radical anions, whose singly
# occupied level lies above 0 eV, i.e. above the value an unshifted padding orbital would have
_H2 = dict(species=[1, 1], coords=np.array([[0.0, 0.0, 0.0], [0.74, 0.0, 0.0]]), charge=0, mult=1)
LOCAL = {
    "H2O-": dict(M.MOLS["H2O"], charge=-1, mult=2),
    "NH3-": dict(M.MOLS["NH3"], charge=-1, mult=2),
    # a spin channel without any electron (the beta channel of a one-electron doublet / of triplet H2)
    "H2+": dict(_H2, charge=1, mult=2),
    "H2(T)": dict(_H2, mult=3),
    # two hydrogen atoms 30 A apart as a restricted singlet: HOMO and LUMO are exactly degenerate (lattice F)
    "H..H": dict(_H2, coords=np.array([[0.0, 0.0, 0.0], [30.0, 0.0, 0.0]])),
}


def _m(n):
    return LOCAL[n] if n in LOCAL else M.MOLS[n]


def _get(n):
    m = _m(n)
    return {"species": list(m["species"]), "coords": m["coords"].copy(), "charge": m["charge"], "mult": m["mult"], "name": n}
KSA = [3, {"max_rank": 2, "err_threshold": 0.0, "T_el": 1500}]
SOLVERS = {
    "fixed0": [0, 0.0],
    "fixed0.3": [0, 0.3],
    "fixed0.7": [0, 0.7],
    "adaptive": [1],
    "pulay": [2],
    "ksa": KSA,
}
MIX = {"fixed0.3": 0.3, "fixed0.7": 0.7}
CAPS = [1, 2, 3, 5, 1000]
EPS = [1e-4, 1e-6, 1e-8, 1e-10]
SP2_TOLS = [1e-3, 1e-5, 1e-7]
INITS = ["default", "neighbour", "perturbed"]

# tolerance constants: (closed shell, UHF).  Measured on the healthy tree over the whole thorough lattice
# (max ratio closed shell |P-D| 13, commutator 189; UHF, whose stopping rule only sees the spin-summed
# density, 101 and 1641; all flat in eps) -> >= 10 x head-room.  A sqrt(eps) stopping rule has ratio
# 1e3 ... 1e5 at eps 1e-8 ... 1e-10.
K_PD = (300.0, 1000.0)
K_COMM = (5000.0, 20000.0)
K_IDEM = 100.0
TOL_SYM = 1e-12
TOL_EELEC = 1e-10
SP2_HORIZON = 3000  # purification steps per SP2 invocation (healthy: <= 60)
OTHER_HORIZON = 20000  # any other traced loop (integral set-up loops of cal_par.py are finite for-loops)


def horizon_limits(cap):
    """per-invocation loop-header budgets: 20 x the nominal cap for the SCF pass loops"""
    lim = {"SP2": SP2_HORIZON}
    for fn in SR.DEFAULT_TARGETS["scf_loop.py"]:
        if fn.startswith("scf_forward"):
            lim[fn] = 20 * (int(cap) + 2) * (4 if fn == "scf_forward3" else 1)
    return lim

_NB_CACHE = {}


def _geom(names, seed, displaced=False):
    R = M.generic_rot(seed)
    out = []
    for j, n in enumerate(names):
        m = M.apply(_get(n), R)
        if displaced:
            k = np.arange(len(m["species"]), dtype=float)[:, None]
            ph = np.array([[1.1, 2.3, 3.7]]) * (k + 1.0) + 0.9 * seed + 0.5 * j
            m["coords"] = m["coords"] + 0.03 * np.cos(ph)
        out.append(m)
    return out


def _uhf(names):
    return any(_m(n)["mult"] != 1 for n in names)


def _params(case):
    return sp.make_params(
        case["method"], "adaptive", case["eps"], sp2=case["sp2"], uhf=_uhf(case["batch"]),
        scf_converger=copy.deepcopy(SOLVERS[case["solver"]]),
    )  # fmt: skip


def _neighbour_density(case):
    """tight diagonalisation density of the same batch at a geometry displaced by 0.03 A per coordinate"""
    key = (tuple(case["batch"]), case["method"], case["seed"])
    if key not in _NB_CACHE:
        _NB_CACHE.clear()  # keep one entry: cases are ordered so that a batch's cases are adjacent
        p = sp.make_params(case["method"], "adaptive", 1e-10, uhf=_uhf(case["batch"]))
        o = sp.single_point(_geom(case["batch"], case["seed"], displaced=True), p, names=["dm"], do_force=False)
        # any density is a legitimate start density; an unconverged one (possible on a broken tree) is used as it is
        _NB_CACHE[key] = o["dm"]
    return _NB_CACHE[key].copy()


def run_case(case):
    """one call of the real driver under the iteration horizon; returns a small picklable dict"""
    import torch
    import seqm.seqm_functions.scf_loop as SL

    names = case["batch"]
    params = _params(case)
    P0 = None
    if case["init"] != "default":
        P0 = _neighbour_density(case)
    t0 = time.process_time()
    molecule, es = sp.build(_geom(names, case["seed"]), params)
    molecule.verbose = False
    if case["init"] == "perturbed":
        P0 = P0 + SR.perturbation(molecule, P0.shape, 1e-2)
    old_cap = SL.MAX_ITER
    SL.MAX_ITER = int(case["cap"])
    h = SR.CallHorizon(limit=OTHER_HORIZON, limits=horizon_limits(case["cap"]))
    out = {"status": "ok"}
    try:
        try:
            with h:
                if P0 is None:
                    es(molecule, do_force=False)
                else:
                    es(molecule, P0=torch.as_tensor(P0).clone(), do_force=False)
        except SR.IterationHorizon as e:
            out = {"status": "horizon", "loop": f"{h.tripped[0][:-3]}.{h.tripped[1]}", "msg": str(e)}
        except Exception as e:  # noqa: BLE001 - the package's own rejections and crashes are observations
            tb = traceback.extract_tb(e.__traceback__)[-1]
            out = {
                "status": "exception", "exc": type(e).__name__, "msg": str(e)[:160],
                "where": f"{tb.filename.split('/')[-1]}:{tb.name}",
            }  # fmt: skip
    finally:
        SL.MAX_ITER = old_cap
    out["t"] = time.process_time() - t0
    # SCF passes = executions of the outermost (pass) loop header of the scf_forwardN that ran
    passes = 0
    for (f, fn, ln), n in h.counts.items():
        if fn.startswith("scf_forward") and ln in SR.top_level_loops(SL.__file__, fn):
            passes = max(passes, n)
    out["scf_passes"] = passes
    out["sp2_max"] = h.max_per_call
    if out["status"] != "ok":
        return out
    nc = sp.to_np(es.notconverged).astype(bool)
    out["nc"] = nc.tolist()
    dm = sp.to_np(molecule.dm)
    out["res"] = SR.residuals(molecule, dm, sp.to_np(molecule.Eelec), sp.to_np(molecule.q))
    return out


# ------------------------------------------------------------------ oracle


def tolerances(case, uhf, norb):
    eps = case["eps"]
    s2 = case["sp2"] or 0.0
    a = MIX.get(case["solver"], 0.0)
    t = max(eps, s2)
    # trace: linear mixing P <- a P + (1-a) D carries the trace error of the start density (ionic charge in the
    # default guess, a traceful perturbation) as a^k; the element test |dP|_max <= 15 eps of the stopping rule bounds
    # what is left at the stop by 15 * norb * eps * a / (1 - a).  Without mixing the trace is that of D (exact, or the
    # SP2 tolerance).  Measured: <= 2.5 eps (a = 0.7, perturbed start), <= 0.2 of the bound used.
    tr = max(1e-9, 10.0 * s2, eps * max(1.0, 15.0 * norb * a / (1 - a)))
    return {
        "sym": TOL_SYM,
        "leak": TOL_SYM,
        "trace": tr,
        "qsum": tr,
        "qpad": TOL_SYM,
        "idem": K_IDEM * t / (1 - a),
        "pd": K_PD[uhf] * t / (1 - a),
        "comm": K_COMM[uhf] * eps / (1 - a),
        "eelec": TOL_EELEC,
    }


def judge(case, out):
    """-> list of (mol index, residual name, value, tolerance) for molecules reported converged"""
    bad = []
    uhf = _uhf(case["batch"])
    for i, (nc, r) in enumerate(zip(out["nc"], out["res"])):
        if nc:
            continue
        tol = tolerances(case, uhf, r["norb"])
        if not r["finite"]:
            bad.append((i, "finite", float("nan"), 0.0))
            continue
        for k, t in tol.items():
            if k == "pd" and r["gap"] < 1e-3:
                continue
            v = r.get(k)
            if v is None:
                continue
            if not (v <= t):
                bad.append((i, k, float(v), float(t)))
    return bad


def _batch_facts(names):
    mols = [_m(n) for n in names]
    norb = [sum(4 if z > 1 else 1 for z in m["species"]) for m in mols]
    nmax = max(norb)
    apo = max([nmax - no for m, no in zip(mols, norb) if m["charge"] < 0] or [0])
    return {
        "nmol": len(names),
        "padded": len(set(norb)) > 1,
        "hetero": len({tuple(m["species"]) for m in mols}) > 1,
        "has_anion": any(m["charge"] < 0 for m in mols),
        "anion_pad_orbitals": int(apo),
        "uhf": _uhf(names),
    }


def _desc(case, kind, **more):
    d = {
        "kind": kind, "lattice": case["lattice"], "method": case["method"], "solver": case["solver"],
        "sp2": case["sp2"] is not None, "sp2_tol": case["sp2"] or 0.0, "eps": case["eps"], "init": case["init"],
        "cap": case["cap"], "batch": "+".join(case["batch"]),
    }  # fmt: skip
    d.update(_batch_facts(case["batch"]))
    d.update(more)
    return d


def _key(c):
    return (
        f"{c['lattice']}|{c['method']}|{'+'.join(c['batch'])}|{c['solver']}|sp2={c['sp2']}|eps={c['eps']:g}"
        f"|{c['init']}|cap={c['cap']}"
    )


# ------------------------------------------------------------------ lattices


def _batches(maxsize):
    out = [(a,) for a in MOLS]
    out += [(a, b) for a in MOLS for b in MOLS if a != b]
    if maxsize >= 3:
        out += [(a, b, c) for a in MOLS for b in MOLS for c in MOLS if len({a, b, c}) == 3]
    return out


def _lattice(tier, seed):
    cases = []

    def add(lattice, method, batch, solver, sp2, eps, init, cap):
        if solver == "ksa" and sp2 is not None:
            return  # scf_forward3 never reads the sp2 setting: same execution as sp2=None
        cases.append(dict(lattice=lattice, method=method, batch=list(batch), solver=solver, sp2=sp2, eps=eps,
                          init=init, cap=cap, seed=int(seed)))  # fmt: skip

    quick = tier == "quick"
    # A: padding lattice
    eigs = [None, 1e-5] if quick else [None] + SP2_TOLS
    epsA = EPS
    for b in _batches(2 if quick else 3):
        for s in SOLVERS:
            for x in eigs:
                for e in epsA:
                    add("A", "AM1", b, s, x, e, "default", 1000)
    # B: environment lattice
    if quick:
        bB = [("H2CO",), ("CH4", "H2O"), ("NH4+", "OH-"), ("CH3", "H2O")]
        eigB = [None, 1e-7]
        epsB = [1e-4, 1e-8, 1e-10]
    else:
        bB = [("H2CO",), ("OH-",), ("CH3",), ("CH4", "H2O"), ("NH4+", "OH-"), ("CH3", "H2O"), ("H2O", "H2CO", "NH4+"),
              ("OH-", "CH3", "CH4")]  # fmt: skip
        eigB = [None] + SP2_TOLS
        epsB = EPS
    for b in bB:
        for init in INITS:
            for s in SOLVERS:
                for x in eigB:
                    for e in epsB:
                        for cap in CAPS:
                            if init == "default" and cap == 1000 and not quick:
                                continue  # already in A
                            add("B", "AM1", b, s, x, e, init, cap)
    # C: other methods
    for meth in ("MNDO", "PM3", "PM6_SP"):
        for b in (("CH4", "OH-"), ("H2O", "H2CO"), ("NH4+",)) + (() if quick else (("OH-", "CH3"), ("H2CO", "CH4", "OH-"))):
            for s in ("adaptive", "pulay") if quick else tuple(SOLVERS):
                for x in (None, 1e-5):
                    for e in (1e-6, 1e-10):
                        add("C", meth, b, s, x, e, "default", 1000)
    # D: every iteration cap from 6 up to past convergence: somewhere in the sweep the cap falls between the iteration
    #    counts of the two molecules, so one is frozen as converged while the other runs into the cap
    #    (N2 / SO2 are the fastest / slowest converging members of the alphabet: 5 vs 13 adaptive passes, 7 vs 12 KSA,
    #    8 vs 14 Pulay, 16 vs 29 fixed mixing at eps 1e-6, so a wide band of caps splits the batch)
    capsD = range(4, 31) if quick else range(3, 61)
    for b in (("N2", "SO2"), ("H2CO", "OH-")) + (() if quick else (("SO2", "CH4"), ("CH3", "H2O"), ("N2", "H2CO", "NH4+"))):
        for s in ("fixed0.3", "adaptive", "pulay", "ksa") if quick else tuple(SOLVERS):
            for e in (1e-6,) if quick else (1e-4, 1e-6, 1e-8):
                for cap in capsD:
                    add("D", "AM1", b, s, None, e, "default", cap)
    # E: open-shell batches whose padded member is an anion / radical anion, in every position
    bE = [("SO2", "H2O-"), ("H2O-", "SO2"), ("H2CO", "H2O-"), ("H2CO", "NH3-"), ("SO2", "CH3", "OH-"), ("H2CO", "H2O-", "OH-")]
    bE += [("H2+",), ("H2(T)",), ("H2O", "H2+"), ("H2(T)", "CH3"), ("H2+", "H2(T)")]
    if not quick:
        bE += [("SO2", "H2(T)", "H2+"), ("H2+", "H2O-"), ("OH-", "H2(T)")]
        bE += [("NH3-", "H2CO"), ("SO2", "NH3-", "H2O-"), ("CH3", "H2O-"), ("H2O-", "H2CO", "NH3-"), ("SO2", "OH-", "H2O-")]
    for b in bE:
        for s in ("fixed0.3", "adaptive", "ksa") if quick else tuple(SOLVERS):
            for e in (1e-6, 1e-10) if quick else EPS:
                add("E", "AM1", b, s, None, e, "default", 1000)
    # F: exactly degenerate frontier levels (no gap): the purification cannot reach the requested trace and the SCF has no
    #    stable closed-shell fixed point; whatever comes back as converged must still be self-consistent, a failure must be
    #    flagged (or refused loudly by the purification), alone and as the padded member of a batch
    for b in (("H..H",), ("H2O", "H..H"), ("H..H", "H2O")):
        for s in ("fixed0.3", "adaptive", "pulay"):
            for x in (None, 1e-5) if quick else (None, 1e-5, 1e-7):
                for e in (1e-6,) if quick else (1e-6, 1e-10):
                    add("F", "AM1", b, s, x, e, "default", 60)
    # adjacent cases share the batch (neighbour-density cache)
    cases.sort(key=lambda c: (c["init"] == "default", c["method"], c["batch"]))
    return cases


# ------------------------------------------------------------------ run


EXPECTED_REJECTIONS = (
    ("ValueError", "SP2 + open"),
    ("NotImplementedError", "not yet implemented for unrestricted"),
)


def _is_rejection(case, out):
    if case["lattice"] == "F" and case["sp2"] is not None and out["exc"] == "RuntimeError" and "SP2 did not converge" in out["msg"]:
        return True  # loud refusal of a purification that cannot split the degenerate set (never a silent result)
    if not _uhf(case["batch"]):
        return False
    return any(out["exc"] == t and frag in out["msg"] for t, frag in EXPECTED_REJECTIONS)


def _evaluate(chk, case, out, stats):
    k = _key(case)
    if is_timeout(out):
        chk.case(k, nontrivial=True, outcome="wallclock")
        chk.violation(_desc(case, "wallclock"), f"{k}: call killed by the wall-clock backstop (iteration horizon did not trip)", replay=case)
        return
    if is_error(out):
        chk.harness_error(f"{k}: {out['__error__']}")
        return
    stats["t"] += out["t"]
    if out["status"] == "horizon":
        chk.case(k, nontrivial=True, outcome=("horizon", out["loop"]))
        chk.violation(_desc(case, "horizon", loop=out["loop"]), f"{k}: does not terminate: {out['msg']}", replay=case)
        return
    if out["status"] == "exception":
        if _is_rejection(case, out):
            chk.rejected += 1
            chk.case(k, nontrivial=False, outcome=("rejected", out["exc"]))
            return
        chk.case(k, nontrivial=True, outcome=("exception", out["exc"], out["where"]))
        chk.violation(
            _desc(case, "exception", exc=out["exc"], where=out["where"]),
            f"{k}: valid request raised {out['exc']}: {out['msg']} [{out['where']}]", replay=case,
        )  # fmt: skip
        return
    nconv = sum(1 for f in out["nc"] if not f)
    if 0 < nconv < len(out["nc"]):
        stats["split_calls"] = stats.get("split_calls", 0) + 1  # one call, some rows converged and some capped
    stats["mol_conv"] += nconv
    stats["mol_notconv"] += len(out["nc"]) - nconv
    chk.excluded += len(out["nc"]) - nconv
    if case["cap"] == 1000 and nconv < len(out["nc"]):
        stats["notconv_full_cap"] += 1
    bad = judge(case, out)
    # the cap is an environment answer: the SCF pass loop may not run past it
    cap_bad = out["scf_passes"] > case["cap"] + 2
    sig = ("ok", tuple(out["nc"]), tuple(sorted({b[1] for b in bad})), cap_bad)
    chk.case(k, nontrivial=nconv > 0, outcome=sig)
    for r, nc in zip(out["res"], out["nc"]):
        if nc:
            continue
        a = MIX.get(case["solver"], 0.0)
        t = max(case["eps"], case["sp2"] or 0.0)
        if case["solver"] != "ksa":
            u = "uhf" if _uhf(case["batch"]) else "rhf"
            stats[f"max_pd_ratio_{u}"] = max(stats[f"max_pd_ratio_{u}"], r["pd"] * (1 - a) / t)
            stats[f"max_comm_ratio_{u}"] = max(stats[f"max_comm_ratio_{u}"], r["comm"] * (1 - a) / case["eps"])
            stats["max_trace_ratio"] = max(stats["max_trace_ratio"], r["trace"] / tolerances(case, False, r["norb"])["trace"])
            stats["max_idem_ratio"] = max(stats["max_idem_ratio"], r["idem"] * (1 - a) / t)
        stats["max_eelec"] = max(stats["max_eelec"], r["eelec"])
    if cap_bad:
        chk.violation(
            _desc(case, "cap_ignored", scf_passes=out["scf_passes"]),
            f"{k}: SCF pass loop executed {out['scf_passes']} times with iteration cap {case['cap']}", replay=case,
        )  # fmt: skip
    seen = set()
    for i, name, v, t in bad:
        if (i, name) in seen:
            continue
        seen.add((i, name))
        mol = case["batch"][i]
        r = out["res"][i]
        chk.violation(
            _desc(case, "residual", residual=name, mol=mol, pos=i, mol_charge=_m(mol)["charge"], mol_pad_orbitals=r["npad"] * 4,
                  ratio=(v / t if t > 0 else float("inf"))),
            f"{k}: molecule {i} ({mol}) reported converged but {name} = {v:.3e} > {t:.3e}", replay=case,
        )  # fmt: skip


def run(chk, tier, seed):
    import vp

    vp.warm()
    cases = _lattice(tier, seed)
    chk.planned = len(cases)
    # determinism: one sample case twice in two separate processes
    sample = dict(lattice="A", method="AM1", batch=["H2CO", "OH-"], solver="pulay", sp2=None, eps=1e-8, init="perturbed",
                  cap=1000, seed=int(seed))  # fmt: skip
    two = pmap(run_case, [sample, sample], chunk=1, timeout=300)
    if any(is_error(x) or is_timeout(x) for x in two) or two[0].get("res") != two[1].get("res"):
        chk.harness_error(f"same case in two processes disagrees or failed: {str(two)[:300]}")
        return
    results = pmap(run_case, cases, chunk=12, timeout=240, progress=f"C03 {tier}")
    stats = dict(t=0.0, mol_conv=0, mol_notconv=0, notconv_full_cap=0, max_pd_ratio_rhf=0.0, max_pd_ratio_uhf=0.0,
                 max_comm_ratio_rhf=0.0, max_comm_ratio_uhf=0.0, max_trace_ratio=0.0, max_idem_ratio=0.0, max_eelec=0.0)  # fmt: skip
    for c, o in zip(cases, results):
        _evaluate(chk, c, o, stats)
    chk.extra["calls_with_split_outcome"] = stats.get("split_calls", 0)
    chk.extra["molecules_checked_converged"] = stats["mol_conv"]
    chk.extra["molecules_flagged_notconverged"] = stats["mol_notconv"]
    chk.extra["calls_notconverged_at_full_cap"] = stats["notconv_full_cap"]
    chk.extra["cpu_s_in_calls"] = round(stats["t"], 1)
    chk.extra["healthy_margin"] = {
        k: (None if not math.isfinite(v) else float(f"{v:.4g}")) for k, v in stats.items() if k.startswith("max_")
    }
    chk.extra["tolerance_constants"] = {"K_pd": K_PD, "K_comm": K_COMM, "K_idem": K_IDEM, "sym": TOL_SYM, "eelec": TOL_EELEC}


def replay(payload):
    c = payload["replay"]
    out = run_case(c)
    print("  status:", out["status"], {k: v for k, v in out.items() if k in ("loop", "msg", "exc", "where", "scf_passes", "nc")})
    if out["status"] != "ok":
        return out["status"] == "exception" and _is_rejection(c, out)
    bad = judge(c, out)
    for i, name, v, t in bad:
        print(f"   molecule {i} ({c['batch'][i]}): {name} = {v:.3e} > {t:.3e}")
    cap_bad = out["scf_passes"] > c["cap"] + 2
    if cap_bad:
        print(f"   SCF pass loop executed {out['scf_passes']} times with cap {c['cap']}")
    return not bad and not cap_bad
