"""C16  CIS/RPA excited states are true eigenpairs of the response problem.

Explorer: (S-lat) exhaustive product lattice molecule x n_states x tolerance x method x orbital window x
batch composition x scripted memory answer, and (S-seq) breadth-first enumeration of all sequences (depth 3)
of solves over 3 nearby geometries x guess provenance {fresh, amplitudes reused through the best-guess
rotation, amplitudes reused raw, scripted guesses}.  Every solve of the REAL driver is compared with a dense
numpy reference (vp.oracles.cis_dense) built from that solve's own converged orbitals and the model's
two-electron integrals; the reference AO tensor is first validated against the package's own Fock matrix.
"""
import re

import numpy as np
import torch

from ..drivers import molecules as M
from ..drivers import sp
from ..oracles import cis_dense as CD
from ..pool import is_error, is_timeout, pmap

PID = "C16"
LEVEL = "model_checking"
RULE = (
    "lattice: every (molecule in {H2O,NH3,CH4,H2CO,HCN,C2H2} x n_states (every value 1..nov when nov<=16, else "
    "{1,2,3,5,8,nov}) x tolerance {1e-4,1e-6,1e-8} x {CIS,RPA}) + orbital windows + homogeneous/mixed batches + "
    "scripted available-memory answers (subspace collapse / chunked sigma build); sequences: all depth-3 sequences "
    "over 3 nearby geometries x guess provenance; one real solve per lattice point / sequence step, each compared "
    "with the dense reference of its own orbitals; a case is non-trivial when the solver returned states that were "
    "compared; distinct = distinct (kind, molecules, geometry, method, tolerance, n, window, memory, history)"
)
ASSUMPTIONS = [
    "the dense reference takes the two-centre integral blocks molecule.w and the one-centre parameters from the "
    "package (they are the model's integrals, property C06 checks them); its AO tensor is validated in every solve "
    "against the package's own Fock matrix (F - Hcore = G[P] to 1e-10) and A, B against the package's sigma build",
    "AM1, closed shell, CPU, float64; molecules with nov <= 25",
    "the solver returns r >= n states so as not to split a set of degenerate orbital-energy differences (allowed); "
    "in mixed batches rows are zero-padded beyond each molecule's own r",
    "available memory is an environment answer scripted by the harness (psutil.virtual_memory) to reach the "
    "subspace-collapse and chunked-sigma branches that small molecules never reach otherwise",
    "scripted initial guesses are orthonormal (the documented precondition of the raw MO-basis guess path)",
]

MOLS = ["H2O", "NH3", "CH4", "H2CO", "HCN", "C2H2"]
NOV = {"H2O": 8, "NH3": 12, "CH4": 16, "H2CO": 24, "HCN": 20, "C2H2": 25}
NOCC = {"H2O": 4, "NH3": 4, "CH4": 4, "H2CO": 6, "HCN": 5, "C2H2": 5}
NVIRT = {"H2O": 2, "NH3": 3, "CH4": 4, "H2CO": 4, "HCN": 4, "C2H2": 5}
TOLS = [1e-4, 1e-6, 1e-8]

K_ENERGY = 10.0  # |w - w_dense| <= K_ENERGY * tol   (Bauer-Fike: <= |r|_2 <= sqrt(nov) * tol <= 5 tol)
EIG_TOL = 1e-4  # eV; measured on the healthy tree <= 3e-7 at scf_eps 1e-10 (F from the returned density, C and e from the last diagonalisation)
K_RESID = 1.001  # |A x - w x|_inf <= K_RESID * tol + 1e-11 (the package tests exactly this norm against tol)
ORTHO_TOL = 1e-8
SHELL_GAP = 1e-3  # eV: an orbital window whose edge falls inside a (near-)degenerate shell is ill-posed
SIGMA_TOL = 1e-10
FOCK_TOL = 1e-10

# documented loud refusals (counted as rejected_by_package); any other exception from a solve is a violation
LOUD_REFUSALS = [
    r"Insufficient memory",
    r"Maximum iterations reached",
    r"Maximum number of roots",
]

_SEED = 0


# ------------------------------------------------------------------------------------ geometries


def geometry(name, gi, seed):
    """gi = 0: the symmetric reference geometry (generic orientation); gi = 1, 2: nearby distorted geometries
    from a fixed family (seed selects the member)."""
    m = M.apply(M.get(name), M.generic_rot(seed))
    if gi:
        amp = {1: 0.02, 2: 0.05, 3: 0.01}[gi]
        c = m["coords"]
        k = np.arange(c.shape[0])[:, None]
        x = np.arange(3)[None, :]
        m["coords"] = c + amp * np.sin(1.7 * k + 2.3 * x + 0.9 * gi + 0.37 * (seed % 5) + 0.5)
    m["name"] = f"{name}.g{gi}"
    return m


def n_values(name, nov=None):
    nov = nov or NOV[name]
    if nov <= 16:
        return list(range(1, nov + 1))
    return [1, 2, 3, 5, 8, nov]


# ------------------------------------------------------------------------------------ instrumentation


class _Probe:
    """harness-side wrappers around module globals of the solver files: count sigma builds and detect the
    'subspace cannot grow' exit (orthogonalisation added no vector)."""

    def __init__(self):
        self.sigma_calls = 0
        self.first_V = None  # the initial guess space (argument of the first sigma build)
        self.cannot_grow = 0  # executions of the 'subspace cannot grow -> done' statement
        self.collapses = 0  # executions of the subspace-collapse block
        self._saved = []

    def __enter__(self):
        import seqm.seqm_functions.rcis_batch as RB
        import seqm.seqm_functions.rcis_new as RN
        import seqm.seqm_functions.rpa as RP

        probe = self

        def wrap_ortho(orig):
            def f(V, newsubspace, vend, tol):
                out = orig(V, newsubspace, vend, tol)
                f.last = (int(vend), int(out), int(newsubspace.shape[0]))
                return out

            f.last = None
            return f

        def wrap_sigma(orig):
            def f(*a, **k):
                probe.sigma_calls += 1
                if probe.first_V is None:
                    probe.first_V = a[1].detach().clone()
                return orig(*a, **k)

            return f

        for mod, names in ((RB, ("matrix_vector_product_batched",)), (RN, ("matrix_vector_product_any_batched",)), (RP, ("matrix_vector_product_batched",))):
            for nm in names:
                orig = getattr(mod, nm)
                self._saved.append((mod, nm, orig))
                setattr(mod, nm, wrap_sigma(orig))
        self._orthos = []
        for mod in (RB, RN, RP):
            orig = getattr(mod, "orthogonalize_to_current_subspace")
            self._saved.append((mod, "orthogonalize_to_current_subspace", orig))
            w = wrap_ortho(orig)
            self._orthos.append(w)
            setattr(mod, "orthogonalize_to_current_subspace", w)
        # line tracing restricted to the frames of the three Davidson drivers
        self._lines = {}
        for mod, fn in ((RB, "rcis_batch"), (RN, "rcis_any_batch"), (RP, "rpa")):
            path = mod.__file__
            grow, coll = set(), set()
            with open(path) as fh:
                for ln, text in enumerate(fh, 1):
                    if "if vend[i] - vstart[i] == 0:" in text:
                        grow.add(ln + 1)
                    if "n_collapses[collapse_mask] += 1" in text:
                        coll.add(ln)
            self._lines[(path, fn)] = (grow, coll)
        import sys

        def local(frame, event, arg):
            if event == "line":
                g, c = probe._cur
                if frame.f_lineno in g:
                    probe.cannot_grow += 1
                elif frame.f_lineno in c:
                    probe.collapses += 1
            return local

        def glob(frame, event, arg):
            if event != "call":
                return None
            key = (frame.f_code.co_filename, frame.f_code.co_name)
            if key in probe._lines:
                probe._cur = probe._lines[key]
                return local
            return None

        self._old_trace = sys.gettrace()
        sys.settrace(glob)
        return self

    def __exit__(self, *exc):
        import sys

        sys.settrace(self._old_trace)
        for mod, nm, orig in reversed(self._saved):
            setattr(mod, nm, orig)
        return False


class _Memory:
    """scripted environment answer: psutil.virtual_memory().available"""

    def __init__(self, available):
        self.available = available

    def __enter__(self):
        import psutil

        self._orig = psutil.virtual_memory
        if self.available is not None:
            av = int(self.available)

            class VM:
                available = av

            psutil.virtual_memory = lambda: VM
        return self

    def __exit__(self, *exc):
        import psutil

        psutil.virtual_memory = self._orig
        return False


def memory_for(maxsub, nov, nmol, method):
    nbig = 3 if method == "rpa" else 2
    return (maxsub + 0.5) * nov * nmol * 8 * nbig / 0.4


# ------------------------------------------------------------------------------------ observation + reference


def _np(x):
    return x.detach().cpu().numpy().copy()


def observe_member(mol, b):
    sp_row = _np(mol.species[b])
    molid = _np(mol.atom_molid)
    at = np.nonzero(molid == b)[0]
    off = int(at[0])
    ap = {k: _np(mol.parameters[k])[at] for k in ("g_ss", "g_sp", "g_pp", "g_p2", "h_sp")}
    pm = _np(mol.pair_molid)
    idxi, idxj = _np(mol.idxi), _np(mol.idxj)
    pairs = [(int(idxi[p]) - off, int(idxj[p]) - off, int(p)) for p in np.nonzero(pm == b)[0]]
    norb = int(mol.norb[b])
    nocc = int(mol.nocc[b])
    C = _np(mol.molecular_orbitals[b])[:norb, :norb]
    e = _np(mol.e_mo[b])[:norb]
    return dict(species=sp_row, ap=ap, pairs=pairs, norb=norb, nocc=nocc, C=C, e=e)


def reference(mol, es, b, window, w_np, fock=None):
    """dense reference of batch member b; returns dict(A, B, wd, Xd, wr, fock_err)."""
    ob = observe_member(mol, b)
    G = CD.ao_eri(ob["species"], ob["ap"], ob["pairs"], w_np)
    out = dict(ob=ob)
    if fock is not None:
        F, P, Hc = fock
        ui = CD.unpacked_index(CD.basis_of(ob["species"]))
        Fb = F[b][np.ix_(ui, ui)]
        Hb = np.triu(Hc[b]) + np.triu(Hc[b], 1).T
        Hb = Hb[np.ix_(ui, ui)]
        Pb = P[b][np.ix_(ui, ui)]
        out["fock_err"] = float(np.abs(Fb - Hb - CD.fock_two_electron(G, Pb)).max())
        out["eig_err"] = float(np.abs(Fb @ ob["C"] - ob["C"] * ob["e"][None, :]).max())
    nocc, norb = ob["nocc"], ob["norb"]
    if window is not None:
        occ = list(range(nocc - window[0], nocc))
        virt = list(range(nocc, nocc + window[1]))
    else:
        occ = list(range(nocc))
        virt = list(range(nocc, norb))
    A, B, d = CD.dense_AB(G, ob["C"], ob["e"], nocc, occ, virt)
    wd, Xd = CD.cis_spectrum(A)
    out.update(A=A, B=B, d=d, wd=wd, Xd=Xd, no=len(occ), nv=len(virt))
    return out


def package_sigma(mol, window, mixed):
    """the package's sigma build applied to all unit vectors: (nmol, nov, nov) A and B as numpy."""
    from seqm.seqm_functions.rcis_batch import get_occ_virt, matrix_vector_product_batched
    from seqm.seqm_functions.rcis_new import matrix_vector_product_any_batched

    with torch.no_grad():
        no, nv, Cocc, Cvirt, ea_ei = get_occ_virt(mol, None if mixed else window, mol.e_mo)
        nov = no * nv
        V = torch.eye(nov, dtype=mol.w.dtype).unsqueeze(0).repeat(int(mol.nmol), 1, 1)
        fn = matrix_vector_product_any_batched if mixed else matrix_vector_product_batched
        A, B = fn(mol, V, mol.w, ea_ei, Cocc, Cvirt, makeB=True)
    return _np(A), _np(B), no, nv


def closure_diagnostic(probe, b, blk, A, B, method, e_b, tol):
    """Smallest subspace containing the solver's initial guess vectors that is invariant under A (and B):
    a Davidson iteration can never leave it.  Returns its dimension and whether the returned energies are the
    lowest eigenvalues of the problem restricted to it."""
    if probe.first_V is None:
        return {}
    Vg = _np(probe.first_V[b])[:, blk]
    Vg = Vg[np.abs(Vg).sum(axis=1) > 0]
    if Vg.size == 0:
        return {}
    K = np.linalg.qr(Vg.T)[0]
    mats = (A, B) if method == "rpa" else (A,)
    for _ in range(A.shape[0]):
        cand = np.concatenate([K] + [Mx @ K for Mx in mats], axis=1)
        U, sv, _vt = np.linalg.svd(cand, full_matrices=False)
        rank = int((sv > 1e-7 * sv[0]).sum())
        if rank == K.shape[1]:
            break
        K = U[:, :rank]
    out = dict(closure_dim=int(K.shape[1]), guess_dim=int(Vg.shape[0]))
    Ak, Bk = K.T @ A @ K, K.T @ B @ K
    try:
        wk = CD.rpa_spectrum(Ak, Bk) if method == "rpa" else CD.cis_spectrum(Ak)[0]
        m = min(len(wk), len(e_b))
        out["lowest_in_closure"] = bool(m == len(e_b) and np.abs(wk[:m] - e_b[:m]).max() <= K_ENERGY * tol)
    except ValueError:
        out["lowest_in_closure"] = False
    out["guess_closure_deficient"] = bool(K.shape[1] < A.shape[0])
    return out


def member_block(no_b, nv_b, nv_pad):
    """indices of the valid (i,a) pairs of a member inside the padded pair layout of a mixed batch."""
    return np.array([i * nv_pad + a for i in range(no_b) for a in range(nv_b)])


# ------------------------------------------------------------------------------------ one trace


def _params(tr):
    ex = {"n_states": int(tr["n"]), "method": tr["method"], "tolerance": float(tr["tol"])}
    if tr.get("window"):
        ex["orbital_window"] = tuple(tr["window"])
    if tr.get("best_guess") is not None:
        ex["make_best_guess"] = bool(tr["best_guess"])
    return sp.make_params("AM1", eps=tr.get("scf_eps", 1e-10), excited_states=ex)


def _check_solve(tr, step, mol, es, probe, prob):
    """oracle on one finished solve; returns per-member records."""
    method, tol, n = tr["method"], float(tr["tol"]), int(tr["n"])
    window = tuple(tr["window"]) if tr.get("window") else None
    names = [nm for nm, _ in step["mols"]]
    mixed = len(set(names)) > 1
    nmol = int(mol.nmol)
    en = es.conservative_force.energy
    with torch.no_grad():
        F, _e, P, Hc, *_rest = en.hamiltonian(mol, en.method, P0=mol.dm)
    fock = (_np(F), _np(P), _np(Hc))
    w_np = _np(mol.w)
    As, Bs, no_pad, nv_pad = package_sigma(mol, window, mixed)
    E = _np(mol.cis_energies)
    amp = _np(mol.cis_amplitudes)
    recs = []
    for b in range(nmol):
        lab = f"{names[b]}.g{step['mols'][b][1]}"
        ref = reference(mol, es, b, window, w_np, fock)
        rec = dict(member=lab, fock_err=ref["fock_err"])
        if ref["fock_err"] > FOCK_TOL:
            rec["harness"] = f"reference AO tensor does not reproduce the package Fock matrix ({ref['fock_err']:.2e})"
            recs.append(rec)
            continue
        rec["eig_err"] = ref.get("eig_err", 0.0)
        eig_tol = max(EIG_TOL, 10.0 * float(tr.get("scf_eps", 1e-10)))  # the residual follows the SCF threshold (0.14 x eps measured at 1e-3)
        if ref.get("eig_err", 0.0) > eig_tol:
            # the orbital energies the excited-state solver works with are not the eigenvalues that belong to its orbitals
            prob.append(dict(cls="orbital_energies", member=lab, value=ref["eig_err"], tol=eig_tol,
                             msg=f"{lab}: |F C - C diag(e)| = {ref['eig_err']:.2e} eV for the orbitals and orbital energies the solver used (> {eig_tol:g}): energies and orbitals are not paired"))  # fmt: skip
        A, B, wd = ref["A"], ref["B"], ref["wd"]
        no_b, nv_b = ref["no"], ref["nv"]
        if window is not None:
            eo, nocc_b, norb_b = ref["ob"]["e"], ref["ob"]["nocc"], ref["ob"]["norb"]
            lo, hi = nocc_b - window[0], nocc_b + window[1]
            cut = (lo > 0 and eo[lo] - eo[lo - 1] < SHELL_GAP) or (hi < norb_b and eo[hi] - eo[hi - 1] < SHELL_GAP)
            rec["window_cuts_shell"] = bool(cut)
        blk = member_block(no_b, nv_b, nv_pad) if mixed else np.arange(no_b * nv_b)
        nov_b = len(blk)
        # --- sigma conformance
        sa = float(np.abs(As[b][np.ix_(blk, blk)] - A).max())
        sb = float(np.abs(Bs[b][np.ix_(blk, blk)] - B).max())
        rec.update(sigma_A=sa, sigma_B=sb)
        if sa > SIGMA_TOL:
            prob.append(dict(cls="sigma_A", member=lab, value=sa, msg=f"{lab}: package sigma build (A) differs from dense A by {sa:.2e}"))
        if sb > SIGMA_TOL:
            prob.append(dict(cls="sigma_B", member=lab, value=sb, msg=f"{lab}: package sigma build (B) differs from dense B by {sb:.2e}"))
        if mixed:
            pad = np.setdiff1d(np.arange(As.shape[1]), blk)
            if pad.size and (np.abs(As[b][np.ix_(blk, pad)]).max() > SIGMA_TOL or np.abs(As[b][np.ix_(pad, blk)]).max() > SIGMA_TOL):
                prob.append(dict(cls="sigma_pad", member=lab, value=1.0, msg=f"{lab}: padded pair components couple to real ones in the sigma build"))
        # --- returned states
        e_b = E[b]
        if mixed:
            r = int(np.count_nonzero(e_b))
            if np.any(e_b[r:] != 0.0) or (r < len(e_b) and np.any(e_b[:r] == 0.0)):
                prob.append(dict(cls="padding", member=lab, value=0.0, msg=f"{lab}: zero-padding of the energies row is not a suffix: {e_b}"))
        else:
            r = len(e_b)
        rec["r"] = r
        e_b = e_b[:r]
        if r < n:
            prob.append(dict(cls="too_few", member=lab, value=float(r), msg=f"{lab}: {r} states returned, {n} requested"))
            recs.append(rec)
            continue
        if method == "rpa":
            wref = CD.rpa_spectrum(A, B)
            if np.any(wref > wd + 1e-9):
                rec["harness"] = "dense RPA spectrum above dense CIS spectrum"
        else:
            wref = wd
        rec["dense"] = wref[: min(len(wref), r + 2)].tolist()
        rec["energies"] = e_b.tolist()
        if not np.all(np.isfinite(e_b)):
            prob.append(dict(cls="nonfinite", member=lab, value=0.0, msg=f"{lab}: non-finite energies {e_b}"))
            recs.append(rec)
            continue
        if e_b[0] <= 0:
            prob.append(dict(cls="nonpositive", member=lab, value=float(e_b[0]), msg=f"{lab}: lowest energy {e_b[0]} not positive"))
        if np.any(np.diff(e_b) < -1e-10):
            prob.append(dict(cls="order", member=lab, value=float(np.diff(e_b).min()), msg=f"{lab}: energies not ascending {e_b}"))
        err = float(np.abs(e_b - wref[:r]).max())
        rec["e_err"] = err
        if err > K_ENERGY * tol:
            k = int(np.nonzero(np.abs(e_b - wref[:r]) > K_ENERGY * tol)[0][0])
            # root-cause diagnostic: is the initial guess space confined to a proper invariant subspace of the
            # response matrices (a symmetry sector), and did the solver return the lowest states *of that sector*?
            diag = closure_diagnostic(probe, b, blk, A, B, method, e_b, tol) if probe is not None else {}
            # the missed dense eigenvalue: member of a degenerate cluster?  how far below the returned one?
            lo = wref[k] - wref[k - 1] if k > 0 else np.inf
            hi = wref[k + 1] - wref[k] if k + 1 < len(wref) else np.inf
            diag["missed_root_in_degenerate_cluster"] = bool(min(lo, hi) < 1e-5)
            diag["missed_gap"] = float(e_b[k] - wref[k])
            rec.update(diag)
            prob.append(dict(cls="not_lowest" if k < n else "extra_not_lowest", member=lab, value=err, state=k, **diag,
                             msg=f"{lab}: returned energies are not the lowest {r} dense eigenvalues (requested {n}): state {k + 1} returned "
                                 f"{e_b[k]:.8f}, dense {wref[k]:.8f} (> {K_ENERGY:g} x tol {tol:g}); returned {np.round(e_b, 6).tolist()} "
                                 f"dense {np.round(wref[: r + 2], 6).tolist()}; guess space closure dim {diag.get('closure_dim')} of {nov_b}, "
                                 f"lowest-in-closure {diag.get('lowest_in_closure')}"))  # fmt: skip
        # --- amplitudes
        if method == "rpa":
            X = amp[0, b, :r][:, blk]
            Y = amp[1, b, :r][:, blk]
            S = X @ X.T - Y @ Y.T
            S2 = X @ Y.T - Y @ X.T
            orth = float(max(np.abs(S - np.eye(r)).max(), np.abs(S2).max()))
            rX = X @ A.T + Y @ B.T - e_b[:, None] * X
            rY = Y @ A.T + X @ B.T + e_b[:, None] * Y
            res = np.maximum(np.abs(rX - rY).max(axis=1), np.abs(rX + rY).max(axis=1))
        else:
            X = amp[b, :r][:, blk]
            if mixed:
                padamp = np.delete(amp[b, :r], blk, axis=1)
                if padamp.size and np.abs(padamp).max() > 1e-12:
                    prob.append(dict(cls="amp_pad", member=lab, value=float(np.abs(padamp).max()), msg=f"{lab}: amplitude on padded pairs"))
            orth = float(np.abs(X @ X.T - np.eye(r)).max())
            res = np.abs(X @ A.T - e_b[:, None] * X).max(axis=1)
        rec.update(orth=orth, resid=float(res.max()))
        if orth > ORTHO_TOL:
            prob.append(dict(cls="orthonormality", member=lab, value=orth, msg=f"{lab}: amplitudes not orthonormal ({orth:.2e} > {ORTHO_TOL:g})"))
        if res.max() > K_RESID * tol + 1e-11:
            k = int(np.argmax(res))
            prob.append(dict(cls="residual", member=lab, value=float(res.max()), state=k,
                             msg=f"{lab}: residual |A x - w x|_inf of state {k + 1} is {res.max():.3e} > tolerance {tol:g} "
                                 f"(all: {np.array2string(res, precision=2)})"))  # fmt: skip
        recs.append(rec)
    return recs


def _scripted_guess(kind, tr, step, seed):
    """orthonormal scripted guesses built from the dense eigenvectors of a twin solve (same inputs ->
    bitwise the same orbitals; verified by the caller)."""
    n = int(tr["n"])
    ptw = _params(dict(tr, best_guess=None))
    twin, es = sp.build([geometry(nm, gi, seed) for nm, gi in step["mols"]], ptw)
    twin.verbose = False
    es(twin)
    ref = reference(twin, es, 0, tuple(tr["window"]) if tr.get("window") else None, _np(twin.w))
    Xd, nov = ref["Xd"], ref["A"].shape[0]
    C = _np(twin.molecular_orbitals[0])
    if kind == "s_perm":
        g = Xd[:, :n][:, ::-1].T
    elif kind == "s_mix":
        if n + 1 > nov:
            return None, C
        v = np.sin(1.3 * np.arange(n + 1) + 0.7)
        v /= np.linalg.norm(v)
        Hh = np.eye(n + 1) - 2.0 * np.outer(v, v)
        g = (Xd[:, : n + 1] @ Hh[:, :n]).T
    elif kind == "s_high":
        if 2 * n > nov:
            return None, C
        # higher states with a 5 % admixture of the lowest ones: the admixture leaves a residual of ~1e-2 eV,
        # far above every tolerance of the lattice, so a correct solver must rotate down to the lowest states
        g = (Xd[:, n : 2 * n] + 0.05 * Xd[:, :n]).T
        g /= np.linalg.norm(g, axis=1, keepdims=True)
    elif kind == "s_unit":
        idx = np.argsort(ref["d"], kind="stable")[:n]
        g = np.zeros((n, nov))
        g[np.arange(n), idx] = 1.0
    elif kind == "s_ao":
        # AO-basis transition densities of the lowest n dense states (documented alternative input format)
        ob = ref["ob"]
        no, nv = ref["no"], ref["nv"]
        nocc = ob["nocc"]
        w = tr.get("window")
        occ = list(range(nocc - w[0], nocc)) if w else list(range(nocc))
        virt = list(range(nocc, nocc + w[1])) if w else list(range(nocc, ob["norb"]))
        Co, Cv = ob["C"][:, occ], ob["C"][:, virt]
        g = np.einsum("mi,ria,na->rmn", Co, Xd[:, :n].T.reshape(n, no, nv), Cv)
        return torch.as_tensor(g[None]), C
    else:
        raise ValueError(kind)
    return torch.as_tensor(np.ascontiguousarray(g)[None]), C


def run_trace(tr):
    """execute one trace (1 lattice solve or a sequence of solves on a live molecule object)."""
    seed = tr.get("seed", _SEED)
    out = []
    mol = es = None
    p = _params(tr)
    for si, step in enumerate(tr["steps"]):
        prob = []
        rec = dict(step=si, mode=step["mode"], mols=step["mols"], problems=prob, members=[])
        out.append(rec)
        geoms = [geometry(nm, gi, seed) for nm, gi in step["mols"]]
        mode = step["mode"]
        if mode in ("again_rot", "again_rot2"):
            # the object is moved to a rigidly rotated copy (C3 about (1,1,1): x -> y -> z -> x) of the next geometry: the
            # orbitals it tracks from the call before are matched through a 3-cycle of the p functions
            Rb = np.array([[0.0, 0.0, 1.0], [1.0, 0.0, 0.0], [0.0, 1.0, 0.0]])
            # (which rotations make the overlap matching a cycle of three or more orbitals depends on the molecule: two
            #  different ones per molecule; measured with a scatter/gather slip: NH3 3.5 eV, H2O 2.7-4.8, CH4 0.2)
            Rrot = M.generic_rot(seed) @ Rb if mode == "again_rot" else M.generic_rot(seed + 1)
            geoms = [M.apply(g, Rrot) for g in geoms]
            mode = "again"
        cis_amp = None
        kwargs = {}
        try:
            if mode in ("again", "again_neg") and mol is not None:
                # the same Molecule object evaluated again after an in-place move, WITHOUT handing amplitudes over: the
                # package then uses the stored amplitudes only as the phase reference of the new ones. "again_neg"
                # scripts that reference to the equivalent representation -(X, Y), so every state has to be re-phased.
                _sp, xyz, _c, _m = M.batch(geoms)
                with torch.no_grad():
                    mol.coordinates.copy_(torch.as_tensor(xyz))
                    if mode == "again_neg" and torch.is_tensor(mol.cis_amplitudes):
                        mol.cis_amplitudes = -mol.cis_amplitudes
                kwargs = dict(P0=mol.dm)
            elif mode == "reuse" and mol is not None:
                _sp, xyz, _c, _m = M.batch(geoms)
                with torch.no_grad():
                    mol.coordinates.copy_(torch.as_tensor(xyz))
                kwargs = dict(P0=mol.dm, cis_amp=mol.cis_amplitudes)
            else:
                if mode.startswith("s_"):
                    cis_amp, Ctwin = _scripted_guess(mode, tr, step, seed)
                    if cis_amp is None:
                        rec["skipped"] = "guess needs more pairs than the space has"
                        continue
                    kwargs = dict(cis_amp=cis_amp)
                import copy

                mol, es = sp.build(geoms, copy.deepcopy(p))
                mol.verbose = False
        except Exception as e:  # noqa: BLE001
            rec["harness"] = f"building the case failed: {type(e).__name__}: {e}"
            break
        nmol = len(geoms)
        nov_pad = None
        mem = None
        if tr.get("maxsub"):
            names = [nm for nm, _ in step["mols"]]
            w = tr.get("window")
            nov_pad = (w[0] * w[1]) if w else max(NOCC[x] for x in names) * max(NVIRT[x] for x in names)
            mem = memory_for(tr["maxsub"], nov_pad, nmol if tr["method"] != "rpa" else 1, tr["method"])
        try:
            with _Probe() as probe, _Memory(mem):
                es(mol, **kwargs)
            rec["sigma_calls"] = probe.sigma_calls
            rec["stalled"] = probe.cannot_grow
            rec["collapses"] = probe.collapses
        except Exception as e:  # noqa: BLE001
            msg = f"{type(e).__name__}: {e}"
            rec["raised"] = msg[:300]
            mol = es = None
            continue
        if mode.startswith("s_") and mode != "s_ao":
            if not np.array_equal(_np(mol.molecular_orbitals[0]), Ctwin):
                rec["harness"] = "twin solve did not reproduce the orbitals bitwise (scripted MO-basis guess invalid)"
                continue
        try:
            rec["members"] = _check_solve(tr, step, mol, es, probe, prob)
        except Exception as e:  # noqa: BLE001
            import traceback

            rec["harness"] = f"oracle crashed: {type(e).__name__}: {e}\n{traceback.format_exc()[-600:]}"
    return out


# ------------------------------------------------------------------------------------ lattices


def _single(name, gi, method, tol, n, kind="single", **kw):
    t = dict(kind=kind, method=method, tol=tol, n=n, steps=[dict(mols=[(name, gi)], mode="fresh")])
    t.update(kw)
    return t


def windows_of(name):
    no, nv = NOCC[name], NVIRT[name]
    ws = [(1, 1), (2, 2), (no, 1), (1, nv), (2, nv), (no - 1, nv - 1), (3, 2)]
    out = []
    for w in ws:
        if 1 <= w[0] <= no and 1 <= w[1] <= nv and w != (no, nv) and w not in out:
            out.append(w)
    return out


def lattice(tier):
    T = []
    quick = tier == "quick"
    # L1 singles, symmetric geometry: every n, every tolerance, both methods
    for name in MOLS:
        for n in n_values(name):
            for tol in TOLS:
                for method in ("cis", "rpa"):
                    if quick and tol != 1e-6 and n not in (1, 2, 3, NOV[name]) and not (name in ("NH3", "CH4") and method == "cis"):
                        continue
                    T.append(_single(name, 0, method, tol, n))
    # L1' distorted geometries (C1 symmetry: no exact degeneracy)
    for name in MOLS:
        for gi in (1, 2):
            for n in n_values(name) if not quick else [1, 3, NOV[name]]:
                for tol in TOLS if not quick else [1e-6]:
                    for method in ("cis", "rpa"):
                        T.append(_single(name, gi, method, tol, n))
    # L1'' the package's own SCF/CIS tolerance coupling (scf_eps lowered to 0.1 x tolerance by the package)
    for name in MOLS if not quick else ["H2CO", "NH3"]:
        for tol in TOLS:
            for n in (1, 3):
                T.append(_single(name, 0, "cis", tol, n, scf_eps=1e-3))
                T.append(_single(name, 1, "rpa", tol, n, scf_eps=1e-3))
    # L2 orbital windows (CIS only: RPA and mixed batches have no window support)
    for name in MOLS:
        for w in windows_of(name):
            novw = w[0] * w[1]
            ns = sorted({1, 2, max(1, novw // 2), novw} & set(range(1, novw + 1)))
            for n in ns:
                for tol in [1e-6] if quick else TOLS:
                    for gi in (0,) if quick else (0, 1):
                        T.append(_single(name, gi, "cis", tol, n, kind="window", window=list(w)))
    # L3 homogeneous batches: the three geometries of one molecule in every order of a fixed family
    orders = [(0, 1, 2), (2, 0, 1), (1, 1, 0)] if not quick else [(0, 1, 2), (2, 0, 1)]
    for name in MOLS:
        for order in orders:
            for n in (1, 2, 3, 5) if not quick else (1, 3):
                for method in ("cis", "rpa"):
                    for tol in [1e-6] if quick else TOLS:
                        T.append(dict(kind="batch", method=method, tol=tol, n=n, steps=[dict(mols=[(name, g) for g in order], mode="fresh")]))
    # L4 mixed batches (CIS only)
    mixes = [
        [("H2O", 0), ("NH3", 0), ("CH4", 0)],
        [("H2CO", 0), ("C2H2", 0)],
        [("HCN", 0), ("H2O", 1), ("NH3", 1)],
        [("CH4", 1), ("H2O", 2)],
        [("C2H2", 1), ("H2CO", 2), ("HCN", 1), ("CH4", 0)],
    ]
    for mx in mixes if not quick else mixes[:4]:
        nmin = min(NOV[nm] for nm, _ in mx)
        for n in [k for k in (1, 2, 3, 5, 8) if k <= nmin]:
            for tol in [1e-6] if quick else TOLS:
                T.append(dict(kind="mixed", method="cis", tol=tol, n=n, steps=[dict(mols=mx, mode="fresh")]))
    # L5 scripted memory answers: subspace collapse and chunked sigma build
    for name in ["H2CO", "C2H2", "HCN", "CH4"] if not quick else ["H2CO", "HCN"]:
        for n in (1, 2, 3):
            for maxsub in (6, 9, 12, 16, NOV[name] - 1):
                for method in ("cis", "rpa"):
                    for tol in [1e-6] if quick else [1e-4, 1e-6, 1e-8]:
                        T.append(_single(name, 1, method, tol, n, kind="memory", maxsub=maxsub))
                        if not quick:
                            T.append(_single(name, 0, method, tol, n, kind="memory", maxsub=maxsub))
    for mx in mixes[:2]:
        for n in (1, 2):
            for maxsub in (9, 12):
                T.append(dict(kind="memory", method="cis", tol=1e-6, n=n, maxsub=maxsub, steps=[dict(mols=mx, mode="fresh")]))
    if not quick:
        for name in ("H2CO", "C2H2"):
            for n in (1, 2, 3):
                for maxsub in (9, 12, 16):
                    for method in ("cis", "rpa"):
                        T.append(dict(kind="memory", method=method, tol=1e-6, n=n, maxsub=maxsub, steps=[dict(mols=[(name, g) for g in (0, 1, 2)], mode="fresh")]))
    return T


def sequences(tier):
    """S-seq: all sequences of depth 3; step alphabet = geometry {0,1,2} x provenance."""
    T = []
    quick = tier == "quick"
    mols = ["NH3", "H2CO", "C2H2"] if quick else MOLS
    alpha = [(g, m) for g in (0, 1, 2) for m in ("fresh", "reuse")]
    for name in mols:
        for n in (2, 3) if not quick else (2,):
            if quick and name == "H2CO":
                n = 3
            for best in (True, False):
                for method in ("cis",):
                    for tol in (1e-6,):
                        for s1 in (0, 1) if not quick else (0,):
                            for a2 in alpha:
                                for a3 in alpha:
                                    steps = [dict(mols=[(name, s1)], mode="fresh")]
                                    steps += [dict(mols=[(name, g)], mode=m) for g, m in (a2, a3)]
                                    T.append(dict(kind="seq", method=method, tol=tol, n=n, best_guess=best, steps=steps))
        # window + reuse (the best-guess rotation is written for the full orbital space)
        w = windows_of(name)[1]
        for best in (True, False):
            for a2 in [(1, "reuse"), (2, "reuse")]:
                for a3 in [(0, "reuse"), (2, "reuse"), (1, "reuse")]:
                    steps = [dict(mols=[(name, 0)], mode="fresh")] + [dict(mols=[(name, g)], mode=m) for g, m in (a2, a3)]
                    T.append(dict(kind="seq", method="cis", tol=1e-6, n=2, best_guess=best, window=list(w), steps=steps))
    # homogeneous batch reused along a sequence (members are the three geometries, permuted between steps)
    for name in mols:
        for best in (True, False):
            for perm2 in ((1, 2, 0), (0, 1, 2)):
                for perm3 in ((2, 0, 1), (1, 2, 0)):
                    steps = [dict(mols=[(name, g) for g in (0, 1, 2)], mode="fresh")]
                    steps.append(dict(mols=[(name, g) for g in perm2], mode="reuse"))
                    steps.append(dict(mols=[(name, g) for g in perm3], mode="reuse"))
                    T.append(dict(kind="seq", method="cis", tol=1e-6, n=3, best_guess=best, steps=steps))
    # RPA with the stored [X;Y] amplitudes handed back as the guess (what every MD step on an RPA state does)
    for name in mols:
        for a2 in [(1, "reuse"), (2, "reuse")]:
            for a3 in [(0, "reuse"), (2, "reuse"), (1, "fresh")]:
                steps = [dict(mols=[(name, 0)], mode="fresh")] + [dict(mols=[(name, g)], mode=m) for g, m in (a2, a3)]
                T.append(dict(kind="seq", method="rpa", tol=1e-6, n=3, best_guess=True, steps=steps))
        steps = [dict(mols=[(name, g) for g in (0, 1, 2)], mode="fresh"), dict(mols=[(name, g) for g in (1, 2, 0)], mode="reuse")]
        T.append(dict(kind="seq", method="rpa", tol=1e-6, n=2, best_guess=True, steps=steps))
    # the same object evaluated again (phase alignment against the stored amplitudes), CIS and RPA
    for name in mols:
        for method in ("cis", "rpa"):
            for m2, m3 in (("again", "again_neg"), ("again_neg", "again"), ("again_neg", "again_neg")):
                steps = [dict(mols=[(name, 0)], mode="fresh"), dict(mols=[(name, 1)], mode=m2), dict(mols=[(name, 2)], mode=m3)]
                T.append(dict(kind="seq", method=method, tol=1e-6, n=3, best_guess=True, steps=steps))
    for name in mols:
        for method in ("cis", "rpa"):
            for m2, m3 in (("again_rot", "again"), ("again", "again_rot2"), ("again_rot", "again_rot2"), ("again_rot2", "again_rot")):
                steps = [dict(mols=[(name, 0)], mode="fresh"), dict(mols=[(name, 1)], mode=m2), dict(mols=[(name, 2)], mode=m3)]
                T.append(dict(kind="seq", method=method, tol=1e-6, n=3, best_guess=True, steps=steps))
    # scripted initial guesses (fresh molecule, raw guess path), each followed by two reuse steps
    for name in mols:
        for kind in ("s_perm", "s_mix", "s_high", "s_unit", "s_ao"):
            for n in (1, 2, 3) if not quick else (2,):
                for gi in (0, 1) if not quick else (1,):
                    for tol in (1e-6,) if quick else (1e-4, 1e-6, 1e-8):
                        steps = [dict(mols=[(name, gi)], mode=kind), dict(mols=[(name, 2)], mode="reuse"), dict(mols=[(name, 0)], mode="reuse")]
                        T.append(dict(kind="seq", method="cis", tol=tol, n=n, best_guess=False, steps=steps))
    return T


# ------------------------------------------------------------------------------------ keys / descriptors


def _hist(tr, upto):
    return ">".join(f"{'+'.join(f'{nm}.g{g}' for nm, g in s['mols'])}:{s['mode']}" for s in tr["steps"][: upto + 1])


def _key(tr, si):
    return (
        f"{tr['kind']}|{tr['method']}|tol={tr['tol']:g}|n={tr['n']}|w={tr.get('window')}|mem={tr.get('maxsub')}"
        f"|bg={tr.get('best_guess')}|eps={tr.get('scf_eps')}|{_hist(tr, si)}"
    )


def _desc(tr, si, rec, pr):
    step = tr["steps"][si]
    names = sorted({nm for nm, _ in step["mols"]})
    return dict(
        kind=tr["kind"], method=tr["method"], tol=float(tr["tol"]), n=int(tr["n"]),
        window=str(tr.get("window")), maxsub=tr.get("maxsub") or 0, best_guess=str(tr.get("best_guess")),
        molecules="+".join(names), member=pr.get("member", ""), batch_size=len(step["mols"]), mixed=len(names) > 1,
        mode=step["mode"], step=si, history=_hist(tr, si), problem_class=pr["cls"], value=float(pr.get("value", 0.0)),
        stalled=bool(rec.get("stalled")), state=int(pr.get("state", -1)),
        guess_given=bool(step["mode"] != "fresh" and si >= 0 and (step["mode"].startswith("s_") or si > 0)),
        symmetric_geometry=any(g == 0 for _, g in step["mols"]),
        guess_closure_deficient=bool(pr.get("guess_closure_deficient", False)),
        missed_root_in_degenerate_cluster=bool(pr.get("missed_root_in_degenerate_cluster", False)),
        missed_gap=float(pr.get("missed_gap", 0.0)), value_over_tol=float(pr.get("value", 0.0)) / float(tr["tol"]),
        lowest_in_closure=bool(pr.get("lowest_in_closure", False)),
        collapses=int(rec.get("collapses") or 0),
    )  # fmt: skip


# ------------------------------------------------------------------------------------ run


def _account(chk, tr, res, canon, states, cis_vs_rpa):
    if is_timeout(res) or is_error(res):
        chk.violation(dict(kind=tr["kind"], method=tr["method"], problem_class="did_not_complete", history=_hist(tr, len(tr["steps"]) - 1)),
                      f"{_key(tr, len(tr['steps']) - 1)}: did not complete: {str(res)[:300]}", replay=tr)  # fmt: skip
        return
    for si, rec in enumerate(res):
        key = _key(tr, si)
        if rec.get("harness"):
            chk.harness_error(f"{key}: {rec['harness']}")
            continue
        if rec.get("skipped"):
            continue
        chk.transitions += 1
        # state = (molecules, geometry indices, provenance of the guess = modes of the steps that led here)
        states.add((tuple(map(tuple, rec["mols"])), tuple(s["mode"] for s in tr["steps"][: si + 1]), tr["method"], str(tr.get("window"))))
        if rec.get("raised"):
            if not any(re.search(pat, rec["raised"]) for pat in LOUD_REFUSALS):
                pr = dict(cls="crash", member="", value=0.0, msg=f"solver crashed on a valid request: {rec['raised']}")
                d = _desc(tr, si, rec, pr)
                d["exception"] = rec["raised"].split(":")[0]
                chk.case(key, nontrivial=False, outcome="crash:" + rec["raised"][:40])
                chk.violation(d, f"{key}: {pr['msg']}", replay=dict(tr, steps=tr["steps"][: si + 1]))
                continue
            # the package refused loudly (insufficient memory for the scripted answer, iteration cap)
            chk.rejected += 1
            chk.case(key, nontrivial=False, outcome="raised:" + rec["raised"][:40])
            chk.extra.setdefault("raised_examples", {})
            ex = chk.extra["raised_examples"]
            k = rec["raised"][:70]
            if len(ex) < 12 or k in ex:
                ex[k] = ex.get(k, 0) + 1
            continue
        for m in rec["members"]:
            if m.get("harness"):
                chk.harness_error(f"{key}: {m['harness']}")
        members = [m for m in rec["members"] if "energies" in m]
        chk.traces += len(members)
        sig = (tuple(m["r"] - tr["n"] for m in members), rec.get("stalled", 0) > 0, rec.get("sigma_calls"), len(rec["problems"]))
        chk.case(key, nontrivial=bool(members), outcome=str(sig))
        if rec.get("stalled"):
            chk.extra["solves_through_cannot_grow_branch"] = chk.extra.get("solves_through_cannot_grow_branch", 0) + 1
            worst = max((m.get("resid", 0.0) for m in members), default=0.0) / tr["tol"]
            chk.extra["cannot_grow_branch_max_residual_over_tol"] = max(chk.extra.get("cannot_grow_branch_max_residual_over_tol", 0.0), worst)
        if rec.get("collapses"):
            chk.extra["solves_with_subspace_collapse"] = chk.extra.get("solves_with_subspace_collapse", 0) + 1
        for pr in rec["problems"]:
            chk.violation(_desc(tr, si, rec, pr), f"{key}: {pr['msg']}", replay=dict(tr, steps=tr["steps"][: si + 1]))
        # independence of history / guess / batch / n: compare with the canonical dense spectrum of (member, window, method)
        for m in members:
            if m.get("window_cuts_shell"):
                chk.excluded += 1  # the windowed problem depends on the arbitrary rotation inside the cut shell
                continue
            if any(pr.get("member") == m["member"] and pr["cls"] in ("not_lowest", "extra_not_lowest") for pr in rec["problems"]):
                continue  # already reported against this solve's own dense spectrum
            # scf_eps given: the package lowers it to 0.1 x tolerance, so the orbitals depend on the tolerance
            ck = (m["member"], str(tr.get("window")), tr["method"], (tr["scf_eps"], tr["tol"]) if tr.get("scf_eps") else None)
            e = np.array(m["energies"])
            if ck not in canon:
                canon[ck] = (np.array(m["dense"]), key)
            ref, refkey = canon[ck]
            k = min(len(ref), len(e))
            # the canonical spectrum may be shorter than this row; compare the common prefix
            d = float(np.abs(e[:k] - ref[:k]).max()) if k else 0.0
            if d > K_ENERGY * tr["tol"] + 1e-7:
                pr = dict(cls="history_dependence", member=m["member"], value=d,
                          msg=f"{m['member']}: energies differ by {d:.2e} from the dense spectrum obtained in {refkey}")  # fmt: skip
                chk.violation(_desc(tr, si, rec, pr), f"{key}: {pr['msg']}", replay=dict(tr, steps=tr["steps"][: si + 1]))
            if tr["kind"] in ("single", "batch") and not tr.get("window") and tr.get("scf_eps") is None:
                cis_vs_rpa.setdefault((m["member"], tr["tol"], tr["n"], tr["kind"], _hist(tr, si)), {})[tr["method"]] = (e, key, tr, si)


def run(chk, tier, seed):
    global _SEED
    _SEED = int(seed)
    from .. import warm

    warm()
    traces = lattice(tier) + sequences(tier)
    import os

    only = os.environ.get("VP_C16_KINDS")  # development aid: restrict the kinds of traces run
    if only:
        traces = [t for t in traces if t["kind"] in only.split(",")]
        chk.cap(f"only kinds {only} were run (VP_C16_KINDS)")
    for t in traces:
        t["seed"] = int(seed)
    chk.planned = sum(len(t["steps"]) for t in traces)
    # determinism: one sample trace twice in two processes must agree bitwise
    s0 = next((t for t in traces if t["kind"] == "single"), traces[0])
    a, b = pmap(run_trace, [s0, s0], chunk=1, timeout=600)

    def _sig(x):
        return None if (is_error(x) or is_timeout(x)) else [(r.get("raised"), [m.get("energies") for m in r["members"]]) for r in x]

    if _sig(a) is None or _sig(a) != _sig(b):
        chk.harness_error(f"same case in two processes disagrees: {str(a)[:300]} vs {str(b)[:300]}")
    # longest traces first
    order = sorted(range(len(traces)), key=lambda i: -len(traces[i]["steps"]) * len(traces[i]["steps"][0]["mols"]))
    results = pmap(run_trace, [traces[i] for i in order], chunk=6, timeout=900, progress="C16")
    canon, states, cvr = {}, set(), {}
    # canonical spectra from the fresh singles first (stable reference independent of enumeration order)
    pairs = sorted(zip(order, results), key=lambda x: (traces[x[0]]["kind"] != "single", x[0]))
    for i, res in pairs:
        _account(chk, traces[i], res, canon, states, cvr)
    # w_RPA <= w_CIS state by state (same member, tolerance, n, batch composition)
    ncmp = 0
    for k, d in cvr.items():
        if "cis" in d and "rpa" in d:
            ec, _kc, _tc, _sc = d["cis"]
            er, kr, tr_, si = d["rpa"]
            m = min(len(ec), len(er))
            ncmp += 1
            over = float((er[:m] - ec[:m]).max())
            if over > K_ENERGY * k[1]:
                pr = dict(cls="rpa_above_cis", member=k[0], value=over, msg=f"{k[0]}: RPA energy exceeds the CIS energy of the same state by {over:.2e}")
                chk.violation(_desc(tr_, si, {}, pr), f"{kr}: {pr['msg']}", replay=tr_)
    chk.states = len(states)
    chk.extra["rpa_vs_cis_comparisons"] = ncmp
    chk.extra["traces_by_kind"] = {k: sum(1 for t in traces if t["kind"] == k) for k in sorted({t["kind"] for t in traces})}


def replay(payload):
    tr = payload["replay"]
    res = run_trace(tr)
    ok = True
    for rec in res:
        print("  step", rec["step"], rec["mode"], rec["mols"], "raised:" + rec["raised"] if rec.get("raised") else "", rec.get("harness", ""))
        if rec.get("raised") and not any(re.search(pat, rec["raised"]) for pat in LOUD_REFUSALS):
            ok = False
            print("   PROBLEM solver crashed on a valid request:", rec["raised"])
        for m in rec.get("members", []):
            print("     ", {k: (v if not isinstance(v, list) else np.round(v, 6).tolist()) for k, v in m.items()})
        for pr in rec["problems"]:
            ok = False
            print("   PROBLEM", pr["msg"])
    return ok
