"""C05  Batching, padding, ordering and atom relabelling are transparent.

Explorer: exhaustive product lattices (S-lat) of batch layouts executed on the real code, every row of
every batch compared with the same molecule computed alone (differential twin):

  gs    all ordered batches with repetition of size <= 2 (quick) / <= 3 (thorough) from the 7-molecule
        alphabet x extra padding width {0,1,3} x padding-slot coordinate pattern {zero, coincident with
        atom 0 of the row, (7.7,-3.3,1.1), 1e4, a different one in every slot} x methods x solvers
        (autodiff forces); layouts that assemble to identical arrays are merged
  fm    the same batches x 2-3 layouts x methods x force modes {analytical, semi-numerical}
  cfg   full method x solver x force-mode product on the cyclic neighbour pairs (every molecule, padded)
  tr    every transposition of two same-element atoms, alone and inside padded batches (both positions)
  cis   CIS / RPA (3 states, Davidson 1e-8): homogeneous batches of {symmetric, distorted, distorted}
        copies of every alphabet molecule (all ordered pairs / triples), with and without extra padding,
        ground and first excited state active (analytical excited gradient); mixed batches of distinct
        molecules (CIS energies; RPA and excited gradients are rejected loudly and counted)
  (cfg and the homogeneous CIS/RPA batches are executed twice: never-written `torch.empty` memory
        answered with zeros, as everywhere else, and with NaN)
  md    BOMD / XL-BOMD(k=3) / KSA-XL-BOMD (err_threshold 0 and 1e-3; 1e-1, 1e-2, 3e-3 on the ordered pairs),
        4 steps, user-supplied velocities:
        every HDF5 dataset of molecule k of the batch run equals that of its run alone

Every call runs under the deterministic iteration horizon.  A horizon trip is a violation, except for
SP2 on a batch that has padding slots and contains an anion: that non-termination is a C03 finding and
is counted as excluded here.
"""
import contextlib
import hashlib
import io
import itertools
import os

import numpy as np

from ..budget import Horizon, IterationHorizon
from ..drivers import batch as B
from ..drivers import molecules as M
from ..drivers import sp
from ..pool import is_error, is_timeout, pmap

PID = "C05"
LEVEL = "exploration"
RULE = (
    "product lattice: ordered batches with repetition (size <= 2 quick / <= 3 thorough) of {CH4,H2O,HF,OH-,NH4+,"
    "H2CO,C2H2} x extra padding width {0,1,3} x padding-coordinate pattern {zero, atom0, far, 1e4, mixed} x "
    "method {AM1,PM6_SP} x solver {adaptive,Pulay,SP2}; force modes, same-element transpositions, CIS/RPA "
    "(homogeneous symmetric/distorted copies and mixed batches) and 4 MD engines on stated sub-lattices; one "
    "execution of the real code per point, each row compared with the molecule computed alone; distinct = "
    "distinct assembled input arrays x configuration; non-trivial = at least one converged row was compared"
)
ASSUMPTIONS = [
    "CPU, float64, single process, generic orientation (the frozen-frame defect of C01/C02 is kept out)",
    "tolerance 1000 x max(scf_eps 1e-10, SP2 threshold 1e-7) for ground-state quantities, 1000 x 1e-8 for "
    "Davidson quantities; MD datasets relative to max(1,|reference|)",
    "state-specific excited-state vectors (forces, transition dipoles) are compared only for states that "
    "are non-degenerate (> 1e-3 eV from their neighbours) in the single-molecule reference",
    "Langevin engines are not compared (shared noise stream, see DESIGN.md C05 B)",
    "SP2 + padded batch + anion never returns (C03 finding): horizon trips there are excluded, not judged",
]

# N2 (8 orbitals, 2 heavy atoms) collides with CH4 / NH4+ (8 orbitals, 1 heavy + 4 H) in every shortcut keyed on the orbital count
ALPHABET = ["CH4", "H2O", "HF", "OH-", "NH4+", "H2CO", "C2H2", "N2"]
ANIONS = {"OH-"}
METHODS = ["AM1", "PM6_SP"]
SOLVERS = ["adaptive", "pulay", "sp2"]
FMODES = ["autodiff", "analytical", "semi_numerical"]
WIDTHS = [0, 1, 3]
SCF_EPS = 1e-10
SP2_EPS = 1e-7
CIS_TOL = 1e-8
K = 1000.0
HORIZON = 4000  # cumulative per call; the largest count seen on healthy runs is ~1200 (SP2 iterations x SCF passes)
MD_STEPS = 4
ENGINES = {
    "bomd": ("bomd", None),
    "xl": ("xl", None),
    "ksa": ("ksa", {"err_threshold": 0.0}),
    "ksa1e-3": ("ksa", {"err_threshold": 1e-3}),
}
# further Krylov thresholds, run on the ordered pairs only: which threshold separates the ranks that two batch
# mates need depends on the trajectories (measured: 1e-3 did before user velocities were taken as given, 1e-1,
# 1e-2 and 3e-3 do after), so the alphabet spans the range instead of relying on one value
ENGINES_PAIRS_ONLY = {
    "ksa1e-1": ("ksa", {"err_threshold": 1e-1}),
    "ksa1e-2": ("ksa", {"err_threshold": 1e-2}),
    "ksa3e-3": ("ksa", {"err_threshold": 3e-3}),
}
ALL_ENGINES = dict(ENGINES, **ENGINES_PAIRS_ONLY)
DEGENERATE = 1e-3

_REFS = {}

# --------------------------------------------------------------------------- molecules


def make_mol(spec, seed):
    """spec = [name, distortion index, transposition (i, j) or None]"""
    name, dist, tr = spec
    m = M.apply(M.get(name), M.generic_rot(seed))
    if dist:
        n = len(m["species"])
        a = np.arange(n)[:, None]
        c = np.arange(3)[None, :]
        m["coords"] = m["coords"] + 0.03 * dist * np.sin(1.3 * a + 2.1 * c + 0.7 * dist)
    if tr:
        m = B.transpose(m, tr[0], tr[1])
    return m


def velocity(spec):
    """user-supplied velocities: a fixed generic pattern per molecule (A/fs), independent of batch position"""
    m = M.get(spec[0])
    n = len(m["species"])
    a = np.arange(n)[:, None]
    c = np.arange(3)[None, :]
    v = 0.01 * np.sin(1.7 * a + 2.3 * c + 0.5 + ALPHABET.index(spec[0]))
    if spec[2]:
        v[[spec[2][0], spec[2][1]]] = v[[spec[2][1], spec[2][0]]]
    return v


def make_params(cfg):
    method, solver, fmode = cfg["method"], cfg["solver"], cfg["fmode"]
    extra = {}
    if cfg.get("ex"):
        extra["excited_states"] = {"n_states": 3, "method": cfg["ex"], "tolerance": CIS_TOL}
    return sp.make_params(
        method, "adaptive" if solver == "sp2" else solver, eps=SCF_EPS, sp2=(SP2_EPS if solver == "sp2" else None),
        force_mode=fmode, uhf=bool(cfg.get("uhf")), **extra,
    )  # fmt: skip


def cfg_key(cfg):
    return "|".join(str(cfg.get(k)) for k in ("method", "solver", "fmode", "ex", "act", "engine")) + (f"|acts={cfg['acts']}" if cfg.get("acts") else "") + ("|uhf" if cfg.get("uhf") else "") + (f"|com={cfg['com'][0]}{cfg['com'][1]}" if cfg.get("com") else "") + ("|molid=rev" if cfg.get("molid") else "")


def tolerance(cfg):
    return K * max(SCF_EPS, SP2_EPS if cfg["solver"] == "sp2" else 0.0)


# --------------------------------------------------------------------------- execution


def _sp_call(mols, cfg, pad, pat, uninit="zero"):
    """one real call under the horizon; returns (obs | None, status, message)"""
    buf = io.StringIO()
    try:
        with contextlib.redirect_stdout(buf), B.uninitialised(uninit), Horizon(HORIZON) as hz:
            act = cfg.get("act") or None
            if cfg.get("acts"):
                import torch

                act = torch.as_tensor(cfg["acts"], dtype=torch.int64)
            obs = B.single_point(mols, make_params(cfg), pad, pat, active_state=act)
        return obs, "ok", hz.max_count()
    except IterationHorizon as e:
        return None, "horizon", str(e)
    except NotImplementedError as e:
        return None, "rejected", f"NotImplementedError: {e}"
    except Exception as e:  # noqa: BLE001
        return None, "exception", f"{type(e).__name__}: {e}"


def _md_call(mols, specs, cfg, pad, pat):
    eng, xe = ALL_ENGINES[cfg["engine"]]
    p = sp.make_params(cfg["method"], cfg["solver"], eps=SCF_EPS)
    with B.uninitialised("zero"):
        return B.run_md(
            eng, mols, p, MD_STEPS, dt=0.5, temp=0.0, velocities=[velocity(s) for s in specs], pad_extra=pad,
            pattern=pat, k=3, xl_extra=xe, horizon=Horizon(HORIZON * (MD_STEPS + 1)), remove_com=cfg.get("com"),
            molid=(list(reversed(range(len(mols)))) if cfg.get("molid") == "rev" else None),
        )  # fmt: skip


def ref_key(cfg, spec):
    return cfg_key(cfg) + "|" + spec[0] + "|" + str(spec[1])


def row_cfg(cfg, k):
    """configuration of row k alone: a per-molecule active-state list becomes that molecule's own active state"""
    if cfg.get("acts"):
        c = {x: y for x, y in cfg.items() if x != "acts"}
        c["act"] = cfg["acts"][k]
        return c
    return cfg


def compute_ref(item):
    """the molecule alone (no padding, untransposed)"""
    cfg, spec, seed = item
    spec = [spec[0], spec[1], None]
    mol = make_mol(spec, seed)
    if cfg.get("engine"):
        r = _md_call([mol], [spec], cfg, 0, "zero")
        if r["error"]:
            return {"status": "exception", "msg": r["error"]}
        return {"status": "ok", "h5": r["h5.0"]}
    obs, status, msg = _sp_call([mol], cfg, 0, "zero")
    if status != "ok":
        return {"status": status, "msg": msg}
    return {"status": "ok", "row": B.row(obs, 0, mol), "hz": msg}


# --------------------------------------------------------------------------- oracle

GS_KEYS = ["Etot", "Hf", "Eelec", "Enuc", "Eiso", "force", "q", "e_mo", "e_gap", "dm", "dipole"]


def _nondegenerate(e):
    """mask of states further than DEGENERATE from both neighbours"""
    e = np.asarray(e, float)
    ok = np.ones(len(e), bool)
    for i in range(len(e)):
        if i > 0 and abs(e[i] - e[i - 1]) < DEGENERATE:
            ok[i] = False
        if i + 1 < len(e) and abs(e[i + 1] - e[i]) < DEGENERATE:
            ok[i] = False
    return ok


def compare_row(r, ref, cfg, tr=None):
    """problems and max deviation of one trimmed batch row against the single-molecule reference"""
    prob = []
    tol = tolerance(cfg)
    worst = 0.0
    if tr:
        r = B.permute_row(r, tr[0], tr[1])
    for name, v in r.items():
        if name.startswith("pad."):
            if v.size and np.abs(v).max() != 0.0:
                prob.append(f"{name}: padding region of the row is not zero (max {np.abs(v).max():.3e})")
    if not np.all(np.isfinite(r["Etot"])):
        prob.append("Etot not finite")
    ex = cfg.get("ex")
    act = cfg.get("act") or 0
    skip = set()
    if ex:
        e_ref = ref["cis_energies"]
        e_row = r["cis_energies"]
        nreq = min(3, len(e_ref))
        if len(e_row) < nreq:
            prob.append(f"cis_energies: {len(e_row)} states returned, {nreq} requested")
        n = min(len(e_row), len(e_ref))
        d = float(np.abs(e_row[:n] - e_ref[:n]).max()) if n else 0.0
        worst = max(worst, d)
        tol_x = K * CIS_TOL
        if d > tol_x:
            i = int(np.argmax(np.abs(e_row[:n] - e_ref[:n])))
            prob.append(
                f"cis_energies: state {i + 1} is {e_row[i]:.8f} eV in the batch, {e_ref[i]:.8f} eV alone (|d| {d:.2e} > {tol_x:.0e})"
            )
        nd = _nondegenerate(e_ref)
        for name in ("oscillator_strength", "transition_dipole"):
            if r.get(name) is None or ref.get(name) is None:
                continue
            a, b = r[name][:n], ref[name][:n]
            for s in range(n):
                if not nd[s]:
                    continue
                ds = float(min(np.abs(a[s] - b[s]).max(), np.abs(a[s] + b[s]).max())) if name == "transition_dipole" else float(np.abs(a[s] - b[s]).max())
                worst = max(worst, ds)
                if ds > tol_x:
                    prob.append(f"{name}: state {s + 1} differs by {ds:.2e} (> {tol_x:.0e})")
        if act and not nd[act - 1]:
            skip.update(("force",))  # gradient of a degenerate state is not unique
        if act:
            tol = max(tol, tol_x)
    for name in GS_KEYS:
        if name in skip or r.get(name) is None or ref.get(name) is None:
            continue
        a, b = np.asarray(r[name]), np.asarray(ref[name])
        if a.shape != b.shape:
            prob.append(f"{name}: shape {a.shape} in the batch, {b.shape} alone")
            continue
        if not np.all(np.isfinite(a)):
            prob.append(f"{name}: not finite")
            continue
        d = float(np.abs(a - b).max()) if a.size else 0.0
        worst = max(worst, d)
        if d > tol:
            prob.append(f"{name}: differs from the single-molecule result by {d:.3e} (> {tol:.0e})")
    return prob, worst


def compare_h5(h5, ref, tol):
    prob = []
    worst = 0.0
    if h5 is None:
        return ["no HDF5 file written for this molecule"], 0.0
    for k, b in ref.items():
        if k not in h5:
            prob.append(f"dataset {k} missing")
            continue
        a = h5[k]
        if a.shape != b.shape:
            prob.append(f"dataset {k}: shape {a.shape} in the batch, {b.shape} alone")
            continue
        if a.dtype.kind in "iub" or b.dtype.kind in "iub":
            if not np.array_equal(a, b):
                prob.append(f"dataset {k}: integer content differs")
            continue
        if a.dtype.kind != "f":
            if not np.array_equal(a, b):
                prob.append(f"dataset {k}: content differs")
            continue
        if not np.all(np.isfinite(a)):
            prob.append(f"dataset {k}: not finite")
            continue
        d = float(np.abs(a - b).max() / max(1.0, float(np.abs(b).max()))) if a.size else 0.0
        worst = max(worst, d)
        if d > tol:
            prob.append(f"dataset {k}: differs from the run alone by {d:.3e} relative (> {tol:.0e})")
    for k in h5:
        if k not in ref:
            prob.append(f"dataset {k} only exists in the batch run")
    return prob, worst


def _decade(x):
    if x == 0.0:
        return "0"
    return f"1e{int(np.floor(np.log10(x)))}"


def run_case(case, refs=None):
    """Execute one lattice point and judge every row.  Returns a small picklable dict."""
    refs = _REFS if refs is None else refs
    cfg, seed = case["cfg"], case["seed"]
    specs = case["mols"]
    mols = [make_mol(s, seed) for s in specs]
    pad, pat = case["pad"], case["pat"]
    nslots = B.n_pad_slots(mols, pad)
    out = {"status": "ok", "problems": [], "worst": 0.0, "compared": 0, "notconv": 0, "nslots": nslots}
    sp2_anion_padded = cfg["solver"] == "sp2" and nslots > 0 and any(s[0] in ANIONS for s in specs)
    if cfg.get("engine"):
        r = _md_call(mols, specs, cfg, pad, pat)
        if r["error"]:
            if r["error"].startswith("IterationHorizon"):
                out["status"] = "horizon"
            else:
                out["status"] = "exception"
            out["problems"].append(f"batch run raised {r['error']}")
            return out
        tol = K * SCF_EPS
        for k, s in enumerate(specs):
            ref = refs[ref_key(cfg, s)]
            if ref["status"] != "ok":
                out["problems"].append(f"row {k} ({s[0]}): the run alone failed: {ref.get('msg')}")
                continue
            h5 = r[f"h5.{k}"]
            if s[2] and h5 is not None:  # transposed atoms: permute per-atom rows back
                h5 = dict(h5)
                i, j = s[2]
                for name in ("coordinates/values", "velocities/values", "forces/values"):
                    a = h5[name].copy()
                    a[:, [i, j]] = a[:, [j, i]]
                    h5[name] = a
            p, w = compare_h5(h5, ref["h5"], tol)
            out["compared"] += 1
            out["worst"] = max(out["worst"], w)
            out["problems"] += [f"row {k} ({s[0]}): {x}" for x in p]
        return out
    obs, status, msg = _sp_call(mols, cfg, pad, pat, case.get("uninit", "zero"))
    if status != "ok":
        out["status"] = status
        if status == "horizon" and sp2_anion_padded:
            out["status"] = "horizon_c03"
        out["problems"].append(f"batch call: {msg}")
        return out
    out["hz"] = msg
    for k, s in enumerate(specs):
        ref = refs[ref_key(row_cfg(cfg, k), s)]
        if ref["status"] != "ok":
            if ref["status"] == "rejected":
                continue
            out["problems"].append(f"row {k} ({s[0]}): the molecule alone failed: {ref.get('msg')}")
            continue
        r = B.row(obs, k, mols[k])
        if bool(r["notconverged"]) or bool(ref["row"]["notconverged"]):
            out["notconv"] += 1
            continue
        p, w = compare_row(r, ref["row"], cfg, tr=s[2])
        out["compared"] += 1
        out["worst"] = max(out["worst"], w)
        out["problems"] += [f"row {k} ({s[0]}{' transposed %s' % (s[2],) if s[2] else ''}): {x}" for x in p]
    return out


def recheck(case):
    """fresh process, references recomputed there (singles), then the batch again"""
    refs = {}
    for i, s in enumerate(case["mols"]):
        k = ref_key(row_cfg(case["cfg"], i), s)
        if k not in refs:
            refs[k] = compute_ref((row_cfg(case["cfg"], i), s, case["seed"]))
    return run_case(case, refs)


# --------------------------------------------------------------------------- lattices


def _spec(name, dist=0, tr=None):
    return [name, dist, list(tr) if tr else None]


def _layouts(specs, seed, widths, patterns):
    """(pad, pattern) pairs that assemble to distinct arrays for this batch"""
    mols = [make_mol(s, seed) for s in specs]
    seen = set()
    out = []
    for w in widths:
        for pat in patterns:
            _, xyz, _, _ = B.assemble(mols, w, pat)
            h = hashlib.sha1(xyz.tobytes() + bytes([w])).hexdigest()
            if h in seen:
                continue
            seen.add(h)
            out.append((w, pat))
    return out


def _case(sec, specs, pad, pat, cfg, seed):
    return {"sec": sec, "mols": [list(s) for s in specs], "pad": pad, "pat": pat, "cfg": dict(cfg), "seed": seed}


def _cfg(method, solver="adaptive", fmode="autodiff", **kw):
    c = {"method": method, "solver": solver, "fmode": fmode}
    c.update(kw)
    return c


def lattice(tier, seed):
    quick = tier == "quick"
    maxsize = 2 if quick else 3
    cases = []
    batches = []
    for n in range(1, maxsize + 1):
        batches += [list(t) for t in itertools.product(ALPHABET, repeat=n)]
    # gs: full layout lattice x method x solver
    for bt in batches:
        specs = [_spec(n) for n in bt]
        for w, pat in _layouts(specs, seed, WIDTHS, B.PAD_PATTERNS):
            if len(bt) == 1 and w == 0:
                continue  # that is the reference itself
            for method in METHODS:
                # the full pattern alphabet for AM1 at width 1 (quick) / for batches of size <= 2 (thorough);
                # the rest of the lattice uses the two extreme patterns (all zero, a different value per slot)
                reduced = (method != "AM1" or w != 1) if quick else (len(bt) == 3)
                if reduced and (pat not in ("zero", "mixed") or (len(bt) == 3 and w == 3)):
                    continue
                for solver in SOLVERS:
                    cases.append(_case("gs", specs, w, pat, _cfg(method, solver), seed))
    # fm: force modes on every batch
    fm_layouts = [(0, "zero"), (1, "mixed")] if quick else [(0, "zero"), (1, "mixed"), (3, "far")]
    for bt in batches:
        if len(bt) == 1:
            continue
        if not quick and len(bt) == 3 and len(set(bt)) < 3 and bt[0] != bt[2]:
            continue  # thorough: triples with a repeated member only in the a-b-a arrangement (analytical is 1 s per call)
        specs = [_spec(n) for n in bt]
        for w, pat in fm_layouts[: (2 if len(bt) == 3 else 3)]:
            for method in METHODS:
                for fmode in ("analytical", "semi_numerical"):
                    cases.append(_case("fm", specs, w, pat, _cfg(method, "adaptive", fmode), seed))
    # cfg: full method x solver x force mode product on the cyclic neighbour pairs
    for i, a in enumerate(ALPHABET):
        b = ALPHABET[(i + 1) % len(ALPHABET)]
        for method in METHODS:
            for solver in SOLVERS:
                for fmode in FMODES:
                    for uninit in ("zero", "nan"):
                        c = _case("cfg", [_spec(a), _spec(b)], 1, "mixed", _cfg(method, solver, fmode), seed)
                        c["uninit"] = uninit
                        cases.append(c)
    # uhf: the unrestricted code path (two spin blocks per molecule) on every ordered batch, closed-shell molecules as
    #      UHF singlets and with a doublet (CH3) / triplet (O2) member in every position
    ualpha = ALPHABET + ["CH3", "O2"]
    ub = [list(t) for t in itertools.product(ualpha, repeat=2)]
    if quick:
        ub += [["H2CO", "CH3", "H2O"], ["CH3", "C2H2", "HF"], ["HF", "H2CO", "O2"]]
    else:
        ub += [list(t) for t in itertools.permutations(ualpha, 3) if ualpha.index(t[0]) < ualpha.index(t[2])]
    for bt in ub:
        specs = [_spec(n) for n in bt]
        for w, pat in ((0, "zero"), (1, "mixed")):
            for method in ["AM1"] if quick else METHODS:
                cases.append(_case("uhf", specs, w, pat, _cfg(method, "adaptive", uhf=True), seed))
    # tr: transpositions
    for i, name in enumerate(ALPHABET):
        mate = ALPHABET[(i + 3) % len(ALPHABET)]
        for t in B.transpositions(M.get(name)):
            for method in METHODS:
                for solver in SOLVERS:
                    for fmode in ("autodiff", "analytical"):
                        cases.append(_case("tr", [_spec(name, 0, t)], 0, "zero", _cfg(method, solver, fmode), seed))
                for solver in ["adaptive"] if quick else SOLVERS:
                    cases.append(_case("tr", [_spec(name, 0, t), _spec(mate)], 1, "far", _cfg(method, solver), seed))
                    cases.append(_case("tr", [_spec(mate), _spec(name, 0, t)], 1, "atom0", _cfg(method, solver), seed))
    # cis: homogeneous copies and mixed batches
    for name in ALPHABET:
        copies = [0, 1, 2]
        hb = [list(t) for n in range(2, maxsize + 1) for t in itertools.product(copies, repeat=n)]
        for cb in hb:
            specs = [_spec(name, d) for d in cb]
            for w, pat in ((0, "zero"), (1, "far")):
                for ex, act in (("cis", 0), ("cis", 1), ("rpa", 0), ("rpa", 1)):
                    if not quick or len(cb) == 2:
                        cases.append(_case("cis", specs, w, pat, _cfg("AM1", ex=ex, act=act), seed))
                cases.append(_case("cis", specs, w, pat, _cfg("PM6_SP", ex="cis", act=0), seed))
            # every batch member on its OWN excited state (as surface hopping does), analytical excited gradient
            if len(cb) in (2, 3) and name in ("H2CO", "H2O", "C2H2"):
                for acts in ([2, 1], [1, 3]) if len(cb) == 2 else ([2, 1, 3], [1, 1, 2]):
                    if not quick or cb in ([0, 1], [1, 2], [0, 1, 2]):
                        cases.append(_case("cis", specs, 0, "zero", _cfg("AM1", fmode="analytical", ex="cis", acts=acts), seed))
            if len(cb) == 2 or not quick:
                for ex in ("cis", "rpa"):  # adversarial content of never-written memory
                    c = _case("cis", specs, 0, "zero", _cfg("AM1", ex=ex, act=0), seed)
                    c["uninit"] = "nan"
                    cases.append(c)
    mixed = [list(t) for t in itertools.permutations(ALPHABET, 2)]
    # every ORDER of a triple, in particular the two 3-cycles: a permutation applied instead of its inverse when a
    # size-sorted batch is restored is invisible on self-inverse orders (identity, single swaps, reversal)
    if quick:
        for tri in (("C2H2", "H2O", "CH4"), ("H2CO", "HF", "NH4+")):
            mixed += [list(t) for t in itertools.permutations(tri, 3)]
    else:
        mixed += [list(t) for t in itertools.permutations(ALPHABET, 3) if ALPHABET.index(t[0]) < ALPHABET.index(t[2])]
        mixed += [list(t) for t in itertools.permutations(ALPHABET[:6], 3) if not ALPHABET.index(t[0]) < ALPHABET.index(t[2])]
    for bt in mixed:
        specs = [_spec(n) for n in bt]
        for w, pat in ((0, "zero"), (1, "far")):
            cases.append(_case("cis", specs, w, pat, _cfg("AM1", ex="cis", act=0), seed))
        if len(bt) == 2 and bt[0] < bt[1]:
            cases.append(_case("cis", specs, 0, "zero", _cfg("AM1", ex="rpa", act=0), seed))  # rejected loudly
            cases.append(_case("cis", specs, 0, "zero", _cfg("AM1", ex="cis", act=1), seed))  # rejected loudly
    # md
    md_batches = [list(t) for t in itertools.product(ALPHABET, repeat=2)]
    for engine in ENGINES:
        cfg = _cfg("AM1", engine=engine)
        for name in ALPHABET:
            for w, pat in ((1, "atom0"), (3, "huge")):
                cases.append(_case("md", [_spec(name)], w, pat, cfg, seed))
        for bt in md_batches:
            specs = [_spec(n) for n in bt]
            for w, pat in ((1, "far"),) if quick else ((0, "zero"), (1, "far"), (3, "mixed")):
                cases.append(_case("md", specs, w, pat, cfg, seed))
        if not quick:
            for bt in itertools.product(ALPHABET, repeat=3):
                cases.append(_case("md", [_spec(n) for n in bt], 1, "mixed", cfg, seed))
        # one transposed member per molecule (below)
        for i, name in enumerate(ALPHABET):
            ts = B.transpositions(M.get(name))
            if ts:
                mate = ALPHABET[(i + 2) % len(ALPHABET)]
                cases.append(_case("md", [_spec(mate), _spec(name, 0, ts[-1])], 1, "far", cfg, seed))
    # centre-of-mass removal during the run (user velocities carry net linear and angular momentum): what is removed
    # from a molecule, and the kinetic energy handed back to it, must not depend on its batch mates
    for engine in ("bomd", "xl") if quick else list(ENGINES):
        if engine not in ENGINES:
            continue
        for com in (["linear", 1], ["angular", 2]):
            # (no diatomics / linear molecules here: 3N - 6 degrees of freedom under ('angular', N) is documented as not
            #  detecting linear molecules, a diatomic then has n_dof = 0 and no temperature; C13 records that refusal)
            for bt in [list(t) for t in itertools.permutations(["CH4", "H2O", "H2CO"], 2)] + ([] if quick else [["NH4+", "H2CO"], ["CH4", "H2O", "H2CO"]]):
                cases.append(_case("md", [_spec(n) for n in bt], 1, "far", _cfg("AM1", engine=engine, com=com), seed))
    # the output request lists the molecules in another order than the batch (molid = [1, 0]): every file must hold the
    # values of ITS batch row, whatever the position of the molecule in the request
    for engine in ("bomd",) if quick else ("bomd", "xl"):
        if engine not in ENGINES:
            continue
        for bt in [list(t) for t in itertools.permutations(["CH4", "H2O", "H2CO"], 2)]:
            cases.append(_case("md", [_spec(n) for n in bt], 1, "far", _cfg("AM1", engine=engine, molid="rev"), seed))
    for engine in ENGINES_PAIRS_ONLY:
        for bt in md_batches:
            cases.append(_case("md", [_spec(n) for n in bt], 1, "far", _cfg("AM1", engine=engine), seed))
    return cases


def case_key(c):
    mols = ",".join(f"{s[0]}{'~%d' % s[1] if s[1] else ''}{'(%d%d)' % tuple(s[2]) if s[2] else ''}" for s in c["mols"])
    return f"{c['sec']}|{mols}|pad{c['pad']}:{c['pat']}|{cfg_key(c['cfg'])}" + ("|uninit=nan" if c.get("uninit") == "nan" else "")


def describe(c, res):
    """flat descriptor for known-finding predicates"""
    cfg = c["cfg"]
    names = [s[0] for s in c["mols"]]
    first = res["problems"][0] if res["problems"] else ""
    quantity = ""
    if ": " in first:
        quantity = first.split(": ")[1].split(":")[0].strip() if first.startswith("row") else first.split(":")[0]
    species_rows = {tuple(M.get(n)["species"]) for n in names}
    dists = [s[1] for s in c["mols"]]
    return {
        "section": c["sec"],
        "molecules": ",".join(names),
        "nmol": len(names),
        "pad_extra": c["pad"],
        "pad_pattern": c["pat"],
        "pad_slots": res.get("nslots", -1),
        "method": cfg["method"],
        "solver": cfg["solver"],
        "force_mode": cfg["fmode"],
        "excited": cfg.get("ex") or "none",
        "active_state": cfg.get("act") or 0,
        "engine": cfg.get("engine") or "none",
        "uninitialised_memory": c.get("uninit", "zero"),
        "status": res["status"],
        "homogeneous": len(species_rows) == 1,
        "has_symmetric_copy": any(d == 0 for d in dists) and cfg.get("ex") is not None,
        "has_distorted_copy": any(d != 0 for d in dists),
        "has_anion": any(n in ANIONS for n in names),
        "transposed": any(s[2] for s in c["mols"]),
        "quantity": quantity[:40],
        "max_dev": float(res.get("worst", 0.0)),
        "first_problem": first[:160],
    }


def run(chk, tier, seed):
    B.freeze_code()
    cases = lattice(tier, seed)
    only = os.environ.get("C05_SECTIONS")  # development aid; a filtered run is reported as capped
    if only:
        cases = [c for c in cases if c["sec"] in only.split(",")]
        chk.cap(f"C05_SECTIONS={only}")
    chk.planned = len(cases)
    # references: every (configuration, molecule, distortion) alone
    need = {}
    for c in cases:
        for i, s in enumerate(c["mols"]):
            rc = row_cfg(c["cfg"], i)
            need.setdefault(ref_key(rc, s), (rc, [s[0], s[1], None], seed))
    keys = sorted(need)
    res = pmap(compute_ref, [need[k] for k in keys], chunk=4, timeout=3600, progress="C05 references")
    hz_max = 0
    for k, r in zip(keys, res):
        if is_timeout(r) or is_error(r):
            chk.harness_error(f"reference {k} did not complete: {r}")
            r = {"status": "exception", "msg": str(r)}
        _REFS[k] = r
        hz_max = max(hz_max, r.get("hz", 0) or 0)
        if r["status"] in ("horizon", "exception"):
            cfg, spec, _ = need[k]
            c = _case("alone", [spec], 0, "zero", cfg, seed)
            chk.violation(
                describe(c, {"status": r["status"], "problems": [r["msg"]], "nslots": 0}),
                f"{case_key(c)}: single molecule: {r['msg']}", replay=c,
            )  # fmt: skip
    chk.extra["references"] = len(keys)
    # determinism: one sample case of each kind twice in two processes
    samples = [c for c in cases if c["sec"] == "gs" and len(c["mols"]) == 2][:1] + [c for c in cases if c["sec"] == "md"][:1]
    twice = pmap(run_case, samples + samples, chunk=1, timeout=3600)
    for c, a, b in zip(samples, twice[: len(samples)], twice[len(samples) :]):
        if is_error(a) or is_timeout(a) or a != b:
            chk.harness_error(f"non-deterministic sample case {case_key(c)}: {a} vs {b}")
    results = pmap(run_case, cases, chunk=8, timeout=3600, progress="C05 lattice")
    suspects = []
    n_sp2_excl = 0
    for c, r in zip(cases, results):
        k = case_key(c)
        if is_timeout(r) or is_error(r):
            st = "timeout" if is_timeout(r) else "exception"
            r = {"status": st, "problems": [f"case did not complete: {str(r)[:300]}"], "worst": 0.0, "compared": 0, "nslots": -1}
        if r["status"] == "rejected":
            chk.rejected += 1
            chk.case(k, nontrivial=False, outcome=f"{c['sec']}|rejected")
            continue
        if r["status"] == "horizon_c03":
            chk.excluded += 1
            n_sp2_excl += 1
            chk.case(k, nontrivial=False, outcome=f"{c['sec']}|sp2-padded-anion-horizon")
            continue
        chk.excluded += r.get("notconv", 0)
        hz_max = max(hz_max, r.get("hz", 0) or 0)
        chk.case(
            k, nontrivial=r.get("compared", 0) > 0,
            outcome=f"{c['sec']}|{c['cfg']['solver']}|{c['cfg'].get('engine')}|{r['status']}|{_decade(r.get('worst', 0.0))}|{len(r['problems']) > 0}",
        )  # fmt: skip
        if r["problems"]:
            if r["status"] == "ok":
                suspects.append((c, r))
            else:  # an exception / horizon trip is not a numerical disagreement: reported as it is
                chk.violation(describe(c, r), f"{k}: {r['problems'][0]} (+{len(r['problems']) - 1} more)", replay=c)
    # every numerical disagreement is re-evaluated once in a fresh process with recomputed singles before it is reported
    again = pmap(recheck, [c for c, _ in suspects], chunk=1, timeout=3600, progress="C05 recheck")
    for (c, r), r2 in zip(suspects, again):
        k = case_key(c)
        if is_timeout(r2) or is_error(r2):
            r2 = r
        if not r2["problems"]:
            chk.harness_error(f"{k}: disagreement not reproduced in a fresh process: {r['problems'][0]}")
            continue
        chk.violation(describe(c, r2), f"{k}: {r2['problems'][0]} (+{len(r2['problems']) - 1} more)", replay=c)
    chk.extra["sp2_padded_anion_horizon_excluded"] = n_sp2_excl
    chk.extra["max_loop_header_count_seen"] = int(hz_max)
    chk.extra["sections"] = {s: sum(1 for c in cases if c["sec"] == s) for s in ("gs", "fm", "cfg", "uhf", "tr", "cis", "md")}


def replay(payload):
    c = payload["replay"]
    r = recheck(c)
    print("  case:", case_key(c), "status:", r["status"], "max deviation:", r.get("worst"))
    for p in r["problems"]:
        print("  ", p)
    return not r["problems"]
