"""C08  NVE dynamics is a second-order, time-reversible, momentum-conserving integrator; the thermo
rows written are those of the positions / velocities written for the same step.

Explorer: S-lat over *run families*.  A family is one (molecule or padded batch, scf_eps, reuse_P,
remove_com, initial-velocity kind, active surface, physical horizon) point of the lattice; it is
executed as seven real `Molecular_Dynamics_Basic.run()` executions from the same initial state:

    dt in {0.4, 0.2, 0.1, 0.05} and the dt = 0.0125 reference, all over the same physical time,
    forward n steps at dt = 0.2, then  v -> -v  and forward n steps again.

Oracles (every one evaluated on every family):
  per run     total P and L from /velocities,/coordinates constant; Ek row == 1/2 sum m v^2 of the
              /velocities row, T row == Ek*TEMPERATURE_SCALE/(n_dof/2) under the n_dof in force,
              Ep row == a fresh single point at the /coordinates row
  per family  trajectory error vs the reference and max|E(t)-E(0)| shrink by 4 per halving of dt
              (window [3.5, 4.7], measured 4.04 .. 4.20 incl. the known bias of the finite reference),
              energy fluctuation dt=0.05 -> 0.0125 shrinks by 16 (window [3.5^2, 4.7^2]),
              the reversed run returns to the initial positions and to minus the initial velocities
  once        unit constants mutually consistent and within 1e-6 of CODATA 2018 (vp.oracles.units)

Generic orientations only (M.generic_rot), so the frozen-frame defect of C02 cannot leak a torque in.
"""
import copy

import numpy as np

from ..drivers import md as MD
from ..drivers import molecules as M
from ..drivers import sp
from ..oracles import units as U
from ..pool import is_error, is_timeout, pmap

PID = "C08"
LEVEL = "exploration"
RULE = (
    "run families = lattice points (molecule|padded batch) x scf_eps x reuse_P x remove_com x initial velocities "
    "{seeded Maxwell-Boltzmann 300 K, user field with net P and L} x active surface {S0, CIS S1} x horizon; each "
    "family = 5 real NVE runs (dt 0.4/0.2/0.1/0.05 + 0.0125 reference, same physical time) + forward/reverse pair; "
    "a case is one executed run (key = family|kind|dt), non-trivial when it has >= 2 written steps to compare; "
    "family-level ratios are counted as cases too (key = family|ratios)"
)
ASSUMPTIONS = [
    "atomic masses are taken from the package's own table (their values are not part of the property)",
    "no secular drift is decided only inside the horizon (<= 8 fs, <= 640 steps): through the dt^2 scaling of "
    "max|E(t)-E(0)| down to dt = 0.0125 fs; a slower drift is out of reach (DESIGN.md section 5)",
    "generic orientations only (frozen-frame defect of C02 excluded by construction)",
    "CPU, float64, single thread",
]

DTS = (0.4, 0.2, 0.1, 0.05)
DT_REF = 0.0125
DT_REV = 0.2
RATIO_WIN = (3.5, 4.7)
CIS_TOL = 1e-10

# ----------------------------------------------------------------------------- families


def _fam_key(f):
    com = "none" if f["com"] is None else f"{f['com'][0]}{f['com'][1]}"
    return f"{f['mol']}|eps{f['eps']:g}|reuse{int(f['reuse'])}|com={com}|vel={f['vel']}|S{f['surface']}|T{f['tphys']:g}"


def _fam(mol, eps, reuse, com, vel, surface, tphys, rot):
    return dict(mol=mol, eps=eps, reuse=reuse, com=com, vel=vel, surface=surface, tphys=tphys, rot=rot)


COMS = [None, ["linear", 1], ["linear", 3], ["angular", 2]]


def families(tier, seed):
    rot = int(seed)
    fams = []
    if tier == "quick":
        t = 2.0
        fams = [
            _fam("H2O", 1e-11, True, None, "mb", 0, t, rot),
            _fam("H2O", 1e-11, False, ["linear", 1], "mb", 0, t, rot),
            _fam("H2O", 1e-8, True, ["angular", 2], "mb", 0, t, rot),
            _fam("H2CO", 1e-11, True, ["linear", 3], "mb", 0, t, rot),
            _fam("H2CO", 1e-8, False, None, "user", 0, t, rot),
            _fam("CH4+H2O", 1e-11, True, None, "mb", 0, t, rot),
            _fam("CH4+H2O", 1e-8, False, ["angular", 2], "mb", 0, t, rot),
            _fam("CH4+H2O", 1e-11, True, None, "user", 0, t, rot),
            _fam("H2CO", 1e-11, True, None, "mb", 1, t, rot),
            _fam("H2O", 1e-8, False, None, "user", 0, t, rot),
            _fam("H2CO", 1e-11, False, ["angular", 2], "mb", 0, t, rot),
            _fam("CH4+H2O", 1e-11, False, ["linear", 3], "mb", 0, t, rot),
        ]
    else:
        t = 4.0
        for mol in ("H2O", "H2CO", "CH4+H2O"):
            for eps in (1e-8, 1e-11):
                for reuse in (True, False):
                    for com in COMS:
                        fams.append(_fam(mol, eps, reuse, com, "mb", 0, t, rot))
                    fams.append(_fam(mol, eps, reuse, None, "user", 0, t, rot))
        for reuse in (True, False):
            for com in (None, ["angular", 2]):
                fams.append(_fam("H2CO", 1e-11, reuse, com, "mb", 1, t, rot))
        fams.append(_fam("H2CO", 1e-11, True, None, "user", 1, t, rot))
        # the longest horizon (8 fs, 640 reference steps) on one family per molecule
        fams.append(_fam("H2O", 1e-11, True, None, "mb", 0, 8.0, rot))
        fams.append(_fam("H2CO", 1e-11, True, ["linear", 3], "mb", 0, 8.0, rot))
        fams.append(_fam("CH4+H2O", 1e-11, True, ["angular", 2], "mb", 0, 8.0, rot))
        fams.append(_fam("H2O", 1e-8, False, None, "user", 0, 8.0, rot))
    return fams


def _mols(f):
    R = M.generic_rot(f["rot"])
    return [M.apply(M.get(n), R) for n in f["mol"].split("+")]


def _params(f):
    p = sp.make_params("AM1", eps=f["eps"])
    if f["surface"] > 0:
        p["excited_states"] = {"n_states": 2, "method": "cis", "tolerance": CIS_TOL}
    return p


def user_field(mols, net_p=True, net_l=True, scale=1.0):
    """deterministic velocity field (A/fs) of thermal magnitude: internal pattern + optional uniform translation
    + optional rigid rotation; padding rows zero.  Returns (nmol, nmax, 3)."""
    n = max(len(m["species"]) for m in mols)
    v = np.zeros((len(mols), n, 3))
    for k, m in enumerate(mols):
        na = len(m["species"])
        i = np.arange(na)[:, None] + 1.0
        c = np.arange(3)[None, :] + 1.0
        pat = np.sin(1.7 * i * c + 0.9 * k) * np.cos(0.6 * i + 1.3 * c)
        w = pat * 0.006 / np.sqrt(np.maximum(_mass_of(m["species"]), 1.0))[:, None] * 2.0
        # remove the pattern's own net P and L so that net_p / net_l decide what is there
        w = strip_rigid(m, w)
        if net_p:
            w = w + np.array([0.004, -0.002, 0.001]) * (1 + 0.25 * k)
        if net_l:
            mass = _mass_of(m["species"])
            rc = (mass[:, None] * m["coords"]).sum(0) / mass.sum()
            w = w + np.cross(np.array([0.003, -0.002, 0.004]) * (1 - 0.3 * k), m["coords"] - rc)
        v[k, :na] = w * scale
    return v


_MASS = None


def _mass_of(species):
    global _MASS
    if _MASS is None:
        from seqm.seqm_functions.constants import Constants

        _MASS = Constants().mass.detach().numpy().copy()
    return _MASS[np.asarray(species)]


def momenta(mass, x, v):
    """P (3,), L about the origin (3,), scales"""
    mv = mass[:, None] * v
    return mv.sum(0), np.cross(x, mv).sum(0)


def strip_rigid(m, w):
    """remove net linear and angular momentum from field w (na,3) of molecule dict m (numpy reference model)"""
    mass = _mass_of(m["species"])
    x = m["coords"]
    rc = (mass[:, None] * x).sum(0) / mass.sum()
    r = x - rc
    w = w - (mass[:, None] * w).sum(0) / mass.sum()
    L = np.cross(r, mass[:, None] * w).sum(0)
    I = (mass * (r * r).sum(1)).sum() * np.eye(3) - np.einsum("a,ai,aj->ij", mass, r, r)
    om = np.linalg.pinv(I, rcond=1e-10) @ L
    return w - np.cross(om, r)


# ----------------------------------------------------------------------------- one run + per-run oracles


def _tols(f, nsteps):
    from seqm.MolecularDynamics import CONSTANTS as C

    eps = f["eps"]
    return dict(
        # sum of the forces is zero by construction (pairwise terms): measured 1e-17 .. 4e-17 for every eps
        P_rel=1e-11,
        # the net torque of an unconverged density is O(eps): measured |dL| = 1.2e-11 (eps 1e-11) and 5e-9 (eps 1e-8)
        # after 2 fs, i.e. a torque error of 26-60 eps; bound = ACC_SCALE * t * 3000 eps  (50-100x head-room)
        # on the CIS surface the excited-state gradient adds the Davidson tolerance (1e-10): measured 1.3e-10 after 2 fs
        L_abs=C.ACC_SCALE * f["tphys"] * 3.0e3 * (eps + (CIS_TOL if f["surface"] else 0.0)) + 1e-13,
        Ek_rel=1e-12,
        T_rel=1e-12,
        # a fresh SCF from the default guess and the MD's SCF from the previous density stop at different points of
        # the same eps ball: measured <= 4e-10 (eps 1e-11), <= 3e-8 (eps 1e-8)
        Ep_abs=max(1e-7, 100.0 * eps),
    )


def _single_points(f, frames_by_mol):
    """fresh single points at written coordinates; frames_by_mol[k] = (nframes, na_k, 3).  Returns Etot (nmol, nframes)."""
    base = _mols(f)
    p = _params(f)
    nfr = frames_by_mol[0].shape[0]
    out = np.zeros((len(base), nfr))
    chunk = max(1, 48 // len(base))
    for s in range(0, nfr, chunk):
        mols = []
        for k in range(s, min(s + chunk, nfr)):
            for j, b in enumerate(base):
                m = dict(b)
                m["coords"] = frames_by_mol[j][k]
                mols.append(m)
        r = sp.single_point(mols, p, names=["Etot"], active_state=(f["surface"] if f["surface"] else None))
        e = r["Etot"].reshape(-1, len(base))
        nc = r["notconverged"]
        if nc is not None and np.any(nc):
            e = e.copy()
            e[np.asarray(nc).reshape(-1, len(base))] = np.nan
        out[:, s : s + e.shape[0]] = e.T
    return out


def _md(f, dt, nsteps, mols, velocities):
    return MD.run_md(
        "bomd", mols, _params(f), nsteps, dt=dt, temp=300.0, seed=1000 + f["rot"], remove_com=(tuple(f["com"]) if f["com"] else None),
        reuse_P=f["reuse"], out=dict(data=1, coordinates=1, velocities=1, forces=0), velocities=velocities,
        active_state=(f["surface"] if f["surface"] else None),
    )  # fmt: skip


def per_run_oracles(f, r, nsteps, mols, check_ep=True):
    """returns (problems, stats); problems = [(oracle, mol index, magnitude, message)]"""
    from seqm.MolecularDynamics import CONSTANTS as C

    tol = _tols(f, nsteps)
    prob = []
    stats = {"P": 0.0, "L": 0.0, "Ek": 0.0, "T": 0.0, "Ep": 0.0}
    frames = []
    for k, m in enumerate(mols):
        h = r[f"h5.{k}"]
        mass = _mass_of(m["species"])
        x = h["coordinates/values"]
        v = h["velocities/values"]
        if x.shape[0] != nsteps + 1 or v.shape[0] != nsteps + 1 or h["data/thermo/Ek"].shape[0] != nsteps + 1:
            prob.append(("rows", k, 0.0, f"expected {nsteps + 1} rows, got x {x.shape[0]} v {v.shape[0]}"))
            return prob, stats
        frames.append(x)
        PL = [momenta(mass, x[i], v[i]) for i in range(x.shape[0])]
        P = np.array([a for a, _ in PL])
        L = np.array([b for _, b in PL])
        pscale = (mass[:, None] * np.abs(v[0])).sum() + 1e-300
        dP = np.abs(P - P[0]).max()
        dL = np.abs(L - L[0]).max()
        stats["P"] = max(stats["P"], dP / pscale)
        stats["L"] = max(stats["L"], dL / tol["L_abs"])
        if not dP <= tol["P_rel"] * pscale:
            prob.append(("P_conservation", k, dP / pscale, f"|P(t)-P(0)| = {dP:.3e} u A/fs ({dP / pscale:.2e} of sum m|v|), tolerance {tol['P_rel']:g} relative"))
        if not dL <= tol["L_abs"]:
            prob.append(("L_conservation", k, dL, f"|L(t)-L(0)| = {dL:.3e} u A^2/fs, tolerance {tol['L_abs']:.2e}"))
        ek = 0.5 * (mass[None, :, None] * v * v).sum((1, 2)) * C.KINETIC_ENERGY_SCALE
        Ek = h["data/thermo/Ek"]
        d = np.abs(Ek - ek).max() / max(np.abs(ek).max(), 1e-300)
        stats["Ek"] = max(stats["Ek"], d)
        if not d <= tol["Ek_rel"]:
            i = int(np.argmax(np.abs(Ek - ek)))
            prob.append(("Ek_row", k, d, f"/data/thermo/Ek[{i}] = {Ek[i]:.12e} but 1/2 sum m v^2 of /velocities[{i}] = {ek[i]:.12e} (rel {d:.2e})"))
        ncon = 0.0 if f["com"] is None else (6.0 if f["com"][0] == "angular" else 3.0)
        ndof = 3.0 * len(m["species"]) - ncon
        t = ek * C.TEMPERATURE_SCALE / (0.5 * ndof)
        T = h["data/thermo/T"]
        d = np.abs(T - t).max() / max(np.abs(t).max(), 1e-300)
        stats["T"] = max(stats["T"], d)
        if not d <= tol["T_rel"]:
            i = int(np.argmax(np.abs(T - t)))
            prob.append(("T_row", k, d, f"/data/thermo/T[{i}] = {T[i]:.10f} but velocities row gives {t[i]:.10f} under n_dof = {ndof:g}"))
    if check_ep:
        E = _single_points(f, frames)
        for k in range(len(mols)):
            Ep = r[f"h5.{k}"]["data/thermo/Ep"]
            ok = np.isfinite(E[k])
            if not ok.any():
                continue
            d = np.abs(Ep - E[k])[ok].max()
            stats["Ep"] = max(stats["Ep"], d)
            if not d <= tol["Ep_abs"]:
                i = int(np.nanargmax(np.abs(Ep - E[k])))
                # re-evaluate that one frame in the exact batch layout of the MD run before blaming the MD
                e1 = _single_points(f, [fr[i : i + 1] for fr in frames])[k, 0]
                if abs(Ep[i] - e1) > tol["Ep_abs"]:
                    prob.append(("Ep_row", k, abs(Ep[i] - e1), f"/data/thermo/Ep[{i}] = {Ep[i]:.10f} eV but a fresh single point at /coordinates[{i}] gives {e1:.10f} eV"))
    return prob, stats


JUMP_FLOOR = 1.0e-8  # eV; smaller steps in E(t) are not looked at
JUMP_DT_MAX = 0.05  # fs


def find_jumps(E):
    """isolated steps in an otherwise smooth series E(t): [(i, J)] meaning E[i+1:] is shifted by J.
    A step J in E shows up in the second difference of dE as (-J/2, J, -J/2)."""
    d = np.diff(E)
    if len(d) < 9:
        return []
    res = d[1:-1] - 0.5 * (d[:-2] + d[2:])
    thr = max(JUMP_FLOOR, 30.0 * float(np.median(np.abs(res))))
    out = []
    for i in range(len(res)):
        a = abs(res[i])
        if a > thr and a >= abs(res[max(i - 1, 0)]) and a >= abs(res[min(i + 1, len(res) - 1)]):
            out.append((i + 1, float(res[i])))
    return out


def bfn_crossing(member, xa, xb):
    """does any orbital pair's beta = 0.5 R/a0 (zeta_a - zeta_b) cross the |beta| = 0.5 series/closed-form switch of
    diat_overlap*.bintgs between geometries xa and xb?  Returns None or dict(text, lam) with lam the point of the
    segment xa + lam (xb - xa) where the crossing happens."""
    from seqm.seqm_functions.constants import a0

    mol, _ = sp.build([member], sp.make_params("AM1"))
    zs = mol.parameters["zeta_s"].detach().numpy()
    zp = mol.parameters["zeta_p"].detach().numpy()
    n = len(member["species"])
    for i in range(n):
        for j in range(i + 1, n):
            for zi, li in ((zs[i], "s"), (zp[i], "p")):
                for zj, lj in ((zs[j], "s"), (zp[j], "p")):
                    if zi <= 0 or zj <= 0 or zi == zj:
                        continue
                    rstar = a0 / abs(zi - zj)  # R at which |beta| = 0.5

                    def g(lam):
                        return np.linalg.norm((xa[i] - xa[j]) + lam * ((xb[i] - xb[j]) - (xa[i] - xa[j]))) - rstar

                    if g(0.0) * g(1.0) < 0:
                        lo, hi = 0.0, 1.0
                        for _ in range(60):
                            mid = 0.5 * (lo + hi)
                            if g(lo) * g(mid) <= 0:
                                hi = mid
                            else:
                                lo = mid
                        txt = f"atoms {i}({M.SYMBOL[member['species'][i]]} {li})-{j}({M.SYMBOL[member['species'][j]]} {lj}) at R = {rstar:.5f} A"
                        return dict(text=txt, lam=0.5 * (lo + hi))
    return None


def direct_jump(f, k, frames_a, frames_b, lam, h=1e-6):
    """E(lam + h) - E(lam - h) on the straight segment between two written frames, by fresh single points at a tight
    threshold: the smooth part contributes |F . dx| * 2h ~ 1e-9 eV, a discontinuity of the surface shows in full."""
    f2 = dict(f, eps=min(f["eps"], 1e-11))
    E = []
    for l_ in (lam - h, lam + h):
        fr = [(a + l_ * (b - a))[None] for a, b in zip(frames_a, frames_b)]
        E.append(_single_points(f2, fr)[k, 0])
    return float(E[1] - E[0])


def run_task(task):
    f = task["fam"]
    mols = _mols(f)
    vel = user_field(mols) if f["vel"] == "user" else None
    dt = task["dt"]
    n = int(round(f["tphys"] / dt))
    r = _md(f, dt, n, mols, vel)
    if r["error"]:
        return {"error": r["error"]}
    prob, stats = per_run_oracles(f, r, n, mols)
    stride = int(round(DTS[0] / dt))
    out = {"error": None, "problems": prob, "stats": stats, "n": n}
    out["x"] = [r[f"h5.{k}"]["coordinates/values"][::stride].copy() for k in range(len(mols))]
    E = [r[f"h5.{k}"]["data/thermo/Ek"] + r[f"h5.{k}"]["data/thermo/Ep"] for k in range(len(mols))]
    out["fluct_raw"] = [float(np.abs(e - e[0]).max()) for e in E]
    out["fluct"] = []
    out["jumps"] = []
    for k, e in enumerate(E):
        e = e.copy()
        # steps are looked for where the series is smooth enough for a 1e-8 eV step to stand out (dt <= 0.05 fs)
        for i, J in find_jumps(e) if dt <= JUMP_DT_MAX + 1e-12 else []:
            xs = [r[f"h5.{j}"]["coordinates/values"] for j in range(len(mols))]
            cr = bfn_crossing(mols[k], xs[k][i], xs[k][i + 1])
            jd = direct_jump(f, k, [x_[i] for x_ in xs], [x_[i + 1] for x_ in xs], cr["lam"]) if cr else None
            out["jumps"].append(dict(mol=k, step=i, t=i * dt, J=J, bfn=(cr["text"] if cr else ""), direct=jd))
            e[i + 1 :] -= J
        out["fluct"].append(float(np.abs(e - e[0]).max()))
    out["E"] = [np.asarray(e, float).copy() for e in E]
    out["x0"] = [r[f"h5.{k}"]["coordinates/values"][0].copy() for k in range(len(mols))]
    out["v0"] = [r[f"h5.{k}"]["velocities/values"][0].copy() for k in range(len(mols))]
    if task["kind"] == "rev":
        # second leg: start from the written final state with reversed velocities
        mols2 = []
        nmax = max(len(m["species"]) for m in mols)
        v2 = np.zeros((len(mols), nmax, 3))
        for k, m in enumerate(mols):
            h = r[f"h5.{k}"]
            m2 = dict(m)
            m2["coords"] = h["coordinates/values"][-1].copy()
            mols2.append(m2)
            v2[k, : len(m["species"])] = -h["velocities/values"][-1]
        r2 = _md(f, dt, n, mols2, v2)
        if r2["error"]:
            return {"error": "reverse leg: " + r2["error"]}
        p2, s2 = per_run_oracles(f, r2, n, mols2, check_ep=False)
        out["problems"] = prob + [(o + "(reverse leg)", k, mag, msg) for o, k, mag, msg in p2]
        out["back_x"] = [float(np.abs(r2[f"h5.{k}"]["coordinates/values"][-1] - out["x0"][k]).max()) for k in range(len(mols))]
        out["back_v"] = [float(np.abs(r2[f"h5.{k}"]["velocities/values"][-1] + out["v0"][k]).max()) for k in range(len(mols))]
        out["start_dx"] = [float(np.abs(r2[f"h5.{k}"]["coordinates/values"][0] - mols2[k]["coords"]).max()) for k in range(len(mols))]
    return out


def tasks_of(f):
    t = [dict(fam=f, kind="fwd", dt=dt) for dt in DTS + (DT_REF,)]
    t.append(dict(fam=f, kind="rev", dt=DT_REV))
    return t


# ----------------------------------------------------------------------------- family-level oracles


def family_oracles(f, res):
    """res: {("fwd", dt) | ("rev", dt): task result}.  Returns (problems, measured dict)."""
    prob = []
    meas = {}
    nm = len(f["mol"].split("+"))
    ref = res[("fwd", DT_REF)]
    eps = f["eps"]
    # floors below which a difference is explained by the SCF threshold rather than by the step size:
    # positions: a force error K*eps acting for t on the lightest atom; energies: K*eps
    from seqm.MolecularDynamics import CONSTANTS as C

    # (measured: the written energies agree with fresh single points to 1e-12 even at eps = 1e-8, and the ratios stay at
    # 4.0 down to fluctuations of 30 eps; below 10 floors a ratio is not evaluated and counted as excluded)
    x_floor = 0.5 * C.ACC_SCALE * 30.0 * eps * f["tphys"] ** 2
    e_floor = 3.0 * eps
    # steps of the energy surface located in the fine runs are also taken out of the coarse runs of the family (where
    # they cannot be located independently), at the step interval that contains the same physical time
    ref_jumps = [j for j in ref["jumps"]]
    for dt in DTS:
        r = res[("fwd", dt)]
        if dt > JUMP_DT_MAX + 1e-12 and ref_jumps:
            r["fluct"] = list(r["fluct"])
            for k in range(nm):
                e = r["E"][k].copy()
                for j in ref_jumps:
                    if j["mol"] == k:
                        i = int(np.floor(j["t"] / dt + 1e-9))
                        e[i + 1 :] -= j["J"]
                r["fluct"][k] = float(np.abs(e - e[0]).max())
    for k in range(nm):
        err = {}
        fl = {}
        for dt in DTS:
            r = res[("fwd", dt)]
            if not all(np.array_equal(r["x0"][j], ref["x0"][j]) and np.array_equal(r["v0"][j], ref["v0"][j]) for j in range(nm)):
                prob.append(("same_start", k, 0.0, f"run dt={dt} does not start from the same state as the reference"))
            err[dt] = float(np.sqrt(((r["x"][k] - ref["x"][k]) ** 2).sum()))
            fl[dt] = r["fluct"][k]
        fl[DT_REF] = ref["fluct"][k]
        er = []
        fr = []
        for a, b in zip(DTS[:-1], DTS[1:]):
            if err[b] < 10 * x_floor:
                er.append(None)
            else:
                q = err[a] / err[b]
                er.append(q)
                if not RATIO_WIN[0] <= q <= RATIO_WIN[1]:
                    prob.append(("order_trajectory", k, q, f"trajectory error dt={a} / dt={b} = {err[a]:.3e}/{err[b]:.3e} = {q:.3f}, not in {RATIO_WIN} (second order = 4)"))
            if fl[b] < 10 * e_floor:
                fr.append(None)
            else:
                q = fl[a] / fl[b]
                fr.append(q)
                if not RATIO_WIN[0] <= q <= RATIO_WIN[1]:
                    prob.append(("order_energy", k, q, f"max|E(t)-E(0)| dt={a} / dt={b} = {fl[a]:.3e}/{fl[b]:.3e} = {q:.3f}, not in {RATIO_WIN} (second order = 4)"))
        if fl[DT_REF] < 10 * e_floor:
            fr.append(None)
        else:
            q = fl[DTS[-1]] / fl[DT_REF]
            fr.append(q)
            if not RATIO_WIN[0] ** 2 <= q <= RATIO_WIN[1] ** 2:
                prob.append(("order_energy", k, q, f"max|E(t)-E(0)| dt={DTS[-1]} / dt={DT_REF} = {fl[DTS[-1]]:.3e}/{fl[DT_REF]:.3e} = {q:.2f}, not in [{RATIO_WIN[0] ** 2:.2f}, {RATIO_WIN[1] ** 2:.2f}] (second order = 16)"))
        meas[f"err_ratios.{k}"] = er
        meas[f"fluct_ratios.{k}"] = fr
        meas[f"err.{k}"] = err
        meas[f"fluct.{k}"] = fl
    rv = res[("rev", DT_REV)]
    # reversal: measured 1.5e-12 A (eps 1e-11) / 4e-10 (eps 1e-8); window 1e-9 A resp. 1e3*eps
    tol_x = max(1e-9, 1.0e2 * eps)
    tol_v = max(1e-10, 1.0e1 * eps)
    if not f["reuse"] and f["com"] is None and f["surface"] == 0:
        # (ground state only: on an excited surface the force carries the Davidson residual of the CIS solve, whose
        #  start vectors follow the orbitals of the step before - H2CO S1 over 4 fs retraces to 8e-11 A)
        # without density reuse (and without the periodic centre-of-mass projection, which is not time-symmetric) the force is a function of the positions alone (every SCF starts from the same guess),
        # so velocity Verlet retraces to round-off whatever the SCF threshold: measured <= 3e-14 A, 2e-15 A/fs
        tol_x, tol_v = 1e-11, 1e-12
    for k in range(nm):
        meas[f"back_x.{k}"] = rv["back_x"][k]
        meas[f"back_v.{k}"] = rv["back_v"][k]
        if not rv["back_x"][k] <= tol_x:
            prob.append(("reversal", k, rv["back_x"][k], f"forward {rv['n']} steps, v -> -v, forward {rv['n']} steps ends {rv['back_x'][k]:.3e} A from the start (tolerance {tol_x:g})"))
        if not rv["back_v"][k] <= tol_v:
            prob.append(("reversal", k, rv["back_v"][k], f"reversed run ends with velocities {rv['back_v'][k]:.3e} A/fs from minus the initial ones (tolerance {tol_v:g})"))
    return prob, meas


def _desc(f, oracle, molidx, mag, extra=None):
    d = dict(
        molecule=f["mol"], eps=f["eps"], reuse_P=bool(f["reuse"]), com_mode=(f["com"][0] if f["com"] else "none"),
        com_stride=(f["com"][1] if f["com"] else 0), velocities=f["vel"], surface=f["surface"], tphys=f["tphys"],
        rot=f["rot"], oracle=oracle, mol_index=molidx, magnitude=float(mag),
    )  # fmt: skip
    d.update(extra or {})
    return d


def evaluate(chk, fams, verbose=False):
    tasks = [t for f in fams for t in tasks_of(f)]
    # longest first so the pool drains evenly
    order = sorted(range(len(tasks)), key=lambda i: -tasks[i]["fam"]["tphys"] / tasks[i]["dt"] * (2 if tasks[i]["kind"] == "rev" else 1))
    res = pmap(run_task, [tasks[i] for i in order], chunk=1, timeout=3000, progress="C08 runs")
    results = [None] * len(tasks)
    for i, r in zip(order, res):
        results[i] = r
    byfam = {}
    nprob = 0
    for t, r in zip(tasks, results):
        f = t["fam"]
        fk = _fam_key(f)
        key = f"{fk}|{t['kind']}|dt={t['dt']}"
        if is_timeout(r) or is_error(r):
            if chk:
                chk.harness_error(f"{key}: task did not complete: {str(r)[:300]}")
            nprob += 1
            continue
        if r["error"]:
            nprob += 1
            if chk:
                chk.case(key, nontrivial=False, outcome="raised")
                chk.violation(_desc(f, "run_raised", -1, 0.0, {"dt": t["dt"], "kind": t["kind"]}), f"{key}: the package raised on a valid NVE run: {r['error']}", replay={"fam": f})
            else:
                print("  ", key, "raised", r["error"])
            continue
        byfam.setdefault(fk, {})[(t["kind"], t["dt"])] = r
        if chk:
            chk.case(key, nontrivial=r["n"] >= 2, outcome=("ok" if not r["problems"] else r["problems"][0][0]),
                     sample=dict(case=key, steps=r["n"], max_rel_dP=r["stats"]["P"], dL_over_tol=r["stats"]["L"], Ek_row_rel=r["stats"]["Ek"],
                                 Ep_row_abs=r["stats"]["Ep"], energy_fluctuation=r["fluct"], energy_jumps=len(r["jumps"])))  # fmt: skip
            chk.extra.setdefault("md_steps", 0)
            chk.extra["md_steps"] += r["n"] * (2 if t["kind"] == "rev" else 1)
            for s, v in r["stats"].items():
                chk.extra.setdefault("max_" + s, 0.0)
                chk.extra["max_" + s] = max(chk.extra["max_" + s], float(v))
        for o, k, mag, msg in r["problems"]:
            nprob += 1
            if chk:
                chk.violation(_desc(f, o, k, mag, {"dt": t["dt"], "kind": t["kind"]}), f"{key} mol {k}: {msg}", replay={"fam": f})
            else:
                print("  ", key, "mol", k, msg)
        for j in r["jumps"]:
            nprob += 1
            msg = (
                f"{key} mol {j['mol']}: total energy steps by {j['J']:.3e} eV between written steps {j['step']} and {j['step'] + 1} "
                f"(t = {j['t']:.4f} fs) of an otherwise smooth series"
                + (f"; the overlap B-integral series/closed-form switch |beta| = 0.5 is crossed there by {j['bfn']}, and fresh single points "
                   f"1e-6 of the segment before/after the crossing differ by {j['direct']:.3e} eV" if j["bfn"] else "")
            )  # fmt: skip
            confirmed = bool(j["bfn"]) and j["direct"] is not None and abs(j["direct"] - j["J"]) <= 0.2 * abs(j["J"])
            if chk:
                chk.violation(
                    _desc(f, "energy_jump", j["mol"], abs(j["J"]), {"dt": t["dt"], "kind": t["kind"], "bfn_boundary": bool(j["bfn"]), "energy_jump_in_family": True, "jump_max_eV": abs(j["J"]),
                           "surface_step_confirmed": confirmed}),
                    msg, replay={"fam": f},
                )  # fmt: skip
            else:
                print("  ", msg)
        if verbose:
            print(key, {k: f"{v:.2e}" for k, v in r["stats"].items()}, r.get("back_x"), r.get("back_v"), r["jumps"])
    for f in fams:
        fk = _fam_key(f)
        got = byfam.get(fk, {})
        if len(got) != len(tasks_of(f)):
            continue
        prob, meas = family_oracles(f, got)
        sig = "|".join(f"{q:.1f}" if q else "-" for k in sorted(meas) if k.startswith("err_ratios") for q in meas[k])
        if chk:
            skipped = sum(1 for k in meas if "ratios" in k for q in meas[k] if q is None)
            chk.excluded += skipped
            chk.case(fk + "|ratios", nontrivial=True, outcome=sig, sample={"family": fk, **{k: v for k, v in meas.items() if "ratios" in k or "back" in k}})
        if verbose:
            print(fk, {k: v for k, v in meas.items() if "ratios" in k or "back" in k})
        jumps = [j for r in got.values() for j in r["jumps"]]
        jx = {
            "energy_jump_in_family": bool(jumps),
            "bfn_boundary": bool(jumps) and all(bool(j["bfn"]) for j in jumps),
            "surface_step_confirmed": bool(jumps) and all(bool(j["bfn"]) and j["direct"] is not None and abs(j["direct"] - j["J"]) <= 0.2 * abs(j["J"]) for j in jumps),
            "jump_max_eV": max([abs(j["J"]) for j in jumps], default=0.0),
        }
        # one report per (family, oracle, molecule): the instance farthest from its window, with the number of instances
        byo = {}
        for o, k, mag, msg in prob:
            e = byo.setdefault((o, k), {"n": 0, "first": (mag, msg)})
            e["n"] += 1
        for (o, k), e in byo.items():
            nprob += 1
            mag, msg = e["first"]
            if chk:
                chk.violation(_desc(f, o, k, mag, dict(jx, instances=e["n"])), f"{fk} mol {k}: {msg} [{e['n']} instance(s)]", replay={"fam": f})
            else:
                print("  ", fk, "mol", k, msg, f"[{e['n']} instance(s)]")
    return nprob


def _determinism(chk, f):
    t = dict(fam=f, kind="fwd", dt=0.4)
    a, b = pmap(run_task, [t, copy.deepcopy(t)], chunk=1, timeout=600)
    try:
        same = all(np.array_equal(a["x"][k], b["x"][k]) for k in range(len(a["x"]))) and a["fluct"] == b["fluct"]
    except Exception:  # noqa: BLE001
        same = False
    if not same:
        chk.harness_error("the same run executed in two processes did not give bit-identical observations")


def run(chk, tier, seed):
    from seqm.MolecularDynamics import CONSTANTS as C

    import vp

    vp.warm()
    # unit constants (once per run; also the constants every other oracle of this check converts with)
    up = U.check(C)
    chk.case("units|" + "|".join(f"{k}={getattr(C, k)!r}" for k in U.CODATA2018), nontrivial=True, outcome="ok" if not up else "bad")
    chk.extra["unit_identities"] = {n: d for n, d in U.identities(C)}
    chk.extra["unit_rel_dev_from_CODATA2018"] = {n: d for n, d in U.deviations(C)}
    for msg in up:
        name = msg.split()[0] if not msg.startswith("identity") else msg.split()[1]
        chk.violation(dict(oracle="units", constant=name), f"unit constants: {msg}", replay={"units": True})
    fams = families(tier, seed)
    chk.planned = 1 + len(fams) * (len(tasks_of(fams[0])) + 1)
    _determinism(chk, fams[0])
    evaluate(chk, fams)
    extras(chk, tier, seed)
    chk.extra["families"] = len(fams)
    chk.extra["dt_family"] = list(DTS) + [DT_REF]


# ----------------------------------------------------------------------------- extra single-run lattices


def run_extra(item):
    """(a) user-supplied velocities with net P and L + periodic COM removal: after the first removal the momenta that
    the mode removes stay zero (conserved between removals) and every thermo row still belongs to its velocity row;
    (b) molid subsets / permutations of a padded batch: the thermo rows written for molecule k are those of ITS
    velocities and equal, bitwise, the rows of the same run written with molid = all."""
    from seqm.MolecularDynamics import CONSTANTS as C

    kind = item["kind"]
    R = M.generic_rot(item["rot"])
    prob = []
    if kind == "com_user":
        mols = [M.apply(M.get(n), R) for n in item["mol"].split("+")]
        vel = user_field(mols)
        n = 10
        r = MD.run_md("bomd", mols, sp.make_params("AM1", eps=1e-11), n, dt=0.2, temp=300.0, seed=3, remove_com=tuple(item["com"]),
                      out=dict(data=1, coordinates=1, velocities=1, forces=0), velocities=vel)  # fmt: skip
        if r["error"]:
            return {"error": r["error"]}
        for k, m in enumerate(mols):
            h = r[f"h5.{k}"]
            mass = _mass_of(m["species"])
            x, v = h["coordinates/values"], h["velocities/values"]
            pscale = (mass[:, None] * np.abs(v[0])).sum()
            lscale = (mass[:, None] * np.abs(np.cross(x[0] - x[0].mean(0), v[0]))).sum() + 1e-300
            for i in range(1, x.shape[0]):
                P, L = momenta(mass, x[i], v[i])
                if np.abs(P).max() > 1e-10 * pscale:
                    prob.append(("P_after_removal", k, float(np.abs(P).max() / pscale), f"row {i}: |P| = {np.abs(P).max():.3e} u A/fs after the centre-of-mass removal ({np.abs(P).max() / pscale:.2e} of sum m|v|)"))
                    break
                if item["com"][0] == "angular" and np.abs(L).max() > 1e-7 * lscale:
                    prob.append(("L_after_removal", k, float(np.abs(L).max() / lscale), f"row {i}: |L| = {np.abs(L).max():.3e} after the angular removal ({np.abs(L).max() / lscale:.2e} of sum m|r x v|)"))
                    break
            ek = 0.5 * (mass[None, :, None] * v * v).sum((1, 2)) * C.KINETIC_ENERGY_SCALE
            d = np.abs(h["data/thermo/Ek"] - ek).max() / max(np.abs(ek).max(), 1e-300)
            if d > 1e-12:
                prob.append(("Ek_row", k, float(d), f"/data/thermo/Ek differs from 1/2 sum m v^2 of the same /velocities rows by {d:.2e} relative"))
        return {"error": None, "problems": prob}
    if kind == "rev_noreuse":
        # a loose SCF threshold amplifies any dependence of the force on the history of the run
        mols = [M.apply(M.get(n), R) for n in item["mol"].split("+")]
        n = 10
        common = dict(dt=0.4, temp=300.0, seed=9, reuse_P=False, out=dict(data=1, coordinates=1, velocities=1, forces=0))
        p = sp.make_params("AM1", eps=item["eps"])
        r1 = MD.run_md("bomd", mols, p, n, **common)
        if r1["error"]:
            return {"error": r1["error"]}
        mols2 = []
        nmax = max(len(m["species"]) for m in mols)
        v2 = np.zeros((len(mols), nmax, 3))
        for k, m in enumerate(mols):
            m2 = dict(m)
            m2["coords"] = r1[f"h5.{k}"]["coordinates/values"][-1].copy()
            mols2.append(m2)
            v2[k, : len(m["species"])] = -r1[f"h5.{k}"]["velocities/values"][-1]
        r2 = MD.run_md("bomd", mols2, p, n, velocities=v2, **common)
        if r2["error"]:
            return {"error": r2["error"]}
        for k in range(len(mols)):
            dx = float(np.abs(r2[f"h5.{k}"]["coordinates/values"][-1] - r1[f"h5.{k}"]["coordinates/values"][0]).max())
            if dx > 1e-11:
                prob.append(("reversal", k, dx, f"reuse_P=False, scf_eps={item['eps']:g}: forward {n} steps, v -> -v, forward {n} steps ends {dx:.3e} A from the start (tolerance 1e-11: the force must depend on the positions only)"))
        return {"error": None, "problems": prob}
    if kind == "molid":
        mols = [M.apply(M.get(n), R) for n in item["mol"].split("+")]
        n = 5
        common = dict(dt=0.4, temp=300.0, seed=5)
        full = MD.run_md("bomd", mols, sp.make_params("AM1", eps=1e-10), n, out=dict(data=1, coordinates=1, velocities=1, forces=1), **common)
        sub = MD.run_md("bomd", mols, sp.make_params("AM1", eps=1e-10), n, out=dict(data=1, coordinates=1, velocities=1, forces=1, molid=list(item["molid"])),
                        nmol_out=range(len(mols)), **common)  # fmt: skip
        if full["error"] or sub["error"]:
            return {"error": full["error"] or sub["error"]}
        for k, m in enumerate(mols):
            h = sub[f"h5.{k}"]
            if k not in item["molid"]:
                if h is not None:
                    prob.append(("molid_file", k, 0.0, f"molecule {k} is not in molid but has an output file"))
                continue
            if h is None:
                prob.append(("molid_file", k, 0.0, f"molecule {k} is in molid but has no output file"))
                continue
            mass = _mass_of(m["species"])
            v = h["velocities/values"]
            ek = 0.5 * (mass[None, :, None] * v * v).sum((1, 2)) * C.KINETIC_ENERGY_SCALE
            d = np.abs(h["data/thermo/Ek"] - ek).max() / max(np.abs(ek).max(), 1e-300)
            if d > 1e-12:
                prob.append(("Ek_row", k, float(d), f"molid={item['molid']}: /data/thermo/Ek of molecule {k} is not the kinetic energy of its own /velocities rows (rel {d:.2e})"))
            for name, a in h.items():
                b = full[f"h5.{k}"].get(name)
                if b is None or a.shape != b.shape or not np.array_equal(a, b, equal_nan=True):
                    prob.append(("molid_dataset", k, 0.0, f"molid={item['molid']}: dataset {name} of molecule {k} differs from the same run written with all molecules"))
                    break
        return {"error": None, "problems": prob}
    raise ValueError(kind)


def extras(chk, tier, seed):
    items = []
    for com in (["angular", 2], ["linear", 1], ["angular", 1]):
        for mol in (("H2CO", "CH4+H2O") if tier == "quick" else ("H2CO", "H2O", "CH4+H2O", "NH3")):
            items.append(dict(kind="com_user", mol=mol, com=com, rot=seed))
    for molid in ([1], [1, 0], [0], [0, 1]):
        items.append(dict(kind="molid", mol="CH4+H2O", molid=molid, rot=seed))
    for mol in ("H2CO", "CH4+H2O"):
        for eps in (1e-5, 1e-7):
            items.append(dict(kind="rev_noreuse", mol=mol, eps=eps, rot=seed))
    if tier != "quick":
        for molid in ([2], [2, 0], [1, 2]):
            items.append(dict(kind="molid", mol="CH4+H2O+HF", molid=molid, rot=seed))
    res = pmap(run_extra, items, chunk=1, timeout=1800, progress="C08 extra single-run lattices")
    for it, r in zip(items, res):
        key = "extra|" + "|".join(f"{k}={v}" for k, v in it.items())
        f = _fam(it["mol"], it.get("eps", 1e-11), it["kind"] != "rev_noreuse", it.get("com"), "user" if it["kind"] == "com_user" else "mb", 0, 2.0, it["rot"])
        if is_timeout(r) or is_error(r):
            chk.harness_error(f"{key}: {str(r)[:300]}")
            continue
        if r["error"]:
            chk.case(key, nontrivial=False, outcome="raised")
            chk.violation(_desc(f, "run_raised", -1, 0.0, {"extra": it["kind"]}), f"{key}: the package raised on a valid run: {r['error']}", replay={"extra": it})
            continue
        chk.case(key, nontrivial=True, outcome=("ok" if not r["problems"] else r["problems"][0][0]))
        for o, k, mag, msg in r["problems"]:
            chk.violation(_desc(f, o, k, mag, {"extra": it["kind"], "molid": str(it.get("molid"))}), f"{key}: {msg}", replay={"extra": it})


def replay(payload):
    from seqm.MolecularDynamics import CONSTANTS as C

    if payload["replay"].get("extra"):
        r = run_extra(payload["replay"]["extra"])
        print(r)
        return not r.get("error") and not r.get("problems")

    rp = payload["replay"]
    if rp.get("units"):
        p = U.check(C)
        for m in p:
            print("  ", m)
        return not p
    return evaluate(None, [rp["fam"]], verbose=True) == 0
