"""C13  Initial conditions, centre-of-mass handling and seeding behave as documented.

Explorer: S-env + S-seq.  The harness owns torch's global RNG *history*: before the real
`md.run(..., seed=s)` it executes every word (up to a depth) over the operation alphabet
{draw 1 number, draw 17 numbers, run a whole other MD simulation}; it enumerates the seed alphabet,
the temperature alphabet, the `remove_com` alphabet, a fixed alphabet of user-supplied velocity
fields {no net momentum, net P, net L, both, pure translation} and the engines, on molecules
that include linear ones, diatomics and a padded batch.  Every case is one real run (3 steps) in
its own forked process; `_zero_com` and the integrator step are observed by wrapping the bound
methods (no source hooks).

Oracles
  step 0   T row == Temp (1e-10) and == the temperature of the /velocities row under the n_dof in force;
           sum m v = 0 (1e-12) for drawn velocities, L = 0 (1e-12) where ('angular', N) was requested;
           Temp = 0 -> all velocities exactly 0
  padding  padding atoms have exactly zero velocity and do not move
  COM      every periodic removal happens at its stride, leaves |P| (and |L| for 'angular') <= 1e-12 and
           the kinetic energy unchanged to 1e-12; the row written for that step shows the same momenta
  seeding  same seed => every HDF5 dataset bitwise equal whatever the RNG history; different seeds =>
           different step-0 velocities (Temp > 0)
  user     user-supplied velocities == step-0 /velocities row, exactly
"""
import hashlib

import numpy as np

from ..drivers import md as MD
from ..drivers import molecules as M
from ..drivers import sp
from ..pool import is_error, is_timeout, pmap
from .c08 import _mass_of, momenta, user_field

PID = "C13"
LEVEL = "exploration"
RULE = (
    "product sub-lattices of molecules {H2O, CH4, CO, HCN, HF, CH4+H2O padded} x Temp {0,10,300} x seeds {0,1,12345} x "
    "RNG-history words over {draw1, draw17, other MD run} (BFS to depth 1 quick / 2 thorough) x remove_com {None, "
    "linear/1, linear/3, angular/1, angular/3} x user velocity fields {none, no net momentum, net P, net L, both, pure "
    "translation} x engines; one real 3-step run per case in its own process; a case is non-trivial when at least one "
    "oracle had something to compare (drawn velocities at Temp>0, a COM removal executed, a user field, a history or "
    "seed partner); distinct = distinct case key"
)
ASSUMPTIONS = [
    "atomic masses are taken from the package's own table",
    "the degrees-of-freedom count in force is the documented one: 3N - 3 ('linear') / 3N - 6 ('angular', linear molecules "
    "not auto-detected, as the manual says) for un-thermostatted engines, 3N for Langevin-thermostatted ones",
    "3 steps per run: seeding / initial-condition logic does not depend on the run length",
    "CPU, float64, single thread",
]

MOLS = ["H2O", "CH4", "CO", "HCN", "HF", "CH4+H2O"]
LINEAR = {"CO", "HCN", "HF"}
DIATOMIC = {"CO", "HF"}
COMS = [None, ["linear", 1], ["linear", 3], ["angular", 1], ["angular", 3]]
STEPS = 3
DT = 0.5
THERMOSTATTED = {"langevin", "xl_damped", "ksa_damped"}
ZERO_KE = "Zero kinetic energy after removing COM momentum"


def _mols(case):
    R = M.generic_rot(case["rot"])
    return [M.apply(M.get(n), R) for n in case["mol"].split("+")]


def _field(case, mols):
    u = case["user"]
    if u is None:
        return None
    if u == "uniform":
        v = np.zeros((len(mols), max(len(m["species"]) for m in mols), 3))
        for k, m in enumerate(mols):
            v[k, : len(m["species"])] = np.array([0.004, -0.002, 0.001])
        return v
    return user_field(mols, net_p=("P" in u), net_l=("L" in u))


def _history(ops, rot):
    import torch

    for op in ops:
        if op == "d1":
            torch.randn(1)
        elif op == "d17":
            torch.randn(17)
        elif op == "md":
            other = [M.apply(M.get("HF"), M.generic_rot(rot + 1))]
            MD.run_md("langevin", other, sp.make_params("AM1", eps=1e-6), 2, dt=0.4, temp=250.0, seed=4242, damp=20.0,
                      out=dict(data=1, coordinates=0, velocities=0, forces=0))  # fmt: skip
        else:
            raise ValueError(op)


def _key(c):
    com = "none" if c["com"] is None else f"{c['com'][0]}{c['com'][1]}"
    return f"{c['engine']}|{c['mol']}|T{c['temp']:g}|seed{c['seed']}|hist={'.'.join(c['hist']) or '-'}|com={com}|user={c['user'] or '-'}"


def _group_key(c):
    """everything but seed and history"""
    com = "none" if c["com"] is None else f"{c['com'][0]}{c['com'][1]}"
    return f"{c['engine']}|{c['mol']}|T{c['temp']:g}|com={com}|user={c['user'] or '-'}"


def _ndof(case, natoms):
    if case["engine"] in THERMOSTATTED or case["engine"] == "langevin":
        return 3.0 * natoms
    ncon = 0.0 if case["com"] is None else (6.0 if case["com"][0] == "angular" else 3.0)
    return 3.0 * natoms - ncon


def run_case(case):
    import torch

    from seqm.MolecularDynamics import CONSTANTS as C

    mols = _mols(case)
    nat = [len(m["species"]) for m in mols]
    nmax = max(nat)
    vuser = _field(case, mols)
    _history(case["hist"], case["rot"])
    log = {"step": 0, "calls": []}

    def snap(mol):
        return mol.coordinates.detach().numpy().copy(), mol.velocities.detach().numpy().copy()

    def hook(md, molecule):
        orig_zero = md._zero_com
        orig_step = md._do_integrator_step

        def zero(mol, *a, **kw):
            b = snap(mol)
            orig_zero(mol, *a, **kw)
            log["calls"].append(dict(step=log["step"], before=b, after=snap(mol), init=(log["step"] == 0)))

        def step(i, *a, **kw):
            log["step"] = i + 1  # calls made after this integrator step belong to loop index i
            return orig_step(i, *a, **kw)

        md._zero_com = zero
        md._do_integrator_step = step

    p = sp.make_params("AM1", eps=1e-7)
    kw = {}
    if case["engine"].startswith("ksa"):
        kw["k"] = 4
    r = MD.run_md(
        case["engine"], mols, p, STEPS, dt=DT, temp=case["temp"], seed=case["seed"], remove_com=(tuple(case["com"]) if case["com"] else None),
        out=dict(data=1, coordinates=1, velocities=1, forces=1), velocities=vuser, hook=hook, damp=25.0, **kw,
    )  # fmt: skip
    out = {"error": r["error"], "problems": [], "compared": 0}
    if r["error"]:
        return out
    prob = out["problems"]
    h = hashlib.sha1()
    for k in range(len(mols)):
        h5 = r[f"h5.{k}"]
        for name in sorted(h5):
            a = np.ascontiguousarray(h5[name])
            h.update(name.encode() + str(a.dtype).encode() + str(a.shape).encode() + a.tobytes())
    out["digest"] = h.hexdigest()
    out["v0"] = [r[f"h5.{k}"]["velocities/values"][0].copy() for k in range(len(mols))]
    drawn = vuser is None
    loop_calls = [c for c in log["calls"] if not c["init"]]
    out["zero_com_calls"] = len(log["calls"])
    for k, m in enumerate(mols):
        h5 = r[f"h5.{k}"]
        mass = _mass_of(m["species"])
        x = h5["coordinates/values"]
        v = h5["velocities/values"]
        ndof = _ndof(case, nat[k])
        ek0 = 0.5 * (mass[:, None] * v[0] ** 2).sum() * C.KINETIC_ENERGY_SCALE
        # ---- step-0 row
        if drawn:
            if case["temp"] == 0.0:
                out["compared"] += 1
                if np.any(v[0] != 0.0):
                    prob.append(("T0_velocities_nonzero", k, float(np.abs(v[0]).max()), "Temp = 0 but the step-0 velocities are not exactly zero"))
            if ndof > 0:
                out["compared"] += 1
                T0 = float(h5["data/thermo/T"][0])
                tol = 1e-10 * max(1.0, case["temp"])
                tmine = ek0 * C.TEMPERATURE_SCALE / (0.5 * ndof)
                if not abs(T0 - case["temp"]) <= tol:
                    prob.append(("T_step0", k, abs(T0 - case["temp"]), f"/data/thermo/T[0] = {T0:.10f} K, requested {case['temp']:.10f} K"))
                if not abs(tmine - case["temp"]) <= tol:
                    prob.append(("T_step0_from_velocities", k, abs(tmine - case["temp"]), f"/velocities[0] carry {tmine:.10f} K under n_dof = {ndof:g}, requested {case['temp']:.10f} K"))
            else:
                out["excluded"] = out.get("excluded", 0) + 1
            P, L = momenta(mass, x[0] - (mass[:, None] * x[0]).sum(0) / mass.sum(), v[0])
            if not np.abs(P).max() <= 1e-12:
                prob.append(("P_step0", k, float(np.abs(P).max()), f"drawn velocities carry net linear momentum {np.abs(P).max():.3e} u A/fs"))
            if case["com"] and case["com"][0] == "angular" and not np.abs(L).max() <= 1e-12:
                prob.append(("L_step0", k, float(np.abs(L).max()), f"('angular', N) requested but drawn velocities carry angular momentum {np.abs(L).max():.3e} u A^2/fs"))
        else:
            out["compared"] += 1
            d = np.abs(v[0] - vuser[k, : nat[k]]).max()
            if not np.array_equal(v[0], vuser[k, : nat[k]]):
                Pu, Lu = momenta(mass, m["coords"] - (mass[:, None] * m["coords"]).sum(0) / mass.sum(), vuser[k, : nat[k]])
                P0, L0 = momenta(mass, x[0] - (mass[:, None] * x[0]).sum(0) / mass.sum(), v[0])
                prob.append((
                    "user_velocities_changed", k, float(d),
                    f"user-supplied velocities changed by up to {d:.3e} A/fs before step 0 (supplied |P| = {np.abs(Pu).max():.2e}, "
                    f"|L| = {np.abs(Lu).max():.2e}; step-0 row has |P| = {np.abs(P0).max():.2e}, |L| = {np.abs(L0).max():.2e})",
                    {"rigid_body_stripped": bool(np.abs(P0).max() <= 1e-12 and np.abs(L0).max() <= 1e-12)},
                ))  # fmt: skip
        # ---- padding atoms
        if nat[k] < nmax:
            out["compared"] += 1
            vp_ = r["final"]["velocities"][k, nat[k] :]
            xp_ = r["final"]["coordinates"][k, nat[k] :]
            if np.any(vp_ != 0.0) or np.any(xp_ != 0.0):
                same = bool(np.all(vp_ == vp_[0]) and np.all(xp_ == xp_[0]))
                prob.append((
                    "padding_at_rest", k, float(max(np.abs(vp_).max(), np.abs(xp_).max())),
                    f"padding atoms end with velocity {np.abs(vp_).max():.3e} A/fs and displacement {np.abs(xp_).max():.3e} A",
                    {"padding_rows_identical": same, "zero_com_calls": len(log["calls"])},
                ))  # fmt: skip
        # ---- periodic COM removal
        if case["com"]:
            mode, N = case["com"]
            want = [i + 1 for i in range(STEPS) if i % N == 0]
            got = [c["step"] for c in loop_calls]
            if got != want:
                prob.append(("com_schedule", k, 0.0, f"COM removal executed after steps {got}, requested ('{mode}', {N}) -> {want}"))
            for c in loop_calls:
                out["compared"] += 1
                xb, vb = c["before"][0][k, : nat[k]], c["before"][1][k, : nat[k]]
                xa, va = c["after"][0][k, : nat[k]], c["after"][1][k, : nat[k]]
                eb = 0.5 * (mass[:, None] * vb**2).sum()
                ea = 0.5 * (mass[:, None] * va**2).sum()
                rc = (mass[:, None] * xa).sum(0) / mass.sum()
                P, L = momenta(mass, xa - rc, va)
                Pb, Lb = momenta(mass, xb - rc, vb)
                out["com_work"] = max(out.get("com_work", 0.0), float(np.abs(Pb).max()), float(np.abs(Lb).max()) if mode == "angular" else 0.0)
                if not np.abs(P).max() <= 1e-12:
                    prob.append(("com_P", k, float(np.abs(P).max()), f"after the COM removal of step {c['step']} |P| = {np.abs(P).max():.3e} u A/fs"))
                if mode == "angular":
                    # zeroing L means solving I omega = L; for a (nearly) linear molecule I is (nearly) singular and round-off is
                    # amplified by cond(I) (eigenvalues below the package's pinv cut-off 1e-10 do not count): measured residual
                    # 1.2e-11 on HCN after one step (cond 2.8e6, |L| 4.1e-2, i.e. 0.5 u cond |L|); bound 1e-12 + 64 u cond |L_before|
                    r_ = xb - (mass[:, None] * xb).sum(0) / mass.sum()
                    ev = np.linalg.eigvalsh((mass * (r_ * r_).sum(1)).sum() * np.eye(3) - np.einsum("a,ai,aj->ij", mass, r_, r_))
                    ev = ev[ev > 1e-10]
                    cond = float(ev.max() / ev.min()) if len(ev) else 1.0
                    tolL = 1e-12 + 64 * 2.2e-16 * cond * float(np.abs(Lb).max())
                    if not np.abs(L).max() <= tolL:
                        prob.append(("com_L", k, float(np.abs(L).max()), f"after the ('angular') removal of step {c['step']} |L| = {np.abs(L).max():.3e} u A^2/fs (before {np.abs(Lb).max():.3e}, cond(I) = {cond:.2e}, tolerance {tolL:.2e})"))
                if not abs(ea - eb) <= 1e-12 * eb:
                    prob.append(("com_Ek", k, float(abs(ea - eb) / eb), f"COM removal of step {c['step']} changed the kinetic energy by {abs(ea - eb) / eb:.3e} relative"))
                # the row written for that step is the state after the removal
                s = c["step"]
                if not (np.array_equal(v[s], va) and np.array_equal(x[s], xa)):
                    prob.append(("com_row", k, float(np.abs(v[s] - va).max()), f"/velocities[{s}] is not the state left by the COM removal of step {s}"))
    out["obs"] = dict(
        T_step0=[float(r[f"h5.{k}"]["data/thermo/T"][0]) for k in range(len(mols))],
        absP_step0=[float(np.abs(momenta(_mass_of(m["species"]), r[f"h5.{k}"]["coordinates/values"][0], r[f"h5.{k}"]["velocities/values"][0])[0]).max()) for k, m in enumerate(mols)],
        zero_com_calls=out["zero_com_calls"], com_removals_in_loop=len(loop_calls), oracle_comparisons=out["compared"],
    )  # fmt: skip
    out["sig"] = f"{len(prob)}|{out['zero_com_calls']}|{'+'.join(sorted({p_[0] for p_ in prob}))}"
    return out


# ----------------------------------------------------------------------------- lattice


def _case(engine, mol, temp, seed, hist, com, user, rot):
    return dict(engine=engine, mol=mol, temp=float(temp), seed=int(seed), hist=list(hist), com=com, user=user, rot=int(rot))


def _words(depth):
    ops = ["d1", "d17", "md"]
    words = [[]]
    frontier = [[]]
    for _ in range(depth):
        frontier = [w + [o] for w in frontier for o in ops]
        words += frontier
    return words


def lattice(tier, rot):
    cases = {}

    def add(c):
        cases.setdefault(_key(c), c)

    if tier == "quick":
        engines = ["bomd", "langevin", "xl"]
        for e in engines:
            for mol in MOLS:
                for T in (0.0, 10.0, 300.0):
                    for com in COMS:
                        add(_case(e, mol, T, 0, [], com, None, rot))
        for e in ("bomd", "langevin"):
            for mol in MOLS:
                for seed in (1, 12345):
                    for com in (None, ["angular", 1]):
                        add(_case(e, mol, 300.0, seed, [], com, None, rot))
        for e in ("bomd", "langevin"):
            for mol in ("H2O", "CH4+H2O"):
                for seed in (0, 1, 12345):
                    for w in _words(1):
                        add(_case(e, mol, 300.0, seed, w, None, None, rot))
        for e in ("bomd", "langevin"):
            for mol in MOLS:
                for u in ("zero", "P", "L", "PL"):
                    for com in (None, ["linear", 1], ["angular", 3]):
                        add(_case(e, mol, 300.0, 0, [], com, u, rot))
        # seeding of the thermostat noise when the velocities come from the user
        for mol in ("H2O", "CH4+H2O"):
            for seed in (0, 1):
                for w in [[]] + _words(1):
                    add(_case("langevin", mol, 300.0, seed, w, None, "PL", rot))
    else:
        engines = ["bomd", "langevin", "xl", "xl_damped", "ksa", "ksa_damped"]
        for e in ("langevin", "xl_damped", "ksa_damped"):
            for mol in ("H2O", "CH4+H2O", "HF"):
                for seed in (0, 1, 12345):
                    for w in [[]] + _words(1):
                        for u in ("PL", "zero"):
                            add(_case(e, mol, 300.0, seed, w, None, u, rot))
        for e in engines:
            for mol in MOLS:
                for com in COMS:
                    add(_case(e, mol, 0.0, 0, [], com, None, rot))
                    for T in (10.0, 300.0):
                        for seed in (0, 1, 12345):
                            add(_case(e, mol, T, seed, [], com, None, rot))
        for e in ("bomd", "langevin", "xl", "ksa_damped"):
            for mol in MOLS:
                for seed in (0, 1, 12345):
                    for w in _words(2):
                        add(_case(e, mol, 300.0, seed, w, None, None, rot))
            for mol in ("H2O", "CH4+H2O"):
                for w in _words(1):
                    add(_case(e, mol, 10.0, 1, w, ["linear", 1], None, rot))
        for e in engines:
            for mol in MOLS:
                for u in ("zero", "P", "L", "PL", "uniform"):
                    for com in COMS:
                        for T in (0.0, 300.0):
                            add(_case(e, mol, T, 0, [], com, u, rot))
    return list(cases.values())


def _desc(c, oracle, k, mag, extra=None):
    names = c["mol"].split("+")
    d = dict(
        engine=c["engine"], molecule=c["mol"], member=names[k] if 0 <= k < len(names) else "", temp=c["temp"], seed=c["seed"],
        history=".".join(c["hist"]) or "none", com_mode=(c["com"][0] if c["com"] else "none"), com_stride=(c["com"][1] if c["com"] else 0),
        user_field=c["user"] or "none", oracle=oracle, magnitude=float(mag), linear=bool(names[k] in LINEAR) if 0 <= k < len(names) else False,
        padded=("+" in c["mol"]), rot=c["rot"],
    )  # fmt: skip
    d.update(extra or {})
    return d


def _expected_rejection(c, err):
    """combinations the package refuses loudly and the statement does not cover"""
    if ZERO_KE in (err or ""):
        if c["user"] is None and c["temp"] > 0 and c["com"] and c["com"][0] == "angular" and c["mol"] in DIATOMIC and c["engine"] not in THERMOSTATTED:
            return "diatomic with ('angular', N): n_dof = 0"
        if c["user"] == "uniform":
            return "user field is a pure translation: nothing left after the (defective) rigid-body strip"
    return None


def evaluate(chk, cases, verbose=False):
    res = pmap(run_case, cases, chunk=1, timeout=600, progress="C13 cases")
    nprob = 0
    groups = {}
    ok = []
    for c, r in zip(cases, res):
        k = _key(c)
        if is_timeout(r) or is_error(r):
            nprob += 1
            if chk:
                chk.harness_error(f"{k}: case did not complete: {str(r)[-400:]}")
            else:
                print("  HARNESS", k, str(r)[-400:])
            continue
        if r["error"]:
            why = _expected_rejection(c, r["error"])
            if why:
                if chk:
                    chk.rejected += 1
                    chk.case(k, nontrivial=False, outcome="rejected:" + why[:20])
                    if c["user"] == "uniform":
                        # loud, hence not a violation by itself, but it is the user-velocity strip that makes it fail
                        chk.extra["uniform_translation_rejected"] = chk.extra.get("uniform_translation_rejected", 0) + 1
                continue
            nprob += 1
            if chk:
                chk.case(k, nontrivial=True, outcome="raised")
                chk.violation(_desc(c, "run_raised", -1, 0.0, {"error": r["error"][:80]}), f"{k}: the package raised on a valid request: {r['error']}", replay=c)
            else:
                print("  RAISED", k, r["error"])
            continue
        r["rel"] = []
        groups.setdefault(_group_key(c), []).append((c, r))
        ok.append((c, r))
    # seeding: relations between runs of one group (same everything but seed / history)
    ncmp = {"history": 0, "seed_pairs": 0}
    for gk, members in groups.items():
        base = {}
        for c, r in members:
            if not c["hist"]:
                base[c["seed"]] = (c, r)
        for c, r in members:
            if c["hist"] and c["seed"] in base:
                b = base[c["seed"]][1]
                ncmp["history"] += 1
                r["compared"] += 1
                same = r["digest"] == b["digest"]
                r["rel"].append("hist-same" if same else "hist-differs")
                if not same:
                    d0 = max(float(np.abs(a - bb).max()) for a, bb in zip(r["v0"], b["v0"]))
                    r["problems"].append(("seed_history", -1, d0, f"same seed, but the outputs differ from the run without prior RNG history (step-0 velocities differ by {d0:.3e} A/fs)"))
        seeds = sorted(base)
        for i in range(len(seeds)):
            for j in range(i + 1, len(seeds)):
                ci, ri = base[seeds[i]]
                cj, rj = base[seeds[j]]
                if ci["temp"] <= 0:
                    continue
                if ci["user"] is not None:
                    # user-supplied velocities: the seed still has to drive the thermostat noise of stochastic engines
                    if ci["engine"] not in ("langevin", "xl_damped", "ksa_damped"):
                        continue
                    ncmp["seed_pairs"] += 1
                    ri["compared"] += 1
                    rj["compared"] += 1
                    same = ri["digest"] == rj["digest"]
                    rj["rel"].append(f"seed{seeds[i]}-noise-" + ("same" if same else "differs"))
                    if same:
                        rj["problems"].append(("seed_no_effect", -1, 0.0, f"seeds {seeds[i]} and {seeds[j]} give identical trajectories of a thermostatted run started from user-supplied velocities", {"other_seed": seeds[i]}))
                    continue
                ncmp["seed_pairs"] += 1
                ri["compared"] += 1
                rj["compared"] += 1
                same = all(np.array_equal(a, b) for a, b in zip(ri["v0"], rj["v0"]))
                rj["rel"].append(f"seed{seeds[i]}-" + ("same" if same else "differs"))
                if same:
                    rj["problems"].append(("seed_no_effect", -1, 0.0, f"seeds {seeds[i]} and {seeds[j]} give identical step-0 velocities", {"other_seed": seeds[i]}))
    for c, r in ok:
        k = _key(c)
        if chk:
            chk.excluded += r.get("excluded", 0)
            chk.case(k, nontrivial=r["compared"] > 0, outcome=r["sig"] + "|" + ",".join(r["rel"]), sample=dict(case=k, relations=r["rel"], **r["obs"]))
            if r.get("com_work", 0.0) > 1e-9:
                chk.extra["com_removals_with_work"] = chk.extra.get("com_removals_with_work", 0) + 1
        for p_ in r["problems"]:
            o, kk, mag, msg = p_[:4]
            extra = p_[4] if len(p_) > 4 else None
            nprob += 1
            if chk:
                chk.violation(_desc(c, o, kk, mag, extra), f"{k} mol {kk}: {msg}", replay=c)
            else:
                print("  ", k, "mol", kk, msg)
    if chk:
        chk.extra["history_comparisons"] = chk.extra.get("history_comparisons", 0) + ncmp["history"]
        chk.extra["seed_pair_comparisons"] = chk.extra.get("seed_pair_comparisons", 0) + ncmp["seed_pairs"]
    return nprob


def run(chk, tier, seed):
    import vp

    vp.warm()
    cases = lattice(tier, int(seed))
    chk.planned = len(cases)
    # determinism of the harness itself: one case twice, in two processes
    a, b = pmap(run_case, [cases[0], dict(cases[0])], chunk=1, timeout=600)
    if is_error(a) or is_error(b) or a.get("digest") != b.get("digest"):
        chk.harness_error("the same case executed in two processes did not give bit-identical outputs")
    evaluate(chk, cases)
    chk.extra["engines"] = sorted({c["engine"] for c in cases})
    chk.extra["history_words"] = sorted({".".join(c["hist"]) or "-" for c in cases})


def replay(payload):
    c = payload["replay"]
    cases = [c]
    if c["hist"]:
        cases.append(dict(c, hist=[]))
    if payload.get("desc", {}).get("oracle") == "seed_no_effect":
        cases.append(dict(c, seed=payload["desc"]["other_seed"], hist=[]))
    return evaluate(None, cases, verbose=True) == 0
