"""C15  Results depend only on the call's inputs, not on process history or threads.

Explorer: breadth-first enumeration of ALL sequences of public-API events up to a depth, each
sequence executed in its own freshly forked process (history is the state; nothing is merged),
followed by a probe event whose observations are compared with the same event executed as the
first act of a fresh process.  Events come from a heterogeneous job pool in three reuse flavours
(fresh objects / the caller's settings dict reused / dict and driver reused).  Forward and backward
passes of differentiable jobs are separate events and all their interleavings are enumerated.
Also: identical call repeated in-process must be bitwise identical; intra-op thread counts.
"""
import copy
import itertools
import os

import numpy as np

from ..drivers import md as MD
from ..drivers import molecules as M
from ..drivers import sp
from ..pool import is_error, is_timeout, pmap

PID = "C15"
LEVEL = "model_checking"
RULE = (
    "all event sequences of length <= d (d = 1 full alphabet, d = 2/3 on the stated sub-alphabets) followed by a "
    "probe event, one fresh forked process per sequence, unmerged; all interleavings of forward/backward events "
    "of 2 and 3 differentiable jobs; oracle = bitwise/1e-12 agreement of the probe with its fresh-process twin; a "
    "case is non-trivial when the prefix is non-empty; distinct = distinct (prefix, probe)"
)
ASSUMPTIONS = [
    "children are forked from a parent that has imported torch and seqm but executed nothing: that is the 'fresh process'",
    "histories beyond the stated depth and concurrent API callers (several Python threads) are not explored",
    "CPU only",
]

SETTINGS = {
    "am1": lambda: sp.make_params("AM1", solver="adaptive", eps=1e-10),
    "pm3p": lambda: sp.make_params("PM3", solver="pulay", eps=1e-8),
    "mndo_sp2": lambda: sp.make_params("MNDO", solver="fixed0.3", eps=1e-7, sp2=1e-7),
    "am1_uhf": lambda: sp.make_params("AM1", solver="adaptive", eps=1e-9, uhf=True),
    "cis": lambda: dict(sp.make_params("AM1", solver="adaptive", eps=1e-6), excited_states={"n_states": 2, "method": "cis"}, active_state=1),
    "bw_tight": lambda: dict(sp.make_params("AM1", solver="adaptive", eps=1e-10), scf_backward=1),
    "bw_mid": lambda: dict(sp.make_params("MNDO", solver="adaptive", eps=1e-7), scf_backward=1),
    "bw_loose": lambda: dict(sp.make_params("PM3", solver="adaptive", eps=1e-4), scf_backward=1),
    "pm6": lambda: sp.make_params("PM6", solver="adaptive", eps=1e-8),
    "am1_md": lambda: sp.make_params("AM1", solver="adaptive", eps=1e-8),
    # a loose threshold shared by an MD run and a later single point through the SAME dictionary object
    "am1_loose": lambda: sp.make_params("AM1", solver="adaptive", eps=1e-5),
    "pm3_loose": lambda: sp.make_params("PM3", solver="adaptive", eps=1e-5),
    # same method and elements, tables read from another directory (the alternative set shipped with the package)
    "pm6sp": lambda: sp.make_params("PM6_SP", solver="adaptive", eps=1e-8),
    "pm6sp_star": lambda: dict(sp.make_params("PM6_SP", solver="adaptive", eps=1e-8), parameter_file_dir=_star_dir()),
    # same method/elements/tables as "am1", but one parameter column is supplied by the caller
    "am1_learned": lambda: dict(sp.make_params("AM1", solver="adaptive", eps=1e-10), learned=["g_ss"]),
    "am1_learned2": lambda: dict(sp.make_params("AM1", solver="adaptive", eps=1e-10), learned=["U_ss", "zeta_p"]),
    # an explicit element list covering several molecules: ONE driver / MD engine / Constants object legitimately serves
    # molecules of the same shape with other elements in the same slots (H2O [8,1,1] and HCN [7,6,1])
    "am1e": lambda: dict(sp.make_params("AM1", solver="adaptive", eps=1e-10), elements=[0, 1, 6, 7, 8]),
    "am1e_md": lambda: dict(sp.make_params("AM1", solver="adaptive", eps=1e-8), elements=[0, 1, 6, 7, 8]),
    "am1e_anal": lambda: dict(sp.make_params("AM1", solver="adaptive", eps=1e-10, force_mode="analytical"), elements=[0, 1, 6, 7, 8]),
    "pm3e_anal": lambda: dict(sp.make_params("PM3", solver="adaptive", eps=1e-10, force_mode="analytical"), elements=[0, 1, 6, 7, 8]),
    # the SP2 request of "mndo_sp2" under an unrestricted reference (refused); in the shared flavours the two dictionaries
    # hold the SAME `sp2` list object (a shallow copy of the caller's settings, as `dict(params, UHF=True)` makes one)
    "mndo_sp2_uhf": lambda: sp.make_params("MNDO", solver="fixed0.3", eps=1e-7, sp2=1e-7, uhf=True),
    # unsupported combination that is refused INSIDE the SCF step (NotImplementedError), not in Molecule()
    "am1_uhf_pulay": lambda: sp.make_params("AM1", solver="pulay", eps=1e-8, uhf=True),
}

# job -> (kind, settings, molecule, extra)
JOBS = {
    "A": ("sp", "am1", "H2O"),
    "A2": ("sp", "am1", "NH3"),
    "A3": ("sp", "am1", "HF"),
    "B": ("sp", "pm3p", "CH4"),
    "C": ("sp", "mndo_sp2", "NH3"),
    "D": ("sp", "am1_uhf", "CH3"),
    "E": ("sp", "cis", "H2CO"),
    "E2": ("sp", "cis", "H2O"),
    "F": ("grad", "bw_tight", "H2O"),
    "F2": ("grad", "bw_mid", "NH3"),
    "G": ("grad", "bw_loose", "HF"),
    "H": ("sp", "pm6", "H2S"),
    "X": ("sp", "am1", "CH3"),  # odd electron count under RHF: must raise
    "X2": ("sp", "am1_uhf_pulay", "CH3"),  # refused inside the SCF loop: must raise, and must leave no trace
    "CU": ("sp", "mndo_sp2_uhf", "CH3"),  # SP2 + open shell: must raise, and must leave the shared sp2 list alone
    "AL": ("splearn", "am1_learned", "H2O"),  # caller supplies g_ss (table values): same numbers as plain AM1
    "AL2": ("splearn", "am1_learned2", "H2O"),
    "M": ("md", "am1_md", "H2O", "bomd"),
    "L": ("md", "am1_md", "H2O", "xl"),
    "L2": ("md", "am1_loose", "H2O", "xl"),
    "M2": ("md", "am1_loose", "H2O", "langevin"),
    "A4": ("sp", "am1_loose", "H2O"),
    # thermostatted MD on two layouts of the same padded shape and elements (the engine object can be shared: flavour D)
    "N1": ("md", "am1_loose", "H2O+OH-", "langevin"),
    "N2": ("md", "am1_loose", "OH-+H2O", "langevin"),
    "Q": ("sp32", "am1_loose", "H2O"),  # a single-precision calculation (default dtype float32, restored afterwards)
    "Q2": ("sp32", "pm3_loose", "CH4"),
    "B2": ("sp", "pm3_loose", "CH4"),
    # same shape, other elements in the same slots, objects shared in flavour D (driver, MD engine, Constants)
    "K1": ("sp", "am1e", "H2O"),
    "K2": ("sp", "am1e", "HCN"),
    "K3": ("md", "am1e_md", "H2O", "bomd"),
    "K4": ("md", "am1e_md", "HCN", "bomd"),
    # the same molecule under two Hamiltonians with the analytical force evaluator, Constants object shared in flavour D
    "KA": ("sp", "am1e_anal", "H2CO"),
    "KP": ("sp", "pm3e_anal", "H2CO"),
    "P": ("sp", "pm6sp", "H2CO"),
    "PS": ("sp", "pm6sp_star", "H2CO"),
}
ROT = 0


def _star_dir():
    import seqm

    return os.path.join(os.path.dirname(os.path.abspath(seqm.__file__)), "params", "STAR") + os.sep


def _mol(name):
    return M.apply(M.get(name), M.generic_rot(ROT))


def _flat(d):
    out = {}
    for k, v in d.items():
        if v is None:
            continue
        out[k] = np.asarray(v)
    return out


class Ctx:
    def __init__(self):
        self.dicts = {}
        self.drivers = {}
        self.pending = {}  # job -> (loss, molecule) for split forward/backward
        self.engines = {}  # (settings, engine kind) -> MD engine object shared by flavour D
        self.shared = {}  # sub-objects shared between settings dictionaries (shallow copies)
        self.const = None  # the Constants object shared by every flavour-D single point (one `const` per user script)


def run_event(ev, ctx):
    """ev = 'JOB:reuse[:phase]'; reuse in f (fresh), d (shared dict), D (shared dict + driver);
    phase in fwd/bwd for differentiable jobs (default: both)."""
    import torch

    from seqm.ElectronicStructure import Electronic_Structure

    parts = ev.split(":")
    job, reuse = parts[0], parts[1]
    phase = parts[2] if len(parts) > 2 else "both"
    spec = JOBS[job]
    kind, sname, molname = spec[0], spec[1], spec[2]
    if reuse == "f":
        params = SETTINGS[sname]()
    else:
        if sname not in ctx.dicts:
            ctx.dicts[sname] = SETTINGS[sname]()
            if sname in ("mndo_sp2", "mndo_sp2_uhf"):  # shallow copies of one caller dictionary share the list object
                ctx.dicts[sname]["sp2"] = ctx.shared.setdefault("sp2", ctx.dicts[sname]["sp2"])
        params = ctx.dicts[sname]
    mol = _mol(molname) if "+" not in molname else None
    try:
        if kind == "sp":
            molecule, es_new = None, None
            if reuse == "D":
                molecule, es_new = sp.build(mol, params, const=ctx.const)
                ctx.const = molecule.const
                es = ctx.drivers.setdefault(sname, es_new)
            else:
                molecule, es = sp.build(mol, params)
            molecule.verbose = False
            es(molecule)
            return _flat(sp.observe(molecule, es, ["Etot", "Hf", "force", "q", "e_mo", "e_gap", "cis_energies", "dm"]))
        if kind == "sp32":
            torch.set_default_dtype(torch.float32)
            try:
                molecule, es = sp.build(mol, params, dtype=torch.float32)
                molecule.verbose = False
                es(molecule)
                return _flat(sp.observe(molecule, es, ["Etot", "Hf", "force", "q", "e_gap"]))
            finally:
                torch.set_default_dtype(torch.float64)
        if kind == "splearn":
            import torch as _t

            names = list(params["learned"])
            species = mol["species"]
            vals = _table_values(params["method"], names, species)
            lp = {n: _t.as_tensor(vals[n], dtype=_t.float64).clone().requires_grad_(True) for n in names}
            molecule, es = sp.build(mol, params, learned=lp)
            molecule.verbose = False
            es(molecule, learned_parameters=lp)
            return _flat(sp.observe(molecule, es, ["Etot", "Hf", "force", "q", "e_mo", "e_gap", "dm"]))
        if kind == "grad":
            if phase in ("both", "fwd"):
                from seqm.basics import Energy

                molecule, _ = sp.build(mol, params)
                molecule.verbose = False
                en = Energy(params)
                Hf, Etot, Eelec, Enuc, Eiso, EnucAB, e_gap, e, D, charge, notconv = en(molecule, all_terms=True)
                loss = e_gap.sum()
                ctx.pending[job] = (loss, molecule, float(e_gap.sum().detach()), float(Etot.sum().detach()))
                if phase == "fwd":
                    return {"gap": np.asarray(ctx.pending[job][2])}
            loss, molecule, gap, etot = ctx.pending.pop(job)
            (g,) = torch.autograd.grad(loss, molecule.coordinates)
            return {"gap": np.asarray(gap), "Etot": np.asarray(etot), "dgap_dx": g.detach().numpy().copy()}
        if kind == "md":
            mdmols = [_mol(n) for n in molname.split("+")]
            eng = ctx.engines.get((sname, spec[3])) if reuse == "D" else None
            r = MD.run_md(spec[3], mdmols, params, 2, dt=0.5, temp=300.0, seed=7, k=3,
                          out=dict(data=1, coordinates=1, velocities=1, forces=1, xyz=0, print_every=0, checkpoint_every=0),
                          copy_params=False, engine_obj=eng)  # fmt: skip  (the package gets the caller's dictionary itself)
            if reuse == "D":
                ctx.engines[(sname, spec[3])] = r.get("engine")
            if r["error"]:
                return {"raised": np.asarray(r["error"].split(":")[0])}
            obs = {k: v for k, v in r["h5.0"].items()}
            for i in range(1, len(mdmols)):
                obs.update({f"mol{i}/{k}": v for k, v in r[f"h5.{i}"].items()})
            return obs
    except Exception as e:  # noqa: BLE001
        return {"raised": np.asarray(type(e).__name__)}
    raise ValueError(ev)


_TABLE_CACHE = {}


def _table_values(method, names, species):
    """values of the named parameters for each real atom, read from the shipped CSV by the harness itself"""
    import csv
    import os

    from .. import REPO_ROOT

    if method not in _TABLE_CACHE:
        fn = os.path.join(REPO_ROOT, "seqm", "params", f"parameters_{method}_MOPAC.csv")
        with open(fn) as fh:
            rows = list(csv.reader(fh))
        hdr = [h.strip() for h in rows[0]]
        tab = {}
        for r in rows[1:]:
            try:
                tab[int(r[0])] = {h: float(v) for h, v in zip(hdr[2:], r[2:]) if v.strip() != ""}
            except ValueError:
                continue
        _TABLE_CACHE[method] = tab
    tab = _TABLE_CACHE[method]
    return {n: [tab[int(z)][n] for z in species if z > 0] for n in names}


def fingerprint():
    """light fingerprint of hidden process state (reported as evidence, never used for merging)"""
    import torch

    from seqm import basics
    from seqm.seqm_functions import scf_loop

    fp = []
    S = scf_loop.SCF
    for a in ("sp2", "converger", "themethod", "scf_backward_eps"):
        v = getattr(S, a, None)
        fp.append(f"{a}={float(v) if torch.is_tensor(v) else v}")
    for cls, fn in ((basics.Pack_Parameters, "forward"), (basics.Energy, "forward"), (basics.Force, "forward")):
        d = getattr(cls, fn).__defaults__ or ()
        fp.append(f"{cls.__name__}:{[sorted(x.keys()) if isinstance(x, dict) else None for x in d]}")
    for modname in ("seqm.seqm_functions.fock", "seqm.seqm_functions.two_elec_two_center_int"):
        import importlib

        mod = importlib.import_module(modname)
        for n in dir(mod):
            if n.endswith("_CACHE"):
                c = getattr(mod, n)
                fp.append(f"{n}={len(c) if hasattr(c, '__len__') else c}")
    fp.append(f"dtype={torch.get_default_dtype()} grad={torch.is_grad_enabled()} thr={torch.get_num_threads()}")
    return "|".join(fp)


def t_sequence(seq):
    ctx = Ctx()
    obs = None
    for ev in seq:
        obs = run_event(ev, ctx)
    return {"obs": obs, "fp": fingerprint(), "dicts": {k: _dict_sig(v) for k, v in ctx.dicts.items()}}


def _dict_sig(d):
    return {k: (v if isinstance(v, (int, float, str, bool, list)) else repr(v)[:60]) for k, v in d.items()}


def t_interleave(order):
    """order: list of 'JOB:fwd' / 'JOB:bwd' events; returns the bwd observations per job"""
    ctx = Ctx()
    out = {}
    for ev in order:
        job, phase = ev.split(":")
        r = run_event(f"{job}:f:{phase}", ctx)
        if phase == "bwd":
            out[job] = r
    return out


def t_repeat(ev):
    ctx = Ctx()
    a = run_event(ev, ctx)
    b = run_event(ev, Ctx())
    return {"a": a, "b": b}


def t_threads(item):
    import torch

    ev, n = item
    torch.set_num_threads(n)
    return {"obs": run_event(ev, Ctx())}


def _cmp(a, b, rtol, atol):
    """returns (max abs diff, problem string or None)"""
    if set(a) != set(b):
        return 0.0, f"observation keys differ: {sorted(set(a) ^ set(b))}"
    worst = 0.0
    bad = None
    for k in a:
        x, y = np.asarray(a[k]), np.asarray(b[k])
        if x.dtype.kind in "US" or y.dtype.kind in "US":
            if str(x) != str(y):
                return 0.0, f"{k}: {x} vs {y}"
            continue
        if x.shape != y.shape:
            return 0.0, f"{k}: shape {x.shape} vs {y.shape}"
        if x.dtype.kind in "biu" or y.dtype.kind in "biu":
            if not np.array_equal(x, y):
                return float("inf"), f"{k}: integer/boolean values differ"
            continue
        if x.size == 0:
            continue
        if not np.array_equal(np.isfinite(x), np.isfinite(y)):
            return float("inf"), f"{k}: finiteness differs"
        d = float(np.nanmax(np.abs(x - y))) if np.isfinite(x).any() else 0.0
        tol = atol + rtol * float(np.nanmax(np.abs(y))) if np.isfinite(y).any() else atol
        if d > worst:
            worst = d
        if d > tol and bad is None:
            bad = f"{k}: max abs diff {d:.3g} (tolerance {tol:.1g})"
    return worst, bad


def _tol(ev):
    kind = JOBS[ev.split(":")[0]][0]
    if kind == "grad":
        return 1e-9, 1e-10
    return 1e-12, 1e-12


def run(chk, tier, seed):
    global ROT
    ROT = seed
    jobs = list(JOBS)
    events = []
    for j in jobs:
        kinds = ["f"] if JOBS[j][0] in ("grad", "splearn") else ["f", "d"]
        if JOBS[j][0] == "sp" and j in ("A", "A2", "A3", "E", "E2", "H"):
            kinds.append("D")
        if j in ("N1", "N2"):
            kinds.append("D")
        if j.startswith("K"):
            kinds = ["D"]
        events += [f"{j}:{r}" for r in kinds]
    # reference: every event alone in a fresh process (twice: determinism of the harness itself)
    ref1 = pmap(t_sequence, [[e] for e in events], chunk=1, timeout=900, progress="C15 references")
    ref2 = pmap(t_sequence, [[e] for e in events], chunk=1, timeout=900)
    REF = {}
    for e, a, b in zip(events, ref1, ref2):
        if is_timeout(a) or is_error(a) or is_timeout(b) or is_error(b):
            chk.harness_error(f"reference run of {e} failed: {a if is_error(a) else b}")
            return
        w, bad = _cmp(a["obs"], b["obs"], 0.0, 0.0)
        if bad:
            chk.harness_error(f"event {e} is not reproducible across two fresh processes: {bad}")
            return
        REF[e] = a["obs"]
    if "raised" not in REF["X2:f"]:
        chk.violation({"part": "reference", "probe": "X2:f"}, "UHF + Pulay did not raise", replay={"seq": ["X2:f"]})
    # a caller-supplied parameter column holding the table values must reproduce the plain calculation
    w, bad = _cmp(REF["AL:f"], REF["A:f"], 1e-12, 1e-12)
    if bad:
        chk.violation({"part": "reference", "probe": "AL:f"}, f"AM1 H2O with caller-supplied g_ss (table values) differs from plain AM1: {bad}", replay={"seq": ["AL:f"]})
    if "raised" not in REF["X:f"]:
        chk.violation({"part": "reference", "probe": "X:f"}, "odd-electron RHF call did not raise", replay={"seq": ["X:f"]})
    # sequences
    stateful = ["A:d", "A2:d", "A3:D", "E:d", "F:f", "G:f", "X:f", "X2:f", "AL:f", "L:f", "H:f", "C:f"]
    probes_small = ["A:d", "A:D", "F:f", "E2:d", "L:f", "A2:d"]
    seqs = []
    if tier == "quick":
        stateful = ["A2:d", "A3:D", "E:d", "G:f", "X2:f", "AL:f"]
        probes_small = ["A:d", "F:f", "AL2:f"]
        probes1 = ["A:d", "A2:d", "E2:d", "F:f", "L:f", "H:d", "D:d", "A:D", "AL:f", "A4:d", "PS:f", "P:d", "B2:f", "Q:f", "N2:D", "K1:D", "K3:D", "KP:D", "C:d"]
    else:
        probes1 = events
    for p in probes1:  # depth 1: full event alphabet as prefix
        for a in events:
            seqs.append([a, p])
    if tier == "quick":
        for a, b in itertools.product(stateful, repeat=2):
            for p in probes_small:
                seqs.append([a, b, p])
    else:
        # depth 2: every ordered pair of the stateful sub-alphabet (every kind of hidden state the package has: shared
        # dictionaries and drivers, differentiable jobs, refused calls, learned lists, MD engines, single precision,
        # another parameter directory) in front of every probe of the medium probe set; depth 3 on the small sets.
        # (the full alphabet squared in front of every event is 1.4e5 two-second executions: beyond the budget)
        stateful2 = stateful + ["A4:d", "L2:d", "M2:d", "Q:f", "Q2:d", "PS:d", "P:d", "AL2:f", "D:d", "E2:D", "M:d", "N1:D", "K2:D", "K4:D", "KA:D", "CU:d"]
        stateful2 = [e for e in dict.fromkeys(stateful2) if e in events]
        probes_med = ["A:d", "A:D", "A2:d", "E2:d", "F:f", "F2:f", "L:f", "M:f", "H:d", "D:d", "AL:f", "A4:d", "PS:f", "P:d", "B2:f", "Q:f", "C:f", "N2:D", "K1:D", "K3:D", "KP:D"]
        chk.extra["thorough_depth2_prefix_alphabet"] = stateful2
        chk.extra["thorough_depth2_probes"] = probes_med
        for a, b in itertools.product(stateful2, repeat=2):
            for p in probes_med:
                seqs.append([a, b, p])
        for a, b, c in itertools.product(stateful[:8], repeat=3):
            for p in probes_small[:4]:
                seqs.append([a, b, c, p])
    # drop duplicates, keep order
    seen = set()
    uniq = []
    for s in seqs:
        k = "|".join(s)
        if k not in seen:
            seen.add(k)
            uniq.append(s)
    seqs = uniq
    chk.planned = len(seqs)
    res = pmap(t_sequence, seqs, chunk=1, timeout=900, progress="C15 sequences")
    fps = set()
    for s, r in zip(seqs, res):
        key = " > ".join(s)
        probe = s[-1]
        desc = {
            "part": "sequence", "probe": probe, "probe_job": probe.split(":")[0], "probe_reuse": probe.split(":")[1],
            "depth": len(s) - 1, "prefix_jobs": ",".join(sorted({e.split(":")[0] for e in s[:-1]})),
            "prefix_has_same_settings_other_elements": _other_elements(s),
        }  # fmt: skip
        if is_timeout(r) or is_error(r):
            chk.violation(desc, f"{key}: sequence did not complete: {r}", replay={"seq": s})
            continue
        fps.add(r["fp"])
        rt, at = _tol(probe)
        worst, bad = _cmp(r["obs"], REF[probe], rt, at)
        if bad and "raised" in r["obs"] and _driver_lacks_elements(s):
            # a driver object is tied to the element list it was constructed with (documented precondition);
            # reusing it for a molecule with other elements is refused loudly
            chk.rejected += 1
            bad = None
        chk.case(key, nontrivial=True, outcome=f"{probe}|{'same' if worst == 0 else 'differs'}|{'raised' in r['obs']}")
        chk.transitions += len(s)
        chk.traces += 1
        if bad:
            chk.violation(desc, f"[{key}] probe differs from its fresh-process twin: {bad}", replay={"seq": s})
    chk.states = len(fps)
    chk.extra["distinct_hidden_state_fingerprints"] = len(fps)
    # forward/backward interleavings
    dj = ["F", "G"] if tier == "quick" else ["F", "G", "F2"]
    orders = []
    for n in (2, 3):
        if n > len(dj):
            continue
        for combo in itertools.combinations(dj, n):
            evs = [f"{j}:{ph}" for j in combo for ph in ("fwd", "bwd")]
            for perm in set(itertools.permutations(evs)):
                if all(perm.index(f"{j}:fwd") < perm.index(f"{j}:bwd") for j in combo):
                    orders.append(list(perm))
    orders.sort()
    res = pmap(t_interleave, orders, chunk=1, timeout=1200, progress="C15 fwd/bwd interleavings")
    for o, r in zip(orders, res):
        key = "interleave: " + " ".join(o)
        if is_timeout(r) or is_error(r):
            chk.violation({"part": "interleave"}, f"{key}: {r}", replay={"order": o})
            continue
        chk.case(key, outcome=str(sorted(r)))
        chk.transitions += len(o)
        chk.traces += 1
        for job, obs in r.items():
            fwd_last = max(i for i, e in enumerate(o) if e.endswith(":fwd"))
            desc = {"part": "interleave", "probe_job": job, "own_forward_ran_last": o[fwd_last] == f"{job}:fwd", "njobs": len(o) // 2}
            worst, bad = _cmp(obs, REF[f"{job}:f"], 1e-9, 1e-10)
            if bad:
                chk.violation(desc, f"[{key}] gradient of job {job} differs from the job run alone: {bad}", replay={"order": o})
    # identical call repeated in the same process: bitwise
    res = pmap(t_repeat, events, chunk=1, timeout=900)
    for e, r in zip(events, res):
        if is_timeout(r) or is_error(r):
            chk.violation({"part": "repeat", "probe": e}, f"repeat {e}: {r}", replay={"repeat": e})
            continue
        worst, bad = _cmp(r["a"], r["b"], 0.0, 0.0)
        chk.case(f"repeat|{e}", outcome=f"{worst}")
        if bad:
            chk.violation({"part": "repeat", "probe": e}, f"identical call {e} repeated in one process is not bitwise identical: {bad}", replay={"repeat": e})
    # thread counts
    tev = ["A:f", "B:f", "E:f", "M:f"] if tier == "quick" else ["A:f", "B:f", "C:f", "D:f", "E:f", "H:f", "M:f", "L:f"]
    items = [(e, n) for e in tev for n in (2, 4, 8, 16)]
    res = pmap(t_threads, items, chunk=1, timeout=900, workers=4)
    for (e, n), r in zip(items, res):
        if is_timeout(r) or is_error(r):
            chk.violation({"part": "threads", "probe": e, "threads": n}, f"threads {e} x{n}: {r}", replay={"threads": [e, n]})
            continue
        worst, bad = _cmp(r["obs"], REF[e], 1e-8, 1e-9)
        chk.case(f"threads|{e}|{n}", outcome=f"{worst > 0}")
        if bad:
            chk.violation({"part": "threads", "probe": e, "threads": n}, f"{e} with {n} intra-op threads differs from 1 thread: {bad}", replay={"threads": [e, n]})


def _species_of(molname):
    out = []
    for n in molname.split("+"):
        out += list(M.get(n)["species"])
    return out


def _driver_lacks_elements(s):
    """probe reuses a shared driver (flavour D) that was constructed by an earlier event for a molecule
    whose element set does not contain the probe's elements"""
    pj, pr = s[-1].split(":")[0], s[-1].split(":")[1]
    if pr != "D":
        return False
    sname = JOBS[pj][1]
    mine = set(_species_of(JOBS[pj][2]))
    for e in s[:-1]:
        j, r = e.split(":")[0], e.split(":")[1]
        if r == "D" and JOBS[j][1] == sname:
            return not mine <= set(_species_of(JOBS[j][2]))  # the FIRST D event of the slot built the driver
    return False


def _other_elements(s):
    probe = s[-1]
    pj, pr = probe.split(":")[0], probe.split(":")[1]
    if pr == "f":
        return False
    sname = JOBS[pj][1]
    mine = set(_species_of(JOBS[pj][2]))
    for e in s[:-1]:
        j, r = e.split(":")[0], e.split(":")[1]
        if r != "f" and JOBS[j][1] == sname and not mine <= set(_species_of(JOBS[j][2])):
            return True
    return False


def replay(payload):
    c = payload["replay"]
    if "seq" in c:
        r, ref = pmap(t_sequence, [c["seq"], [c["seq"][-1]]], chunk=1)
        rt, at = _tol(c["seq"][-1])
        w, bad = _cmp(r["obs"], ref["obs"], rt, at)
        print(bad)
        return bad is None
    if "order" in c:
        r, = pmap(t_interleave, [c["order"]], chunk=1)
        ok = True
        for job, obs in r.items():
            ref, = pmap(t_sequence, [[f"{job}:f"]], chunk=1)
            w, bad = _cmp(obs, ref["obs"], 1e-9, 1e-10)
            print(job, bad)
            ok = ok and bad is None
        return ok
    print("re-run ./check C15")
    return True
