"""C20  The built-in steepest-descent optimiser descends and stops truthfully.

Explorer (S-seq over the stop machine): the real `Geometry_Optimization_SD.run` is executed with `onestep`
wrapped so that every (geometry, force, energy) it evaluates is recorded, stdout is captured for the
"converged" / "not converged" report, and the recorded evaluation sequence is replayed against the
reference model

    x_1 = start;  evaluate F_i, E_i at x_i;  stop at the first i with max|F_i| <= tol (converged) or at
    i = cap (converged iff max|F_cap| <= tol);  otherwise x_{i+1} = x_i + alpha * F_i

Two families:
  long   every system x start geometry x step factor x method x solver, tolerance 1e-3 and a long cap:
         update rule, descent, padding, returned values, report, batch-vs-alone prefix equality, and the
         (force, energy) used at the 2nd, middle and last evaluation recomputed by a fresh single point on
         the recorded geometry (no density reuse)
  stop   for a sub-family of those trajectories T the stop machine is explored exhaustively over
         tolerance x cap, where the alphabet is built to collide with T: caps n*-1, n*, n*+1 around the
         predicted convergence iteration n*(tol), and tolerances bitwise equal to an observed max|F_j|;
         every run must stop exactly where the model run on T stops and reproduce T's prefix bitwise

state = (iteration, converged?, cap reached?) observed at the end of an iteration; transitions = optimiser
iterations executed; traces = runs whose evaluation sequence was checked against the reference model.
"""
import contextlib
import copy
import io
import os
import re

import numpy as np

from ..budget import Horizon
from ..drivers import batch as B
from ..drivers import molecules as M
from ..drivers import sp
from ..pool import is_error, is_timeout, pmap

PID = "C20"
LEVEL = "model_checking"
RULE = (
    "long family: product of systems (single molecules and the zero-/far-padded batch {CH4,H2O}) x fixed start "
    "distortions (pattern x amplitude {0.02,0.1} A) x step factor {1e-4,1e-3,5e-3,2e-2} x (method, solver) with "
    "tolerance 1e-3 and a long cap; stop family: for a sub-family of those trajectories every (tolerance, cap) of "
    "{3,1,0.3,1e-1,1e-2,1e-3, max|F_j| of the trajectory bitwise} x {1,2,3,5,20,long} plus the caps n*-1,n*,n*+1 "
    "around the predicted convergence iteration; one real optimiser run per point with every evaluation recorded; "
    "distinct = distinct (system,start,alpha,method,solver,tol,cap); non-trivial = at least one evaluation checked"
)
ASSUMPTIONS = [
    "CPU, float64, generic orientation, scf_eps 1e-10; descent slack 10 x scf_eps = 1e-9 eV per molecule",
    "descent is demanded for step factors <= 5e-3 only (2e-2 is observed to descend too, 5e-2 diverges: DESIGN.md)",
    "batch-vs-alone prefix equality within 1000 x scf_eps = 1e-7 (A, eV, eV/A) over the common prefix",
    "the reference update rule x + alpha*F is the one documented in the class constructor",
    "the independent re-evaluation of (force, energy) is applied only to evaluations before the first energy "
    "rise of a run (multi-solution SCF far from equilibrium is outside the statement)",
    "molecule.coordinates after run() is one update beyond the last evaluated geometry (by construction of "
    "onestep); the statement only constrains the returned numbers, so this is recorded, not judged",
]

SCF_EPS = 1e-10
SLACK = 10 * SCF_EPS
K = 1000.0
TOL_LONG = 1e-3
ALPHAS = [1e-4, 1e-3, 5e-3, 2e-2]
TOLS = [3.0, 1.0, 0.3, 1e-1, 1e-2, 1e-3]
CAPS = [1, 2, 3, 5, 20]
HORIZON = 3000

_TRAJ = {}

# --------------------------------------------------------------------------- systems and starts

SYSTEMS = {
    "H2O": (["H2O"], 0, "zero"),
    "CH4": (["CH4"], 0, "zero"),
    "H2CO": (["H2CO"], 0, "zero"),
    "HF": (["HF"], 0, "zero"),
    "NH3": (["NH3"], 0, "zero"),
    "C2H2": (["C2H2"], 0, "zero"),
    "H2O+pad": (["H2O"], 2, "mixed"),
    "CH4,H2O": (["CH4", "H2O"], 0, "zero"),
    "CH4,H2O+far": (["CH4", "H2O"], 1, "far"),
    "H2O,CH4+mixed": (["H2O", "CH4"], 2, "mixed"),
    "H2O,CH4": (["H2O", "CH4"], 0, "zero"),
}


def start_molecule(name, start, seed):
    pat, amp = start
    m = M.apply(M.get(name), M.generic_rot(seed))
    n = len(m["species"])
    a = np.arange(n)[:, None]
    c = np.arange(3)[None, :]
    m["coords"] = m["coords"] + amp * np.sin((1.9 + 0.4 * pat) * a + (2.7 - 0.3 * pat) * c + 1.1 * pat + 0.3)
    return m


def traj_key(c):
    return f"{c['system']}|s{c['start'][0]}a{c['start'][1]}|alpha{c['alpha']}|{c['method']}|{c['solver']}" + (f"|after:{c['prior']}" if c.get("prior") else "")


def case_key(c):
    return f"{c['fam']}|{traj_key(c)}|tol{c['tol']!r}|cap{c['cap']}"


# --------------------------------------------------------------------------- one real run


def run_sd(c):
    """Execute the real optimiser once; returns the recording as numpy arrays."""
    from seqm.MolecularDynamics import Geometry_Optimization_SD

    names, pad, pat = SYSTEMS[c["system"]]
    mols = [start_molecule(n, c["start"], c["seed"]) for n in names]
    params = sp.make_params(c["method"], c["solver"], eps=SCF_EPS)
    species, xyz0, _, _ = B.assemble(mols, pad, pat)
    rec = {"x": [], "f": [], "e": [], "xa": []}
    buf = io.StringIO()
    err = None
    ret = None
    final = None
    with B.uninitialised("zero"):
        molecule, _ = B.build(mols, params, pad, pat)
        opt = Geometry_Optimization_SD(params, alpha=c["alpha"], force_tol=c["tol"], max_evl=c["cap"])
        if c.get("prior"):
            # the SAME optimiser object served another batch of the same padded shape (other padding layout) before
            pn, ppad, ppat = SYSTEMS[c["prior"]]
            pm, _ = B.build([start_molecule(n, c["start"], c["seed"] + 1) for n in pn], params, ppad, ppat)
            opt.max_evl = 3
            with contextlib.redirect_stdout(io.StringIO()):
                opt.run(pm)
            opt.max_evl = c["cap"]
        orig = opt.onestep

        def onestep(molecule, *a, **kw):
            rec["x"].append(molecule.coordinates.detach().clone().numpy())
            with Horizon(HORIZON):  # per evaluation: a spinning SCF is cut deterministically
                out = orig(molecule, *a, **kw)
            f, e = out
            rec["f"].append(f.detach().clone().numpy())
            rec["e"].append(e.detach().clone().numpy())
            rec["xa"].append(molecule.coordinates.detach().clone().numpy())
            return out

        opt.onestep = onestep
        with contextlib.redirect_stdout(buf):
            try:
                ret = opt.run(molecule)
            except Exception as e:  # noqa: BLE001
                err = f"{type(e).__name__}: {e}"
        final = molecule.coordinates.detach().clone().numpy()
    out = {k: np.array(v) for k, v in rec.items()}
    out.update(
        stdout=buf.getvalue(), error=err, species=species, x0=xyz0, final=final,
        ret=None if ret is None else (float(ret[0]), float(ret[1])),
    )  # fmt: skip
    return out


# --------------------------------------------------------------------------- reference model + oracle


def model_stop(maxf, tol, cap):
    """reference stop rule on a recorded max-force sequence: (number of evaluations, converged?) or None if
    the sequence is too short to decide"""
    for i, v in enumerate(maxf, start=1):
        if v <= tol:
            return i, True
        if i == cap:
            return i, False
    return None


def judge(c, r):
    """conformance of one recorded run with the reference model and the clauses of the statement"""
    prob = []
    if r["error"]:
        return [f"run raised {r['error']}"], None
    alpha, tol, cap = c["alpha"], c["tol"], c["cap"]
    x, f, e, xa = r["x"], r["f"], r["e"], r["xa"]
    n = len(x)
    pad = r["species"] == 0
    nmol = x.shape[1] if n else 0
    if n == 0:
        return ["no evaluation was made"], None
    maxf = np.abs(f).reshape(n, -1).max(axis=1)
    # a. first evaluated geometry is the start geometry; b. update rule, no hidden moves
    if not np.array_equal(x[0], r["x0"]):
        prob.append("first evaluated geometry is not the start geometry")
    for i in range(n):
        expect = x[i] + alpha * f[i]
        if not np.array_equal(xa[i], expect):
            d = float(np.abs(xa[i] - expect).max())
            prob.append(f"iteration {i + 1}: geometry after the update differs from x + alpha*F of this evaluation by {d:.3e}")
            break
    for i in range(n - 1):
        if not np.array_equal(x[i + 1], xa[i]):
            prob.append(f"iteration {i + 2}: evaluated geometry is not the one produced by the previous update")
            break
    # c. stop rule
    m = model_stop(maxf, tol, cap)
    if n > cap:
        prob.append(f"{n} evaluations made, cap is {cap}")
    if m is None:
        prob.append(f"run ended after {n} evaluations although max|F| = {maxf[-1]:.6e} > tol {tol!r} and the cap {cap} was not reached")
        converged = bool(maxf[-1] <= tol)
    else:
        nm, converged = m
        if nm != n:
            prob.append(
                f"run made {n} evaluations; the stop rule ends at evaluation {nm} "
                f"({'max|F| = %.6e <= tol' % maxf[nm - 1] if converged else 'cap'})"
            )
            converged = bool(maxf[-1] <= tol)
    # d. report
    out = r["stdout"]
    said_not = re.search(r"not converged within (\d+) step", out)
    said_conv = re.search(r"^converged with (\d+) step", out, re.M)
    if converged:
        if said_not:
            prob.append(f"report says 'not converged within {said_not.group(1)} step' although max|F| = {maxf[-1]:.6e} <= tol {tol!r} at the last evaluation")
        elif not said_conv:
            prob.append("converged but no 'converged with N step' report")
        elif int(said_conv.group(1)) != n:
            prob.append(f"report says converged with {said_conv.group(1)} step, {n} evaluations were made")
    else:
        if said_conv:
            prob.append(f"report says converged although max|F| = {maxf[-1]:.6e} > tol {tol!r} (cap reached)")
        if not said_not:
            prob.append("cap reached without convergence but no 'not converged' report")
        elif int(said_not.group(1)) != cap:
            prob.append(f"report names cap {said_not.group(1)}, cap is {cap}")
    nlog = len(re.findall(r"^\d+ +\d\.\d+e[+-]\d+ \|\|", out, re.M))
    if nlog != n:
        prob.append(f"{nlog} iteration lines logged, {n} evaluations made")
    # e. returned values are those of the last evaluation
    if r["ret"] is None:
        prob.append("nothing returned")
    else:
        ferr, derr = r["ret"]
        if ferr != float(maxf[-1]):
            prob.append(f"returned max force {ferr:.9e} is not that of the last evaluation {maxf[-1]:.9e}")
        eprev = e[-2] if n > 1 else np.zeros_like(e[-1])
        dref = float((e[-1] - eprev).sum() / nmol)
        if abs(derr - dref) > 1e-12 * max(1.0, abs(dref)):
            prob.append(f"returned dE {derr:.12e} is not that of the last evaluation {dref:.12e}")
    # f. padding never moves
    if pad.any():
        for i in range(n):
            if not np.array_equal(xa[i][pad], r["x0"][pad]):
                prob.append(f"iteration {i + 1}: padding-slot coordinates changed")
                break
        if not np.array_equal(r["final"][pad], r["x0"][pad]):
            prob.append("padding-slot coordinates differ after run()")
    if not np.array_equal(r["final"], xa[-1]):
        prob.append("molecule.coordinates after run() is not the geometry produced by the last update")
    if not (np.all(np.isfinite(e)) and np.all(np.isfinite(f))):
        prob.append("non-finite energy or force evaluated")
    # g. descent
    if alpha <= 5e-3 and n > 1:
        de = e[1:] - e[:-1]
        if de.max() > SLACK:
            i, k = np.unravel_index(int(np.argmax(de)), de.shape)
            prob.append(f"iteration {i + 2}: energy of molecule {k} rose by {de.max():.3e} eV (alpha {alpha})")
    state = (n, bool(converged), n >= cap)
    return prob, state


def prefix_equal(r, t):
    """a stop-family run must reproduce the long trajectory bitwise on its prefix"""
    n = min(len(r["x"]), len(t["x"]))
    for name in ("x", "f", "e"):
        if not np.array_equal(r[name][:n], t[name][:n]):
            d = float(np.abs(r[name][:n] - t[name][:n]).max())
            return f"evaluation sequence differs from the same optimisation run with another (tol, cap): {name} by {d:.3e}"
    return None


def batch_vs_alone(cb, tb, singles):
    """row k of the batch trajectory against the trajectory of molecule k alone (common prefix)"""
    prob = []
    names, _, _ = SYSTEMS[cb["system"]]
    tol = K * SCF_EPS
    worst = 0.0
    for k, name in enumerate(names):
        ta = singles.get(name)
        if ta is None or ta["error"] or tb["error"]:
            continue
        nat = len(M.get(name)["species"])
        n = min(len(tb["x"]), len(ta["x"]))
        for q, arr_b, arr_a in (
            ("geometry", tb["x"][:n, k, :nat], ta["x"][:n, 0, :nat]),
            ("force", tb["f"][:n, k, :nat], ta["f"][:n, 0, :nat]),
            ("energy", tb["e"][:n, k], ta["e"][:n, 0]),
        ):
            d = np.abs(arr_b - arr_a).reshape(n, -1).max(axis=1)
            worst = max(worst, float(d.max()))
            if d.max() > tol:
                i = int(np.argmax(d > tol))
                prob.append(f"{name} in the batch: {q} at evaluation {i + 1} differs from the run alone by {d[i]:.3e} (> {tol:.0e})")
                break
    return prob, worst


# --------------------------------------------------------------------------- workers


def independent_evaluations(c, r, indices):
    """the (force, energy) the optimiser used at evaluation i must be those of the geometry it evaluated:
    recomputed by a fresh single point (new Molecule, no density reuse) on the recorded geometry"""
    prob = []
    worst = 0.0
    names, pad, pat = SYSTEMS[c["system"]]
    tol = K * SCF_EPS
    # only while the run has descended so far: once a too large step has thrown the molecule out of its basin
    # (H2CO with alpha 2e-2: r(CO) jumps between 0.9 and 3.1 A) the SCF has several solutions and the one
    # reached from the reused density need not be the one reached from a fresh guess (outside the statement)
    rises = np.nonzero((r["e"][1:] - r["e"][:-1]).max(axis=1) > SLACK)[0]
    first_rise = int(rises[0]) + 1 if len(rises) else len(r["e"])
    for i in indices:
        if i >= first_rise:
            continue
        mols = []
        for k, name in enumerate(names):
            m = start_molecule(name, c["start"], c["seed"])
            m["coords"] = r["x"][i][k, : len(m["species"])].copy()
            mols.append(m)
        with contextlib.redirect_stdout(io.StringIO()), B.uninitialised("zero"), Horizon(HORIZON):
            obs = B.single_point(mols, sp.make_params(c["method"], c["solver"], eps=SCF_EPS), pad, pat, names=["force", "Etot"])
        df = float(np.abs(obs["force"] - r["f"][i]).max())
        de = float(np.abs(obs["Etot"] - r["e"][i]).max())
        worst = max(worst, df, de)
        if df > tol:
            prob.append(f"evaluation {i + 1}: the force the optimiser used differs from the force of the evaluated geometry by {df:.3e} (> {tol:.0e})")
        if de > tol:
            prob.append(f"evaluation {i + 1}: the energy the optimiser used differs from the energy of the evaluated geometry by {de:.3e} (> {tol:.0e})")
    return prob, worst


def long_task(c):
    r = run_sd(c)
    prob, state = judge(c, r)
    if not r["error"] and len(r["x"]) > 0:
        n = len(r["x"])
        p2, _ = independent_evaluations(c, r, sorted({min(1, n - 1), n // 2, n - 1}))
        prob += p2
    rise = float((r["e"][1:] - r["e"][:-1]).max()) if len(r["e"]) > 1 and c["alpha"] <= 5e-3 else None
    return {"rec": r, "problems": prob, "state": state, "rise": rise}


def stop_task(c):
    r = run_sd(c)
    prob, state = judge(c, r)
    t = _TRAJ.get(traj_key(c))
    if t is not None and not r["error"]:
        p = prefix_equal(r, t)
        if p:
            prob.append(p)
        maxf = np.abs(t["f"]).reshape(len(t["f"]), -1).max(axis=1)
        m = model_stop(maxf, c["tol"], c["cap"])
        if m is not None and (m[0] != len(r["x"])):
            prob.append(f"the model run on the long trajectory stops at evaluation {m[0]}, this run made {len(r['x'])}")
    return {"problems": prob, "state": state, "n": len(r["x"]), "stdout_tail": r["stdout"].splitlines()[-1:] if r["stdout"] else []}


# --------------------------------------------------------------------------- lattices


def _case(fam, system, start, alpha, method, solver, tol, cap, seed):
    return dict(fam=fam, system=system, start=list(start), alpha=alpha, method=method, solver=solver, tol=tol, cap=cap, seed=seed)


def long_lattice(tier, seed):
    if tier == "quick":
        systems = ["H2O", "CH4", "H2CO", "CH4,H2O", "CH4,H2O+far"]
        starts = [(0, 0.1), (1, 0.02)]
        configs = [("AM1", "adaptive"), ("PM3", "adaptive"), ("AM1", "pulay")]
        cap = 40
    else:
        systems = list(SYSTEMS)
        starts = [(0, 0.1), (1, 0.02), (2, 0.1), (3, 0.02)]
        configs = [("AM1", "adaptive"), ("PM3", "adaptive"), ("AM1", "pulay"), ("PM3", "pulay")]
        cap = 60
    if os.environ.get("C20_DEV"):  # development aid (reported as capped): a small slice of the quick lattice
        systems, starts, configs = ["H2O", "CH4", "CH4,H2O+far"], [(0, 0.1)], [("AM1", "adaptive")]
    out = []
    for s in systems:
        for st in starts:
            for a in ALPHAS:
                for m, sv in configs:
                    out.append(_case("long", s, st, a, m, sv, TOL_LONG, cap, seed))
    # histories: the optimiser object is reused for a batch of the same padded shape with another padding layout
    for s_, prior in (("CH4,H2O", "H2O,CH4"), ("H2O,CH4", "CH4,H2O")):
        for a in (5e-3, 2e-2) if tier == "quick" else ALPHAS:
            for m, sv in configs[:1] if tier == "quick" else configs:
                out.append(_case("long", s_, starts[0], a, m, sv, TOL_LONG, cap, seed))
                out[-1]["prior"] = prior
    if tier != "quick":  # the documented cap of the design (200) on the two fastest-converging step factors
        for s in ("H2O", "CH4,H2O+far"):
            for a in (5e-3, 2e-2):
                out.append(_case("long", s, (0, 0.1), a, "AM1", "adaptive", TOL_LONG, 200, seed))
    return out, cap


def stop_lattice(tier, long_cases, cap_long, budget):
    """(tolerance, cap) alphabet colliding with each selected long trajectory"""
    out = []
    skipped = 0
    if tier == "quick":
        sel = [c for c in long_cases if c["system"] in ("H2O", "CH4,H2O+far") and c["start"] == [0, 0.1]
               and (c["method"], c["solver"]) == ("AM1", "adaptive") and c["cap"] == cap_long]  # fmt: skip
    else:
        sel = [c for c in long_cases if c["system"] in ("H2O", "CH4", "H2O+pad", "CH4,H2O+far", "H2O,CH4+mixed")
               and c["start"][0] in (0, 1) and c["solver"] == "adaptive" and c["cap"] == cap_long
               and (c["method"] == "AM1" or c["system"] == "H2O")]  # fmt: skip
    for c in sel:
        t = _TRAJ.get(traj_key(c))
        if t is None or t["error"] or len(t["f"]) == 0:
            continue
        maxf = np.abs(t["f"]).reshape(len(t["f"]), -1).max(axis=1)
        tols = list(TOLS) + [float(maxf[j]) for j in (0, 2, 6) if j < len(maxf)]  # bitwise-equal tolerances
        for tol in tols:
            nstar = next((i for i, v in enumerate(maxf, start=1) if v <= tol), None)
            caps = set(CAPS) | ({cap_long} if tol <= 1e-2 else set())
            if nstar is not None:
                caps |= {max(1, nstar - 1), nstar, nstar + 1}
            for cap in sorted(caps):
                m = model_stop(maxf, tol, cap)
                if m is None:
                    continue  # beyond the recorded trajectory: nothing to predict
                if m[0] > budget:
                    skipped += 1
                    continue
                s = dict(c)
                s.update(fam="stop", tol=tol, cap=cap)
                out.append(s)
    # tolerances that separate the stated stop rule (largest force component of the CURRENT evaluation, over the whole
    # batch) from a per-molecule "has been below the tolerance once" rule: they exist where a member's largest force
    # is not monotone along the trajectory (step factors near the stability limit)
    for c in long_cases:
        names, _, _ = SYSTEMS[c["system"]]
        t = _TRAJ.get(traj_key(c))
        if len(names) < 2 or c.get("prior") or c["cap"] != cap_long or t is None or t["error"] or len(t["f"]) < 3:
            continue
        F = np.abs(t["f"])
        per = F.reshape(F.shape[0], F.shape[1], -1).max(axis=2)  # (iteration, molecule)
        allm = per.max(axis=1)
        best = np.minimum.accumulate(per, axis=0)
        found = 0
        for tol in sorted({float(v) for v in per.reshape(-1)}, reverse=True):
            true_stop = next((i for i, v in enumerate(allm, start=1) if v <= tol), None)
            sticky = next((i for i in range(1, len(per) + 1) if (best[i - 1] <= tol).all()), None)
            if sticky is None or sticky == true_stop or sticky + 1 > min(budget, len(per)):
                continue
            # the stated rule is still running at evaluation sticky + 1 (it stops there only through the cap)
            for cap in sorted({sticky + 1, min(len(per), (true_stop or len(per)) + 1, budget)}):
                if model_stop(allm, tol, cap) is None:
                    continue
                s_ = dict(c)
                s_.update(fam="stop", tol=tol, cap=cap)
                out.append(s_)
            found += 1
            if found == 2:
                break
    return out, skipped


def describe(c, prob, state):
    first = prob[0] if prob else ""
    names, pad, pat = SYSTEMS[c["system"]]
    kind = "other"
    for tag, pat_ in (
        ("report_not_converged_although_converged", "report says 'not converged"),
        ("report_converged_although_cap", "report says converged although"),
        ("stop_iteration", "the stop rule ends"),
        ("stop_early", "run ended after"),
        ("stale_evaluation", "optimiser used differs from"),
        ("update_rule", "differs from x + alpha*F"),
        ("hidden_move", "not the one produced by the previous update"),
        ("padding_moved", "padding-slot"),
        ("returned_force", "returned max force"),
        ("returned_dE", "returned dE"),
        ("energy_rose", "rose by"),
        ("batch_path", "in the batch:"),
        ("prefix", "evaluation sequence differs"),
        ("exception", "run raised"),
    ):
        if pat_ in first:
            kind = tag
            break
    return {
        "family": c["fam"], "system": c["system"], "nmol": len(names), "padded": bool(pad) or len({len(M.get(n)["species"]) for n in names}) > 1,
        "start_pattern": c["start"][0], "amplitude": c["start"][1], "alpha": c["alpha"], "tol": c["tol"], "cap": c["cap"],
        "method": c["method"], "solver": c["solver"], "kind": kind,
        "evaluations": state[0] if state else -1, "converged": bool(state[1]) if state else False,
        "cap_reached": bool(state[2]) if state else False,
        "converged_at_cap": bool(state and state[1] and state[2]),
        "first_problem": first[:200],
    }  # fmt: skip


def run(chk, tier, seed):
    B.freeze_code()
    long_cases, cap_long = long_lattice(tier, seed)
    if os.environ.get("C20_DEV"):
        long_cases = [c for c in long_cases if c["alpha"] >= 5e-3]
        chk.cap("C20_DEV")
    res = pmap(long_task, long_cases, chunk=1, timeout=3600, progress="C20 long runs")
    states = set()
    planned = len(long_cases)
    worst_rise = -1.0e9
    for c, r in zip(long_cases, res):
        k = case_key(c)
        if is_timeout(r) or is_error(r):
            chk.violation(describe(c, [f"run raised {str(r)[:200]}"], None), f"{k}: did not complete: {str(r)[:300]}", replay=c)
            continue
        if c["cap"] == cap_long:
            _TRAJ.setdefault(traj_key(c), r["rec"])
        n = len(r["rec"]["x"])
        if r.get("rise") is not None:
            worst_rise = max(worst_rise, r["rise"])
        chk.case(k, nontrivial=n > 0, outcome=f"long|{r['state']}|{len(r['problems'])}")
        chk.transitions += n
        chk.traces += 1
        if r["state"]:
            states.add(r["state"])
        if r["problems"]:
            chk.violation(describe(c, r["problems"], r["state"]), f"{k}: {r['problems'][0]} (+{len(r['problems']) - 1} more)", replay=c)
    # batch rows against the same optimisation of the molecule alone
    worst_pair = 0.0
    npairs = 0
    for c in long_cases:
        names, _, _ = SYSTEMS[c["system"]]
        if len(names) < 2 or c["cap"] != cap_long:
            continue
        tb = _TRAJ.get(traj_key(c))
        singles = {}
        for nme in names:
            cs = {k_: v_ for k_, v_ in dict(c, system=nme).items() if k_ != "prior"}  # alone, and with a new optimiser
            if traj_key(cs) in _TRAJ:
                singles[nme] = _TRAJ[traj_key(cs)]
        if tb is None or not singles:
            continue
        p, w = batch_vs_alone(c, tb, singles)
        npairs += len(singles)
        worst_pair = max(worst_pair, w)
        chk.traces += 1
        if p:
            chk.violation(describe(c, p, None), f"{case_key(c)}: {p[0]}", replay=dict(c, fam="pair"))
    chk.extra["largest_energy_change_between_evaluations_alpha_le_5e-3"] = worst_rise  # negative = strict descent
    chk.extra["batch_vs_alone_rows_compared"] = npairs
    chk.extra["batch_vs_alone_worst_deviation"] = worst_pair
    # the stop machine
    budget = 45 if tier == "quick" else 10**9
    stop_cases, skipped = stop_lattice(tier, long_cases, cap_long, budget)
    planned += len(stop_cases)
    if skipped:
        chk.extra["stop_cases_beyond_quick_evaluation_budget"] = skipped
    res = pmap(stop_task, stop_cases, chunk=4, timeout=3600, progress="C20 stop machine")
    for c, r in zip(stop_cases, res):
        k = case_key(c)
        if is_timeout(r) or is_error(r):
            chk.violation(describe(c, [f"run raised {str(r)[:200]}"], None), f"{k}: did not complete: {str(r)[:300]}", replay=c)
            continue
        chk.case(k, nontrivial=r["n"] > 0, outcome=f"stop|{r['state']}|{len(r['problems'])}")
        chk.transitions += r["n"]
        chk.traces += 1
        if r["state"]:
            states.add(r["state"])
        if r["problems"]:
            chk.violation(describe(c, r["problems"], r["state"]), f"{k}: {r['problems'][0]} (+{len(r['problems']) - 1} more)", replay=c)
    chk.planned = planned
    chk.states = len(states)
    chk.extra["terminal_state_classes"] = sorted({(bool(s[1]), bool(s[2])) for s in states})
    chk.extra["long_runs"] = len(long_cases)
    chk.extra["stop_runs"] = len(stop_cases)


def replay(payload):
    c = copy.deepcopy(payload["replay"])
    if c["fam"] == "pair":
        names, _, _ = SYSTEMS[c["system"]]
        cb = dict(c, fam="long")
        tb = run_sd(cb)
        singles = {n: run_sd({k_: v_ for k_, v_ in dict(cb, system=n).items() if k_ != "prior"}) for n in names}
        p, w = batch_vs_alone(cb, tb, singles)
        print("  worst deviation", w)
        for x in p:
            print("  ", x)
        return not p
    r = run_sd(c)
    prob, state = judge(c, r)
    if c["fam"] == "long" and not r["error"] and len(r["x"]) > 0:
        n = len(r["x"])
        prob += independent_evaluations(c, r, sorted({min(1, n - 1), n // 2, n - 1}))[0]
    if c["fam"] == "stop":
        t = run_sd(dict(c, tol=TOL_LONG, cap=max(c["cap"], len(r["x"]))))
        p = prefix_equal(r, t)
        if p:
            prob.append(p)
    print("  state (evaluations, converged, cap reached):", state, "| last stdout line:", r["stdout"].splitlines()[-1:] if r["stdout"] else None)
    for x in prob:
        print("  ", x)
    return not prob
