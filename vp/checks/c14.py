"""C14  Reported observables are mutually consistent.

Explorer: exhaustive finite lattice (S-lat) of single-point executions of the real driver:
method x molecule alphabet (neutral closed shells, ions, doublets, triplets) x SCF converger x SP2 x spin
treatment {RHF, UHF} x active state {S0, CIS S1, CIS S2, RPA S1; with and without a force request} x orientation
{documentation layout, generic} x batch layout {homogeneous pair (x, x+t), zero-padded mixed batch}.

Oracle on every molecule of every call (vp.oracles.observables, numpy only): Etot = Eelec + Enuc (+ excitation
energy of the active state); Eiso from the parameter CSVs; Hf = Etot - sum Eiso + sum eheat; e_mo ascending,
gap = e[nocc] - e[nocc-1], e_mo = eigenvalues of the Fock matrix rebuilt from the returned density with the
package's hcore/fock; Eelec = tr P(H+F)/2; q from the diagonal blocks of dm, sum q = charge, q(padding) = 0;
dipole = point charges + sp-hybrid term; d(x+t) - d(x) = Q t.
"""
import copy

import numpy as np

from ..drivers import lattice as L
from ..drivers import molecules as M
from ..drivers import sp
from ..oracles import observables as O
from ..pool import is_error, is_timeout, pmap

PID = "C14"
LEVEL = "exploration"
RULE = (
    "product lattice method x molecule alphabet (closed shells, ions, doublets, triplets) x SCF converger x SP2 x "
    "{RHF, UHF} x active state {S0, CIS S1/S2, RPA S1} x {force requested, energy only} x orientation x batch layout "
    "{(x, x+t) pair, zero-padded mixed}; one case = one execution of the real driver, every identity recomputed with "
    "numpy for every molecule of the batch; non-trivial when the call returned and identities were compared; "
    "distinct = distinct tuple"
)
ASSUMPTIONS = [
    "molecules of the stated finite alphabet; CPU, float64; scf_eps 1e-10, CIS tolerance 1e-8, SP2 tolerance 1e-7",
    "Eiso is recomputed from the shipped CSV tables with an own reader and MOPAC's occupation-number formulas; atomic "
    "heats and the eV/kcal and dipole unit constants are an own copy of the published values",
    "the Fock operator of the statement is rebuilt from the returned density with the package's own hcore/fock "
    "(its agreement with the published NDDO model is property C06, not C14)",
    "PM6 (d orbitals): the package reports no dipole and its d-orbital Fock build is not re-run here; energy, gap, "
    "ordering and charge identities are checked",
]

EPS = 1e-10
CIS_TOL = 1e-8
SP2_TOL = 1e-7
SHIFT = np.array([10.0, -7.0, 3.0])
EXCITABLE = ["H2O", "H2CO", "NH3", "HCN", "CH3OH", "CH3F", "H2COH+", "HCOO-"]
PM6_MOLS = ["H2S", "HCl", "SO2", "CH3Cl", "H2O"]
ALL_NAMED = list(M.MOLS) + list(L.EXTRA)
# molecules with the same number of atoms and other elements in the same slots (driver-history cases)
MATE = {"H2O": "HCN", "HCN": "H2O", "H2S": "H2O", "NH3": "H2CO", "H2CO": "NH3", "CH4": "CH3Cl", "CH3Cl": "CH4", "CH3F": "CH4"}


def _params(case, uhf):
    extra = {}
    if case["excited"]:
        extra["excited_states"] = {"n_states": 3, "method": case["excited"][0], "tolerance": CIS_TOL}
    return sp.make_params(case["method"], solver=case["solver"], eps=EPS, sp2=SP2_TOL if case["sp2"] else None, uhf=uhf, **extra)


def _mols(case):
    mol = L.build(case["spec"], case.get("seed", 0))
    if case["layout"] == "pair":
        return [mol, M.apply(mol, None, SHIFT)], 0
    mate = M.apply(M.get("CH4"), M.generic_rot(case.get("seed", 0) + 1), [0.4, -0.2, 0.3])
    return [mate, mol], 1


def _stretched(m, d):
    """bond between atoms 0 and 1 changed by d Angstrom (atom 1 moved along the bond)"""
    m = dict(m)
    c = np.array(m["coords"], float)
    u = c[1] - c[0]
    c[1] = c[1] + d * u / np.linalg.norm(u)
    m["coords"] = c
    return m


def run_case(case):
    from ..budget import IterationHorizon

    mols, pad = _mols(case)
    first = None
    if case.get("revisit"):
        # the SAME Molecule object is evaluated at a stretched geometry first and then moved in place (as MD and the
        # optimiser do) to a compressed one, where the identities are evaluated; frontier orbitals re-order in between
        first = [_stretched(m, 0.40) for m in mols]
        mols = [_stretched(m, -0.15) for m in mols]
    prev = None
    if case.get("driver_history"):
        # the SAME driver and Constants objects served another system of the same padded shape (other elements in the
        # same slots) before: what a user script with one `const` and one driver does
        mate = M.apply(L.get_named(MATE[case["spec"]["mol"]]), M.generic_rot(case.get("seed", 0) + 2))
        prev = [mate, M.apply(mate, None, SHIFT)] if case["layout"] == "pair" else [mols[0], mate]
    target = mols[-1]
    uhf = bool(case["uhf"]) or target["mult"] != 1
    act = case["excited"][1] if case["excited"] else 0
    method = case["method"]
    exp = L.expected_rejection(
        method if method != "PM6" else "PM6_SP", mols, uhf, case["solver"], case["sp2"], case["excited"], case["layout"] == "mixed",
        want_force=case["force"],
    )  # fmt: skip
    if method == "PM6" and uhf:
        exp = exp or "PM6 + UHF"
    params = copy.deepcopy(_params(case, uhf))
    out = {"expected_rejection": exp}
    try:
        hz = L.SP2Horizon(2000) if case["sp2"] else None
        if hz:
            hz.__enter__()
        try:
            if prev:
                # a driver is tied to the element list of its settings (documented): the list names both systems' elements
                params["elements"] = sorted({0} | {int(z) for m in prev + mols for z in m["species"]})
                molecule0, es = sp.build(prev, params, pad_extra=pad)
                if act:
                    molecule0.active_state = act
                molecule0.verbose = False
                es(molecule0, **({} if case["force"] else {"do_force": False}))
                molecule, _ = sp.build(mols, params, pad_extra=pad, const=molecule0.const, es=es)
            else:
                molecule, es = sp.build(first or mols, params, pad_extra=pad)
            if act and case.get("mixed_active"):
                # per-molecule request mixing a ground-state and an excited molecule in one call
                import torch as _t

                molecule.active_state = _t.as_tensor([0] * (len(mols) - 1) + [act], dtype=_t.int64)
            elif act:
                molecule.active_state = act
            molecule.verbose = False
            kw = {} if case["force"] else {"do_force": False}
            es(molecule, **kw)
            if first:
                import torch as _t

                with _t.no_grad():
                    for r, m in enumerate(mols):
                        molecule.coordinates[r, : len(m["species"])] = _t.as_tensor(np.asarray(m["coords"], float))
                es(molecule, **kw)
        finally:
            if hz:
                hz.__exit__(None, None, None)
    except IterationHorizon as e:
        out["status"] = "horizon"
        out["msg"] = str(e)[:160]
        return out
    except Exception as e:  # noqa: BLE001
        out["status"] = "raised"
        out["msg"] = f"{type(e).__name__}: {str(e).strip()[:160]}"
        if first and "A-B matrix has negative eigenvalues" in str(e):
            # the reference state of a bond stretched by 0.4 A can be RPA-unstable (MNDO HCN): a loud refusal of a request
            # that has no RPA solution, produced by the harness's own distortion
            out["expected_rejection"] = out["expected_rejection"] or "RPA instability at the harness's stretched geometry"
        return out
    obs = sp.observe(molecule, es)
    out["status"] = "ok"
    nc = obs["notconverged"]
    out["notconverged"] = [bool(x) for x in nc] if nc is not None else [False] * len(mols)
    nbf = 9 if method == "PM6" else 4
    F = h = None
    if method != "PM6":
        try:
            F, h = O.rebuild_fock(molecule, obs["dm"])
        except Exception as e:  # noqa: BLE001
            out["status"] = "raised"
            out["msg"] = f"rebuilding F(dm) with the package's hcore/fock failed: {type(e).__name__}: {str(e)[:120]}"
            return out
    rows = []
    for r, m in enumerate(mols):
        if out["notconverged"][r]:
            rows.append(None)
            continue
        ids = O.identities(
            method, m, obs, r, F=F, h=h, uhf=uhf, active=(act if (not case.get("mixed_active") or r == len(mols) - 1) else 0),
            sp2_tol=SP2_TOL if case["sp2"] else None, nbf=nbf,
            has_dipole=(method != "PM6"), exc_tol=1e-9 if case["force"] else 1e-6, tracked=bool(first),
        )  # fmt: skip
        rows.append(ids)
    # translation law on the (x, x+t) pair
    if case["layout"] == "pair" and method != "PM6" and not any(out["notconverged"]):
        d0, d1 = obs["dipole"][0], obs["dipole"][1]
        Q = float(target["charge"])
        err = float(np.abs((d1 - d0) - O.K_DIPOLE * Q * SHIFT).max())
        # both rows carry an electron-count error of at most the 'sum q = charge' tolerance, which t multiplies
        tmax = float(np.abs(SHIFT).max())
        qtol = max(1e-8, 10 * SP2_TOL) if case["sp2"] else 0.0
        rows[1].append(("d(x+t)-d(x)=Q t", err, 1e-8 * (1.0 + abs(Q)) * tmax + 2.0 * O.K_DIPOLE * tmax * qtol))
    out["rows"] = rows
    out["finite"] = all(L.finite(obs[k]) for k in ("Etot", "Hf", "q", "e_mo") if obs.get(k) is not None)
    out["sig"] = f"{float(obs['Etot'][-1]):.6f}"
    return out


# ------------------------------------------------------------------ lattice


def _supported(method, mol):
    tab = M.ELEMENTS["PM6_SP"] if method == "PM6" else M.ELEMENTS[method]
    return all(z in tab for z in mol["species"])


def lattice(tier, seed):
    methods = ["MNDO", "AM1", "PM3", "PM6_SP"]
    solvers = ["adaptive", "pulay"] if tier == "quick" else ["fixed0", "fixed0.3", "adaptive", "pulay"]
    layouts = {"quick": [("pair", "doc"), ("pair", "generic"), ("mixed", "generic")], "thorough": [("pair", "doc"), ("pair", "generic"), ("mixed", "doc"), ("mixed", "generic")]}[tier]  # fmt: skip
    cases = []

    def add(method, name, solver, sp2, uhf, excited, force, layout, orient):
        cases.append(dict(
            method=method, spec={"mol": name, "orient": orient}, solver=solver, sp2=sp2, uhf=uhf,
            excited=list(excited) if excited else None, force=force, layout=layout, seed=seed,
        ))  # fmt: skip

    for method in methods:
        for name in ALL_NAMED:
            mol = L.get_named(name)
            if not _supported(method, mol):
                continue
            open_shell = mol["mult"] != 1
            for solver in solvers:
                for sp2 in (False, True):
                    for uhf in (False, True):
                        if open_shell and not uhf:
                            continue
                        for layout, orient in layouts:
                            add(method, name, solver, sp2, uhf, None, True, layout, orient)
            if name in EXCITABLE:
                xs = [("cis", 1), ("cis", 2), ("rpa", 1)]
                for ex in xs:
                    for force in (True, False):
                        for solver in (["adaptive"] if tier == "quick" else solvers):
                            for layout, orient in layouts:
                                if tier == "quick" and orient == "doc":
                                    continue
                                add(method, name, solver, False, False, ex, force, layout, orient)
                # one call that mixes a ground-state copy (row 0) with an excited copy (row 1), energy-only path
                for ex in (("cis", 1), ("cis", 2)):
                    add(method, name, "adaptive", False, False, ex, False, "pair", "generic")
                    cases[-1]["mixed_active"] = True
    # objects with a history: evaluated at another geometry before (RHF objects track their orbitals across calls)
    for method in ["AM1", "PM3"] if tier == "quick" else methods:
        for name in ["CH4", "H2O", "NH3", "H2CO", "CH3OH", "HCN", "CH3Cl", "H2S"]:
            if not _supported(method, L.get_named(name)):
                continue
            for layout in ("pair", "mixed"):
                for uhf in (False, True):
                    add(method, name, "adaptive", False, uhf, None, True, layout, "generic")
                    cases[-1]["revisit"] = True
                if name in EXCITABLE:
                    for ex in (("cis", 1), ("rpa", 2)) if tier == "quick" else (("cis", 1), ("cis", 2), ("rpa", 1), ("rpa", 2)):
                        add(method, name, "adaptive", False, False, ex, True, layout, "generic")
                        cases[-1]["revisit"] = True
    # driver and Constants objects with a history: they served a system of the same padded shape with other elements first
    for method in ["AM1", "PM3"] if tier == "quick" else methods:
        for name in MATE:
            if not _supported(method, L.get_named(name)) or not _supported(method, L.get_named(MATE[name])):
                continue
            for layout in ("pair", "mixed"):
                for uhf in (False, True):
                    add(method, name, "adaptive", False, uhf, None, True, layout, "generic")
                    cases[-1]["driver_history"] = True
                if name in EXCITABLE and MATE[name] in EXCITABLE:
                    for force in (True, False):
                        add(method, name, "adaptive", False, False, ("cis", 1), force, layout, "generic")
                        cases[-1]["driver_history"] = True
    for name in PM6_MOLS:
        for solver in solvers:
            for layout, orient in layouts:
                add("PM6", name, solver, False, False, None, True, layout, orient)
    return cases


def key(c):
    ex = "S0" if not c["excited"] else f"{c['excited'][0]}{c['excited'][1]}"
    return (
        f"{c['method']}|{c['spec']['mol']}|{c['spec']['orient']}|{c['solver']}|sp2={int(c['sp2'])}|"
        f"{'UHF' if c['uhf'] else 'RHF'}|{ex}|{'F' if c['force'] else 'E'}|{c['layout']}" + ("|active=[0,k]" if c.get("mixed_active") else "") + ("|revisit" if c.get("revisit") else "") + ("|driver-history" if c.get("driver_history") else "")
    )


def describe(c, identity, row, err, tol):
    mols, _ = _mols(c)
    m = mols[row]
    uhf = bool(c["uhf"]) or mols[-1]["mult"] != 1
    d = dict(
        identity=identity, method=c["method"], molecule=c["spec"]["mol"], row_molecule=m.get("name", "CH4"), row=row,
        orient=c["spec"]["orient"], solver=c["solver"], sp2=bool(c["sp2"]), spin="UHF" if uhf else "RHF",
        charge=int(m["charge"]), mult=int(m["mult"]), excited="S0" if not c["excited"] else f"{c['excited'][0]}{c['excited'][1]}",
        force_requested=bool(c["force"]), layout=c["layout"], err=err, tol=tol,
        elements=",".join(str(z) for z in sorted(set(m["species"]))), history="revisit" if c.get("revisit") else "driver-history" if c.get("driver_history") else "fresh",
    )  # fmt: skip
    return d


def run(chk, tier, seed):
    import vp

    vp.warm()
    cases = lattice(tier, seed)
    chk.planned = len(cases)
    probe = cases[0]
    r2 = pmap(run_case, [probe, probe], chunk=1, timeout=600)
    if is_error(r2[0]) or is_error(r2[1]) or repr(r2[0]) != repr(r2[1]):
        chk.harness_error("the same case executed in two processes did not give identical observations")
        return
    # charges published by the extended-Lagrangian path: the same object SCF-evaluated, moved, then XL-evaluated
    from . import c09 as _c09

    xl_items = [(n_, m_, v, seed) for n_ in (("H2O", "H2CO") if tier == "quick" else ("H2O", "H2CO", "NH3", "CH3OH")) for m_ in ("AM1", "PM3") for v in (("xl",), ("ksa", 2, 1500))]
    for it, r in zip(xl_items, pmap(_c09.t_fixed_point_energy, xl_items, chunk=1, timeout=900)):
        kx = f"xl_path|{it[0]}|{it[1]}|{it[2][0]}"
        if is_error(r) or is_timeout(r) or "moved" not in r:
            continue
        chk.case(kx, nontrivial=True, outcome="ok" if r["moved"]["dq_dm"] <= 1e-10 else "stale")
        if r["moved"]["dq_dm"] > 1e-10:
            chk.violation(dict(identity="q=Z-trace(dm blocks)", method=it[1], molecule=it[0], path="XL-BOMD evaluation after a move", excited="S0"),
                          f"{kx}: after an extended-Lagrangian evaluation at a new geometry the published charges differ from Z - diagonal blocks of the published density by {r['moved']['dq_dm']:.2e}", replay={"xl_path": list(it)})  # fmt: skip
    results = pmap(run_case, cases, chunk=16, timeout=900, progress=f"C14 {tier} lattice")
    # an exception on a request that is not a documented rejection is re-executed once in a process of its own before
    # it is believed (DESIGN section 9); if it does not come back the second execution is the observation
    nonrepro = []
    for _attempt in (1, 2):  # at most two fresh processes per case
        again = [i for i, r in enumerate(results) if not (is_error(r) or is_timeout(r)) and r["status"] == "raised" and not r["expected_rejection"]]
        for i, r in zip(again, pmap(run_case, [cases[i] for i in again], chunk=1, timeout=900)):
            if not (is_error(r) or is_timeout(r)) and r["status"] != "raised":
                nonrepro.append(f"{key(cases[i])}: {results[i]['msg'][:120]}")
                results[i] = r
    chk.extra["exceptions_not_reproduced_in_a_fresh_process"] = nonrepro
    chk.excluded += len(nonrepro)
    worst = {}
    nid = 0
    horizon = 0
    for c, r in zip(cases, results):
        k = key(c)
        if is_timeout(r) or is_error(r):
            chk.case(k, nontrivial=False, outcome="harness")
            chk.violation(describe(c, "did_not_complete", 0, None, None), f"{k}: {r}", replay=c)
            continue
        if r["status"] == "raised":
            if r["expected_rejection"]:
                chk.rejected += 1
                chk.case(k, nontrivial=False, outcome="rejected:" + r["expected_rejection"][:24])
            else:
                chk.case(k, nontrivial=True, outcome="raised")
                d = describe(c, "unexpected_exception", 0, None, None)
                d["exception"] = r["msg"][:60]
                chk.violation(d, f"{k}: the package raised on a valid request: {r['msg']}", replay=c)
            continue
        if r["status"] == "horizon":
            chk.excluded += 1
            horizon += 1
            chk.case(k, nontrivial=False, outcome="horizon")
            continue
        compared = False
        for row, ids in enumerate(r["rows"]):
            if ids is None:
                chk.excluded += 1
                continue
            for name, err, tol in ids:
                compared = True
                nid += 1
                if not (err <= tol):
                    chk.violation(
                        describe(c, name, row, err, tol),
                        f"{k} molecule {row}: identity '{name}' violated by {err:.3e} (tolerance {tol:.1e})", replay=c,
                    )  # fmt: skip
                elif tol > 0:
                    base = name.split("[")[0]
                    if err / tol > worst.get(base, (0.0, ""))[0]:
                        worst[base] = (err / tol, k)
        if not r["finite"]:
            chk.violation(describe(c, "nonfinite", 0, None, None), f"{k}: non-finite observable returned silently", replay=c)
        chk.case(k, nontrivial=compared, outcome=r["sig"])
    chk.extra["identities_evaluated"] = nid
    chk.extra["sp2_calls_cut_by_iteration_horizon"] = horizon
    chk.extra["largest_healthy_error_over_tolerance"] = {n: f"{v[0]:.3g} at {v[1]}" for n, v in sorted(worst.items())}


def replay(payload):
    c = payload["replay"]
    if isinstance(c, dict) and c.get("xl_path"):
        from . import c09 as _c09

        it = c["xl_path"]
        it[2] = tuple(it[2])
        r = _c09.t_fixed_point_energy(tuple(it))
        print(r.get("moved"))
        return r["moved"]["dq_dm"] <= 1e-10
    r = run_case(c)
    if r["status"] != "ok":
        print("  ", r["status"], r.get("msg"), "| expected rejection:", r["expected_rejection"])
        return bool(r["expected_rejection"]) and r["status"] == "raised"
    ok = r["finite"]
    for row, ids in enumerate(r["rows"]):
        if ids is None:
            print(f"   molecule {row}: not converged (excluded)")
            continue
        for name, err, tol in ids:
            bad = not (err <= tol)
            ok = ok and not bad
            print(f"   molecule {row}: {name:32s} err {err:.3e} tol {tol:.1e}{'   <-- VIOLATED' if bad else ''}")
    return ok
