"""C09  XL-BOMD propagation is consistent with SCF, fixed-point preserving and stable.

(a) executed recurrence == published scheme for every k in 3..9, every buffer phase over three wraps,
    fresh and resumed at every phase — states (k, phase, resumed?) explored exhaustively through the
    REAL run loop / save_checkpoint / run_from_checkpoint with a tagged stub electronic structure
    (vp.drivers.xltag); reference model vp.oracles.xl_table (independent table + exact recurrence).
(b) linear stability: companion matrix of the coefficients IDENTIFIED on the implementation,
    spectral radius <= 1 on a 2001-point grid of the admissible response range.
(c) E_XL(D = P*) == E_SCF (energy, forces, charges) for molecules x methods x {plain, KSA rank/T_el}.
(d) a stationary system (dt = 0) keeps P for 2(k+1)+2 steps, every k, also when killed and resumed
    at every buffer phase.
(e) shadow-energy fluctuation ~ dt^2 and convergence to the BOMD trajectory as dt decreases.
"""
import contextlib
import io
import os

import numpy as np

from .. import warm
from ..drivers import md as MD
from ..drivers import molecules as M
from ..drivers import sp
from ..drivers import xltag
from ..oracles import xl_table as XT
from ..pool import is_error, is_timeout, pmap

PID = "C09"
LEVEL = "model_checking"
RULE = (
    "(a) every (engine in {XL, KSA}, k in 3..9, step n in 0..3(k+1)+1, resumed-at phase s in 1..k+2 or fresh): the "
    "auxiliary density the real integrator hands to the electronic structure is compared coefficient by "
    "coefficient with the published recurrence; (b) stability grid per k on identified coefficients; (c,d,e) "
    "real-driver lattices; a case is non-trivial when at least one history slot has been overwritten; "
    "distinct = distinct (part, engine, k, phase/resume point | molecule, method, variant)"
)
ASSUMPTIONS = [
    "(a) uses a stub electronic structure with one-hot densities; linearity of the propagation in the densities "
    "is what makes the read-off exact (superposition is itself checked on two extra runs per k)",
    "kappa' in (0, kappa_published] is accepted (the package scales the D term by c = 0.95)",
    "(e) horizon 6.4 fs; 'no drift' is decided on that horizon only",
]

NTAG = xltag.NT * xltag.NT


# ------------------------------------------------------------------ (a) + (b)


def t_recurrence(item):
    engine, k, resume_at = item
    n = 3 * (k + 1) + 2
    mode = "ksa" if engine == "ksa" else "xl"
    got = xltag.run_tagged(engine, k, n, resume_at=resume_at, checkpoint_every=(resume_at or 0))
    prob = []
    if sorted(got) != list(range(n)):
        prob.append(f"steps observed {sorted(got)} expected 0..{n - 1}")
        return {"problems": prob}
    if any(prop != "XL-BOMD" for _, prop in got.values()):
        prob.append("a ground-state XL step did not use the XL-BOMD energy path")
    # identify kappa' from the coefficient of X(1) in P(2)
    kap = float(got[1][0][1])
    kpub = XT.TABLE[k][0]
    if not (0.0 < kap <= kpub * (1 + 1e-12)):
        prob.append(f"kappa' = {kap} outside (0, {kpub}]")
    ref = XT.reference_sequence(k, kap, n, NTAG, mode)
    worst = 0.0
    for i in range(n):
        d = float(np.abs(got[i][0] - ref[i]).max())
        worst = max(worst, d)
        if d > 1e-10:
            phase = i % (k + 1)
            j = int(np.abs(got[i][0] - ref[i]).argmax())
            prob.append(
                f"step {i} (buffer phase {phase}): coefficient of tag {j} is {got[i][0][j]:.12g}, published scheme gives {ref[i][j]:.12g}"
            )
            break
    # effective coefficients a_j (multiplying P(n-j)) read off at zero response, for the stability clause:
    # run the recurrence on the implementation's own first K+1 outputs is equivalent to comparing with ref,
    # so take them from the LAST step's dependence on tags through the reference structure only if it matched.
    return {"problems": prob, "kappa_eff": kap, "worst": worst}


def t_superposition(item):
    """linearity of the real propagation step: P built from (2 x tags) == 2 x P, checked by calling the real
    _propagate_P on random-free fixed integer matrices."""
    import torch

    from seqm.MolecularDynamics import KSA_XL_BOMD, XL_BOMD

    engine, k = item
    p = sp.make_params("AM1", eps=1e-8)
    molecule, _ = sp.build([M.get("H2O")], p)
    cls = KSA_XL_BOMD if engine == "ksa" else XL_BOMD
    xp = {"k": k}
    if engine == "ksa":
        xp.update(max_rank=2, err_threshold=0.0, T_el=1500)
    md = cls(xl_bomd_params=xp, damp=None, seqm_parameters=p, timestep=0.5, Temp=0.0, output=MD.output_cfg("md", [0], 0, 0, 0, 0))
    m = k + 1
    g = torch.arange(m * 144, dtype=torch.float64).reshape(m, 1, 12, 12) % 7 - 3
    P = g[0].clone()
    prob = []
    a_eff = None
    for cindx in range(m):
        outs = []
        for scale in (1.0, 2.0):
            molecule.dm = scale * (g[1] * 0 + 1.5)
            molecule.dP2dt2 = scale * (g[2] * 0 + 0.25)
            outs.append(md._propagate_P(scale * P, scale * g, cindx, molecule))
        if float((outs[1] - 2 * outs[0]).abs().max()) > 1e-9:
            prob.append(f"propagation is not linear at window offset {cindx}")
    # effective coefficients at zero response (D = P for XL; d2P/dt2 = 0 for KSA), slot order = age
    a = []
    for j in range(m):
        Pt = torch.zeros(m, 1, 12, 12)
        # physical slot holding P(n-j) when cindx = 0 is j
        Pt[j] = 1.0
        Pn = Pt[0].clone()
        molecule.dm = Pn.clone()
        molecule.dP2dt2 = torch.zeros(1, 12, 12)
        a.append(float(md._propagate_P(Pn, Pt, 0, molecule)[0, 0, 0]))
    a_eff = a
    return {"problems": prob, "a_eff": a_eff}


# ------------------------------------------------------------------ (c)


def t_fixed_point_energy(item):
    name, method, variant = item[:3]
    import torch

    mol = M.apply(M.get(name), M.generic_rot(item[3] if len(item) > 3 else 0))
    p = sp.make_params(method, eps=1e-11)
    molecule, es = sp.build([mol], p)
    molecule.verbose = False
    es(molecule)
    if bool(es.notconverged.any()):
        return {"excluded": "scf not converged"}
    ref = {"Etot": sp.to_np(molecule.Etot), "force": sp.to_np(molecule.force), "q": sp.to_np(molecule.q), "dm": sp.to_np(molecule.dm)}
    xp = {"k": 5}
    if variant[0] == "ksa":
        xp.update(max_rank=variant[1], err_threshold=0.0, T_el=variant[2])
    Pstar = torch.as_tensor(ref["dm"]).clone()
    es(molecule, P0=Pstar, dm_prop="XL-BOMD", xl_bomd_params=xp)
    E = sp.to_np(molecule.Etot)
    ent = sp.to_np(molecule.Electronic_entropy) if torch.is_tensor(molecule.Electronic_entropy) else np.zeros(1)
    F1 = sp.to_np(molecule.force)
    out = {
        "dE": float(np.abs(E - ref["Etot"]).max()),
        "dF": float(np.abs(F1 - ref["force"]).max()),
        "dq": float(np.abs(sp.to_np(molecule.q) - ref["q"]).max()),
        "dD": float(np.abs(sp.to_np(molecule.dm) - ref["dm"]).max()),
        "ent": float(np.abs(ent).max()),
    }
    # the same evaluation repeated on the same molecule object must give the same answer (no state carried
    # from one extended-Lagrangian evaluation into the next, e.g. an accumulated coordinate gradient)
    rep = 0.0
    for _ in range(2):
        es(molecule, P0=Pstar.clone(), dm_prop="XL-BOMD", xl_bomd_params=xp)
        rep = max(rep, float(np.abs(sp.to_np(molecule.force) - F1).max()), float(np.abs(sp.to_np(molecule.Etot) - E).max()))
    out["rep"] = rep
    # the same object at a NEW geometry: everything published after an extended-Lagrangian evaluation (energy, force,
    # density, charges) belongs to the new geometry, nothing is left over from the previous call
    g2 = dict(mol)
    g2["coords"] = mol["coords"] + 0.05 * np.sin(1.0 + np.arange(mol["coords"].size)).reshape(mol["coords"].shape)
    m2, es2 = sp.build([g2], p)
    m2.verbose = False
    es2(m2)
    with torch.no_grad():
        molecule.coordinates.copy_(torch.as_tensor(g2["coords"]).unsqueeze(0))
    es(molecule, P0=m2.dm.clone(), dm_prop="XL-BOMD", xl_bomd_params=xp)
    dmn = sp.to_np(molecule.dm)[0]
    n = len(mol["species"])
    pop = np.array([np.trace(dmn[4 * a : 4 * a + 4, 4 * a : 4 * a + 4]) for a in range(n)])
    tore = sp.to_np(molecule.const.tore)[np.asarray(mol["species"])]
    out["moved"] = {
        "dE": float(abs(sp.to_np(molecule.Etot)[0] - sp.to_np(m2.Etot)[0])),
        "dF": float(np.abs(sp.to_np(molecule.force) - sp.to_np(m2.force)).max()),
        "dq_fresh": float(np.abs(sp.to_np(molecule.q) - sp.to_np(m2.q)).max()),
        "dq_dm": float(np.abs(sp.to_np(molecule.q)[0, :n] - (tore - pop)).max()),
    }
    return out


def t_xl_batch(item):
    """the XL/KSA energy functional (energy, electronic entropy, forces, density) of a molecule inside a
    zero-padded batch equals the same evaluation alone, also at a high electronic temperature"""
    import torch

    names, method, rank, T_el, seed = item
    mols = [M.apply(M.get(n), M.generic_rot(seed)) for n in names]
    p = sp.make_params(method, eps=1e-11)
    xp = {"k": 5}
    if rank:
        xp.update(max_rank=rank, err_threshold=0.0, T_el=T_el)

    def evaluate(ms):
        molecule, es = sp.build(ms, p)
        molecule.verbose = False
        es(molecule)
        P = molecule.dm.clone()
        es(molecule, P0=P, dm_prop="XL-BOMD", xl_bomd_params=xp)
        ent = molecule.Electronic_entropy
        return {
            "Etot": sp.to_np(molecule.Etot), "force": sp.to_np(molecule.force), "dm": sp.to_np(molecule.dm),
            "ent": sp.to_np(ent) if torch.is_tensor(ent) else np.zeros(len(ms)),
        }  # fmt: skip

    b = evaluate(mols)
    worst = {"Etot": 0.0, "force": 0.0, "dm": 0.0, "ent": 0.0}
    entmax = 0.0
    for i, m in enumerate(mols):
        a = evaluate([m])
        n = len(m["species"])
        no = 4 * n
        worst["Etot"] = max(worst["Etot"], float(abs(a["Etot"][0] - b["Etot"][i])))
        worst["ent"] = max(worst["ent"], float(abs(np.ravel(a["ent"])[0] - np.ravel(b["ent"])[i])))
        worst["force"] = max(worst["force"], float(np.abs(a["force"][0][:n] - b["force"][i][:n]).max()))
        worst["dm"] = max(worst["dm"], float(np.abs(a["dm"][0][:no, :no] - b["dm"][i][:no, :no]).max()))
        entmax = max(entmax, float(abs(np.ravel(a["ent"])[0])))
    worst["entmax"] = entmax
    return worst


# ------------------------------------------------------------------ (g) rank-m kernel


def t_kernel(item):
    """The rank-m kernel update of the KSA scheme (J. Chem. Theory Comput. 2020, 16, 3628, alg. 3) replayed from the
    implementation's OWN intermediate quantities: the harness records the Krylov directions v_k handed to the response
    routine and the responses it returns (module-level wrappers, no source hook), recomputes the least-squares
    coefficients min |r - sum_k a_k w_k| with w_k = response(v_k) - v_k in numpy, and compares -sum_k a_k v_k with the
    returned second time derivative of the auxiliary density; the directions must be orthonormal with v_1 || r, and the
    number of directions built must be the one the stated stop rule gives (max_rank, or the first rank whose relative
    fit error is <= err_threshold for every molecule of the batch)."""
    import torch

    import seqm.dynamics.xlbomd as X

    names, method, rank, thr, T_el, seed = item
    mols = [M.apply(M.get(n), M.generic_rot(seed + i)) for i, n in enumerate(names)]
    p = sp.make_params(method, eps=1e-11)
    molecule, es = sp.build(mols, p)
    molecule.verbose = False
    es(molecule)
    if bool(es.notconverged.any()):
        return {"excluded": "scf not converged"}
    Ds = molecule.dm.clone()
    n = Ds.shape[-1]
    pert = 0.02 * torch.sin(1.0 + torch.arange(n * n, dtype=Ds.dtype)).reshape(1, n, n)
    pert = 0.5 * (pert + pert.transpose(1, 2))
    live = (Ds.abs().sum(-1) > 0).to(Ds.dtype)  # basis functions that exist (no hydrogen p rows, no padding)
    P = Ds + pert * live.unsqueeze(-1) * live.unsqueeze(-2)
    rec = {"v": [], "po": []}
    oG, oC = X.G, X.Canon_DM_PRT

    def G2(*a, **k):
        rec["v"].append(a[2].detach().clone())
        return oG(*a, **k)

    def C2(*a, **k):
        r = oC(*a, **k)
        rec["po"].append(r.detach().clone())
        return r

    X.G, X.Canon_DM_PRT = G2, C2
    try:
        es(molecule, P0=P.clone(), dm_prop="XL-BOMD", xl_bomd_params={"k": 5, "max_rank": rank, "err_threshold": thr, "T_el": T_el})
    finally:
        X.G, X.Canon_DM_PRT = oG, oC
    d2 = sp.to_np(molecule.dP2dt2)
    D = sp.to_np(molecule.dm)
    Pn = sp.to_np(P)
    prob = []
    nb = len(rec["v"])
    if nb != len(rec["po"]) or nb == 0:
        return {"problems": [f"recorded {nb} directions and {len(rec['po'])} responses"], "built": nb}
    V = np.stack([sp.to_np(v) for v in rec["v"]], -1)  # (B, n, n, m)
    W = np.stack([sp.to_np(po) - sp.to_np(v) for po, v in zip(rec["po"], rec["v"])], -1)
    worst = {"u": 0.0, "orth": 0.0, "v1": 0.0}
    err_by_rank = np.zeros((len(mols), nb))
    for b in range(len(mols)):
        r = D[b] - Pn[b]
        rn = np.linalg.norm(r)
        Vb = V[b].reshape(-1, nb)
        Wb = W[b].reshape(-1, nb)
        worst["orth"] = max(worst["orth"], float(np.abs(Vb.T @ Vb - np.eye(nb)).max()))
        worst["v1"] = max(worst["v1"], float(np.abs(Vb[:, 0] * rn - r.reshape(-1)).max()))
        for m in range(1, nb + 1):
            a = np.linalg.lstsq(Wb[:, :m], r.reshape(-1), rcond=None)[0]
            err_by_rank[b, m - 1] = np.linalg.norm(Wb[:, :m] @ a - r.reshape(-1)) / rn
        u = -(Vb @ a).reshape(r.shape)
        worst["u"] = max(worst["u"], float(np.abs(u - d2[b]).max()) / (1e-30 + float(np.abs(u).max())))
    # stop rule: directions are added while fewer than max_rank exist and the batch-wide fit error exceeds the threshold
    expect = rank
    for m in range(1, nb + 1):
        if err_by_rank[:, m - 1].max() <= thr:
            expect = m
            break
    marginal = thr > 0 and bool((np.abs(err_by_rank.max(0) - thr) < 0.05 * thr).any())  # a fit error within 5% of the threshold: not judged
    if nb != min(expect, rank) and not marginal:
        prob.append(f"{nb} Krylov directions were built, the stop rule (max_rank {rank}, err_threshold {thr}, fit errors {np.round(err_by_rank.max(0), 4).tolist()}) gives {min(expect, rank)}")
    # healthy tree: u agrees to 1e-15 relative, orthonormality 1e-15, v1 1e-17
    if worst["u"] > 1e-8:
        prob.append(f"returned d2P/dt2 differs from the least-squares combination of its own Krylov directions by {worst['u']:.2e} (relative)")
    if worst["orth"] > 1e-8:
        prob.append(f"Krylov directions are not orthonormal ({worst['orth']:.2e})")
    if worst["v1"] > 1e-8:
        prob.append(f"first Krylov direction is not the normalised residual D[P] - P ({worst['v1']:.2e})")
    return {"problems": prob, "built": nb, "worst": worst, "fit": np.round(err_by_rank.max(0), 6).tolist()}


# ------------------------------------------------------------------ (d)


class _Rec:
    seq = []


def _install_p0_recorder():
    from seqm.ElectronicStructure import Electronic_Structure

    if getattr(Electronic_Structure, "_vp_wrapped", False):
        return
    orig = Electronic_Structure.forward

    def forward(self, molecule, *a, **kw):
        if kw.get("dm_prop") == "XL-BOMD" and kw.get("P0") is not None:
            _Rec.seq.append(kw["P0"].detach().clone().numpy())
        return orig(self, molecule, *a, **kw)

    Electronic_Structure.forward = forward
    Electronic_Structure._vp_wrapped = True


def t_stationary(item):
    engine, k, resume_at, seed = item
    from seqm.MolecularDynamics import Molecular_Dynamics_Basic

    _install_p0_recorder()
    _Rec.seq = []
    n = 2 * (k + 1) + 2
    mol = M.apply(M.get("H2O"), M.generic_rot(seed))
    p = sp.make_params("AM1", eps=1e-11)
    wd = MD.scratch_dir("c09d")
    cwd = os.getcwd()
    try:
        hook = MD.crash_after_checkpoint_hook(resume_at) if resume_at else None
        out = dict(data=1, coordinates=0, velocities=0, forces=0, xyz=0, print_every=0, checkpoint_every=(resume_at or 0))
        xl_extra = {"max_rank": 3, "err_threshold": 0.0, "T_el": 1500} if engine == "ksa" else None
        r = MD.run_md(engine, [mol], p, n, dt=0.0, temp=0.0, out=out, workdir=wd, hook=hook, k=k, xl_extra=xl_extra, keep=True)
        if resume_at:
            if not (r["error"] or "").startswith("SimulatedCrash"):
                return {"problems": [f"planned crash did not happen: {r['error']}"]}
            os.chdir(wd)
            with contextlib.redirect_stdout(io.StringIO()):
                Molecular_Dynamics_Basic.run_from_checkpoint("md.restart.pt")
            os.chdir(cwd)
        elif r["error"]:
            return {"problems": [f"run raised {r['error']}"]}
        h5 = MD.read_h5(os.path.join(wd, "md.0.h5"))
    finally:
        os.chdir(cwd)
        MD.rm(wd)
    seq = _Rec.seq
    prob = []
    if len(seq) != n:
        prob.append(f"{len(seq)} XL steps observed, expected {n}")
        return {"problems": prob}
    ref = sp.single_point(mol, p, names=["dm", "Etot"])
    dev = [float(np.abs(P - ref["dm"]).max()) for P in seq]
    e = h5["data/thermo/Ep"]
    return {"problems": prob, "dev": max(dev), "dev_last": dev[-1], "dE": float(np.abs(e - ref["Etot"][0]).max())}


# ------------------------------------------------------------------ (e)


def t_traj(item):
    engine, k, dt, tphys, seed, damp = item[:6]
    xl_extra = item[6] if len(item) > 6 else None
    n = int(round(tphys / dt))
    mol = M.apply(M.get("CH4" if xl_extra else "H2O"), M.generic_rot(seed))
    p = sp.make_params("AM1", eps=1e-10)
    out = dict(data=1, coordinates=1, velocities=0, forces=0, xyz=0, print_every=0, checkpoint_every=0)
    r = MD.run_md(engine, [mol], p, n, dt=dt, temp=300.0, seed=11, out=out, k=k, damp=damp, xl_extra=xl_extra)
    if r["error"]:
        return {"error": r["error"]}
    h = r["h5.0"]
    E = h["data/thermo/Ek"] + h["data/thermo/Ep"]
    stride = int(round(0.4 / dt))
    return {"E": E, "x": h["coordinates/values"][::stride], "dt": dt}


def t_driver_reuse(item):
    """(f) the SAME driver object runs a second trajectory (another geometry of the same shape): the second run must be
    the run of a brand-new driver on that molecule - the history buffer is re-initialised from the new converged density"""
    import contextlib
    import io
    import os

    import torch

    engine, k, seed, steps1, steps2 = item
    p = sp.make_params("AM1", eps=1e-10)
    base = M.apply(M.get("H2O"), M.generic_rot(seed))
    other = dict(base)
    i = np.arange(len(base["species"]))[:, None]
    other["coords"] = base["coords"] + 0.08 * np.sin(1.7 * i + np.array([[0.3, 1.1, 2.2]]))
    wd = MD.scratch_dir("vpc09")
    cwd = os.getcwd()
    os.chdir(wd)
    try:
        def engine_obj():
            pp = dict(p)
            sp.build([base], pp)  # a Molecule has to exist before a driver (it records the element list in the settings)
            md = MD.make_engine(engine, pp, 0.5, 300.0, MD.output_cfg("c09f", [], data=0, coordinates=0, velocities=0, forces=0),
                                k=k, damp=(20.0 if engine.endswith("damped") else None))  # fmt: skip
            return md, pp

        def run(mdpp, m, n, sd):
            md, pp = mdpp
            molecule, _ = sp.build([m], pp)
            with contextlib.redirect_stdout(io.StringIO()):
                md.run(molecule, steps=n, reuse_P=True, remove_com=None, seed=sd)
            return {"x": sp.to_np(molecule.coordinates), "v": sp.to_np(molecule.velocities), "E": sp.to_np(molecule.Etot), "dm": sp.to_np(molecule.dm)}

        md = engine_obj()
        run(md, base, steps1, 5)
        second = run(md, other, steps2, 9)
        fresh = run(engine_obj(), other, steps2, 9)
        # the SAME Molecule object continued by a second run() call: with the driver of the first call, and with a new
        # driver - the molecule carries the same state into both, so any difference is state kept by the driver object
        def continued(same_driver):
            d1 = engine_obj()
            molecule, _ = sp.build([base], d1[1])
            with contextlib.redirect_stdout(io.StringIO()):
                d1[0].run(molecule, steps=steps1, reuse_P=True, remove_com=None, seed=5)
                d2 = d1 if same_driver else engine_obj()
                d2[0].run(molecule, steps=steps2, reuse_P=True, remove_com=None, seed=9)
            return {"x": sp.to_np(molecule.coordinates), "v": sp.to_np(molecule.velocities), "E": sp.to_np(molecule.Etot), "dm": sp.to_np(molecule.dm)}

        ca, cb = continued(True), continued(False)
        dev2 = {q: float(np.abs(ca[q] - cb[q]).max()) for q in ca}
    finally:
        os.chdir(cwd)
        MD.rm(wd)
    return {"dev": {q: float(np.abs(second[q] - fresh[q]).max()) for q in second}, "dev_same_molecule": dev2}


# ------------------------------------------------------------------ driver


def run(chk, tier, seed):
    warm()
    ks = list(range(3, 10))
    # ---- table copy is structurally sound
    for k in ks:
        s0, s1 = XT.identities(k)
        if s0 != 0 or s1 != 0:
            chk.harness_error(f"reference table row k={k} violates sum c_j = 0 / sum j c_j = 0")
            return
    # ---- (f) driver object reused for a second trajectory
    items = [(e, k, seed, n1, 4) for e in (("xl", "ksa", "xl_damped") if tier == "quick" else ("xl", "ksa", "xl_damped", "ksa_damped"))
             for k in ((3, 6) if tier == "quick" else ks) for n1 in ((2, 5) if tier == "quick" else (1, 2, 3, 5, 8))]  # fmt: skip
    res = pmap(t_driver_reuse, items, chunk=1, timeout=900, progress="C09f driver reuse")
    for it, r in zip(items, res):
        key = f"f|{it[0]}|k={it[1]}|first run {it[3]} steps"
        desc = {"part": "f", "engine": it[0], "k": it[1]}
        if is_timeout(r) or is_error(r):
            chk.violation(desc, f"{key}: {str(r)[:300]}", replay={"part": "f", "item": list(it)})
            continue
        worst = max(r["dev"].values())
        chk.case(key, nontrivial=True, outcome=f"{worst:.0e}")
        chk.traces += 1
        # measured on the healthy tree: bitwise identical
        if worst > 1e-12:
            chk.violation(desc, f"{key}: the second trajectory of a reused driver object differs from that of a new driver: {r['dev']}", replay={"part": "f", "item": list(it)})
        w2 = max(r["dev_same_molecule"].values())
        # measured on the healthy tree: bitwise identical
        if w2 > 1e-12:
            chk.violation(dict(desc, clause="same_molecule"), f"{key}: the same Molecule continued by a second run() call gives another trajectory with the driver of the first call than with a new driver: {r['dev_same_molecule']}", replay={"part": "f", "item": list(it)})
    # ---- (a)
    items = []
    for engine in ("xl", "ksa"):
        for k in ks:
            items.append((engine, k, None))
            for s in range(1, k + 3):
                items.append((engine, k, s))
    res = pmap(t_recurrence, items, chunk=2, timeout=600, progress="C09a recurrence")
    kap_eff = {}
    states = set()
    for it, r in zip(items, res):
        engine, k, s = it
        key = f"a|{engine}|k={k}|resume={s}"
        desc = {"part": "a", "engine": engine, "k": k, "resumed_at": s or 0}
        if is_timeout(r) or is_error(r):
            chk.violation(desc, f"{key}: tagged run failed: {r}", replay={"part": "a", "item": list(it)})
            continue
        n = 3 * (k + 1) + 2
        chk.case(key, outcome=f"{r.get('kappa_eff')}")
        chk.traces += 1
        chk.transitions += n + (1 if s else 0)
        for i in range(n):
            states.add((engine, k, i % (k + 1), bool(s) and i >= s))
        if r["problems"]:
            chk.violation(desc, f"{key}: {r['problems'][0]}", replay={"part": "a", "item": list(it)})
        elif s is None:
            kap_eff[(engine, k)] = r["kappa_eff"]
    chk.states = len(states)
    # ---- superposition + (b) stability on identified coefficients
    items = [(e, k) for e in ("xl", "ksa") for k in ks]
    res = pmap(t_superposition, items, chunk=2, timeout=300)
    for it, r in zip(items, res):
        engine, k = it
        key = f"b|{engine}|k={k}"
        desc = {"part": "b", "engine": engine, "k": k}
        if is_timeout(r) or is_error(r):
            chk.violation(desc, f"{key}: {r}", replay={"part": "b", "item": list(it)})
            continue
        chk.case(key, outcome=str(np.round(r["a_eff"], 6).tolist()))
        for pr in r["problems"]:
            chk.violation(desc, f"{key}: {pr}", replay={"part": "b", "item": list(it)})
        kpub = XT.TABLE[k][0]
        # a_eff is at zero response (for XL: D = P); subtracting resp in a_0 gives response strength resp
        grid = np.linspace(0.0, kpub, 2002)[1:]
        worst = max(XT.radius_from_coeffs(r["a_eff"], resp_shift=x) for x in grid)
        ref_worst = max(XT.companion_radius(k, x) for x in grid)
        chk.transitions += len(grid)
        if worst > 1 + 1e-6:
            chk.violation(desc, f"{key}: spectral radius {worst:.6f} > 1 on the admissible response range (reference table gives {ref_worst:.9f})", replay={"part": "b", "item": list(it)})
    # ---- (c)
    mols = ["H2O", "H2CO", "NH3"] if tier == "quick" else ["H2O", "H2CO", "NH3", "CH4", "HCN", "CH3OH", "HF"]
    methods = ["AM1", "PM3"] if tier == "quick" else ["MNDO", "AM1", "PM3", "PM6_SP"]
    variants = [("xl",), ("ksa", 1, 300), ("ksa", 3, 1500)]
    if tier != "quick":
        variants += [("ksa", 2, 300), ("ksa", 4, 300), ("ksa", 1, 1500), ("ksa", 2, 1500), ("ksa", 4, 1500)]
    items = [(m, meth, v, seed) for m in mols for meth in methods for v in variants]
    res = pmap(t_fixed_point_energy, items, chunk=2, timeout=600, progress="C09c E_XL(P*)")
    for it, r in zip(items, res):
        key = f"c|{it[0]}|{it[1]}|{it[2]}"
        desc = {"part": "c", "molecule": it[0], "method": it[1], "variant": it[2][0], "rank": it[2][1] if len(it[2]) > 1 else 0, "T_el": it[2][2] if len(it[2]) > 2 else 0}
        if is_timeout(r) or is_error(r):
            chk.violation(desc, f"{key}: {r}", replay={"part": "c", "item": list(it)})
            continue
        if "excluded" in r:
            chk.excluded += 1
            continue
        chk.case(key, outcome=f"{r['dE']:.1e}")
        chk.traces += 1
        # eps = 1e-11; measured on the healthy tree: dE <= 5e-13, dF <= 1.2e-9, dq <= 1.2e-10, dD <= 6e-11 (>= 80x head-room)
        mv = r["moved"]
        # measured on the healthy tree: dE <= 5e-13, dF <= 1.2e-9, dq <= 2e-10, q vs diagonal blocks of dm <= 5e-16
        if mv["dE"] > 1e-10 or mv["dF"] > 1e-7 or mv["dq_fresh"] > 1e-8 or mv["dq_dm"] > 1e-10:
            chk.violation(dict(desc, clause="moved"), f"{key}: after moving the same object to a new geometry the XL evaluation publishes stale results: dE={mv['dE']:.2e} dF={mv['dF']:.2e} |q - q_fresh|={mv['dq_fresh']:.2e} |q - (Z - tr_A dm)|={mv['dq_dm']:.2e}", replay={"part": "c", "item": list(it)})
        if r["rep"] > 1e-10:
            chk.violation(dict(desc, clause="repeat"), f"{key}: the same XL evaluation repeated on the same molecule differs by {r['rep']:.2e}", replay={"part": "c", "item": list(it)})
        if r["dE"] > 1e-10 or r["dF"] > 1e-7 or r["dq"] > 1e-8 or r["dD"] > 1e-8:
            chk.violation(desc, f"{key}: E_XL(D=P*) vs SCF: dE={r['dE']:.2e} dF={r['dF']:.2e} dq={r['dq']:.2e} dD={r['dD']:.2e} entropy={r['ent']:.2e}", replay={"part": "c", "item": list(it)})
    # ---- (c') batch transparency of the XL / KSA functional incl. the electronic entropy
    batches = [["CH4", "H2O"], ["H2O", "CH4"]] if tier == "quick" else [["CH4", "H2O"], ["H2O", "CH4"], ["H2CO", "HF"], ["NH3", "CH3OH", "HF"]]
    items = [(b, "AM1", rank, T, seed) for b in batches for rank, T in ((0, 0), (2, 1500), (2, 10000), (3, 30000))]
    res = pmap(t_xl_batch, items, chunk=1, timeout=900, progress="C09c' XL functional in padded batches")
    for it, r in zip(items, res):
        key = f"c'|{'+'.join(it[0])}|rank={it[2]}|T_el={it[3]}"
        desc = {"part": "c'", "batch": "+".join(it[0]), "rank": it[2], "T_el": it[3]}
        if is_timeout(r) or is_error(r):
            chk.violation(desc, f"{key}: {r}", replay={"part": "c'", "item": list(it)})
            continue
        chk.case(key, outcome=f"{r['entmax']:.2e}")
        chk.traces += 1
        # measured on the healthy tree: <= 1e-13 except {CH4,H2O} at T_el = 1e4 K (5.8e-9 eV, 2.6e-9 eV/A, 4.5e-10:
        # the chemical-potential solve of Fermi_Q stops on a batch-wide criterion); bounds are >= 170x above that
        if r["Etot"] > 1e-6 or r["ent"] > 1e-6 or r["force"] > 1e-6 or r["dm"] > 1e-7:
            chk.violation(desc, f"{key}: molecule in a padded batch differs from the same evaluation alone: dE={r['Etot']:.2e} dS_el={r['ent']:.2e} dF={r['force']:.2e} dD={r['dm']:.2e}", replay={"part": "c'", "item": list(it)})
    # ---- (g) rank-m kernel update replayed from its own Krylov directions
    ranks = [1, 2, 3] if tier == "quick" else [1, 2, 3, 4, 6]
    items = []
    for names in ([["H2O"], ["CH4"], ["CH4", "H2O"]] if tier == "quick" else [["H2O"], ["CH4"], ["NH3"], ["H2CO"], ["CH4", "H2O"], ["H2O", "CH4"], ["H2CO", "NH3"]]):
        for rank in ranks:
            for thr in (0.0, 0.2, 0.02):
                for T_el in ([1500] if tier == "quick" else [300, 1500, 13000]):
                    items.append((names, "AM1", rank, thr, T_el, seed))
    res = pmap(t_kernel, items, chunk=2, timeout=600, progress="C09g kernel")
    for it, r in zip(items, res):
        key = f"g|{'+'.join(it[0])}|rank={it[2]}|thr={it[3]}|T_el={it[4]}"
        desc = {"part": "g", "molecules": "+".join(it[0]), "rank": it[2], "err_threshold": it[3], "T_el": it[4]}
        if is_timeout(r) or is_error(r):
            chk.violation(desc, f"{key}: {r}", replay={"part": "g", "item": list(it)})
            continue
        if "excluded" in r:
            chk.excluded += 1
            continue
        chk.case(key, outcome=f"{r['built']}|{r.get('fit')}")
        chk.traces += 1
        chk.transitions += r["built"]
        for pr in r["problems"]:
            chk.violation(desc, f"{key}: {pr}", replay={"part": "g", "item": list(it)})
    # ---- (d)
    items = []
    kd = [3, 6, 9] if tier == "quick" else ks
    for engine in ("xl", "ksa"):
        for k in kd:
            items.append((engine, k, None, seed))
            for s in ([2, k + 1, k + 2] if tier == "quick" else range(1, k + 3)):
                items.append((engine, k, s, seed))
    res = pmap(t_stationary, items, chunk=1, timeout=900, progress="C09d stationary")
    for it, r in zip(items, res):
        key = f"d|{it[0]}|k={it[1]}|resume={it[2]}"
        desc = {"part": "d", "engine": it[0], "k": it[1], "resumed_at": it[2] or 0}
        if is_timeout(r) or is_error(r):
            chk.violation(desc, f"{key}: {r}", replay={"part": "d", "item": list(it)})
            continue
        chk.case(key, outcome=f"{r.get('dev', -1):.1e}")
        chk.traces += 1
        chk.transitions += 2 * (it[1] + 1) + 2
        if r["problems"]:
            chk.violation(desc, f"{key}: {r['problems'][0]}", replay={"part": "d", "item": list(it)})
        elif r["dev"] > 1e-8 or r["dE"] > 1e-10:  # measured 1.3e-10 and 2.3e-13
            chk.violation(desc, f"{key}: stationary system: max|P_n - P*| = {r['dev']:.2e}, max|E_n - E_SCF| = {r['dE']:.2e}", replay={"part": "d", "item": list(it)})
    # ---- (e)
    ke = [3, 6, 9] if tier == "quick" else ks
    tphys = 6.4
    dts = [0.4, 0.2, 0.1]
    items = [("bomd", 0, dt, tphys, seed, None) for dt in dts]
    for k in ke:
        items += [("xl", k, dt, tphys, seed, None) for dt in dts]
    if tier != "quick":
        for k in (3, 6):
            items += [("ksa", k, dt, tphys, seed, None) for dt in dts]
    # thermal smearing: with fractional occupations the conserved quantity is the shadow FREE energy (the published
    # potential carries the electronic-entropy term); methane at T_el = 13000 K has S_el ~ 1e-3 eV/K-scale weight
    hot = {"max_rank": 3, "err_threshold": 0.0, "T_el": 13000}
    items += [("ksa", 6, dt, tphys, seed, None, hot) for dt in dts]
    res = pmap(t_traj, items, chunk=1, timeout=1800, progress="C09e dt families")
    by = {}
    for it, r in zip(items, res):
        if is_timeout(r) or is_error(r) or "error" in r:
            chk.violation({"part": "e", "engine": it[0], "k": it[1], "dt": it[2]}, f"e|{it}: run failed: {r}", replay={"part": "e", "item": list(it)})
            continue
        by[(it[0] + ("@hot" if len(it) > 6 else ""), it[1], it[2])] = r
    # the hot KSA family: only the dt^2 scaling of the published total energy is demanded (its BOMD twin would need the
    # same smearing in the SCF)
    try:
        # step 0 is the zero-temperature SCF of the initialisation (no smearing): measured from t >= 1.6 fs about the mean
        flh = []
        for dt in dts:
            e = by[("ksa@hot", 6, dt)]["E"][int(round(1.6 / dt)) :]
            flh.append(float(np.abs(e - e.mean()).max()))
        chk.case("e|ksa@T_el=13000|k=6", outcome=f"{flh[0] / flh[1]:.2f},{flh[1] / flh[2]:.2f}", sample={"part": "e", "engine": "ksa@T_el=13000", "fluct": flh})
        chk.traces += 1
        chk.extra.setdefault("e_measured", {})["e|ksa@hot|k=6"] = {"fluct": flh}
        # a 4.8 fs window holds few periods of the slow modes, so one halving is noisy (seed 1: 2.2 then 6.6); the two
        # halvings together are robust: healthy 14.5-15.8, a dt-independent published energy gives ~1
        if not (8.0 <= flh[0] / flh[2] <= 32.0):
            chk.violation({"part": "e", "engine": "ksa", "k": 6, "T_el": 13000}, f"e|ksa|k=6|T_el=13000: fluctuation of the published total (free) energy under dt halving has ratios {flh[0] / flh[1]:.2f}, {flh[1] / flh[2]:.2f} (together {flh[0] / flh[2]:.1f}, expected ~16) (fluct {flh})", replay={"part": "e", "item": ["ksa@hot", 6]})
    except KeyError:
        pass
    for (engine, k) in sorted({(a, b) for a, b, _ in by if a != "bomd" and not a.endswith("@hot")}):
        try:
            fl = [float(np.abs(by[(engine, k, dt)]["E"] - by[(engine, k, dt)]["E"][0]).max()) for dt in dts]
            dist = [float(np.abs(by[(engine, k, dt)]["x"] - by[("bomd", 0, dt)]["x"]).max()) for dt in dts]
        except KeyError:
            continue
        key = f"e|{engine}|k={k}"
        desc = {"part": "e", "engine": engine, "k": k}
        chk.case(key, outcome=f"{fl[0] / fl[1]:.2f},{fl[1] / fl[2]:.2f}", sample={"part": "e", "engine": engine, "k": k, "fluct": fl, "dist_to_bomd": dist})
        chk.traces += 1
        chk.extra.setdefault("e_measured", {})[key] = {"fluct": fl, "dist": dist}
        r1, r2 = fl[0] / fl[1], fl[1] / fl[2]
        if not (2.8 <= r1 <= 5.6 and 2.8 <= r2 <= 5.6):
            chk.violation(desc, f"{key}: shadow-energy fluctuation ratios under dt halving {r1:.2f}, {r2:.2f} not ~4 (fluct {fl})", replay={"part": "e", "item": [engine, k]})
        if not (dist[1] < dist[0] / 2.0 and dist[2] < dist[1] / 2.0):
            chk.violation(desc, f"{key}: distance to the BOMD trajectory does not shrink with dt: {dist}", replay={"part": "e", "item": [engine, k]})
    chk.extra["kappa_effective"] = {f"{e}:k={k}": v for (e, k), v in kap_eff.items()}


def replay(payload):
    c = payload["replay"]
    part, it = c["part"], c["item"]
    if part == "f":
        r = t_driver_reuse(tuple(it))
        print(r)
        return max(r["dev"].values()) <= 1e-12 and max(r["dev_same_molecule"].values()) <= 1e-12
    if part == "a":
        r = t_recurrence(tuple(it))
    elif part == "b":
        r = t_superposition(tuple(it))
    elif part == "c":
        it[2] = tuple(it[2])
        r = t_fixed_point_energy(tuple(it))
        print(r)
        return r.get("dE", 1) <= 1e-8 and r.get("dF", 1) <= 1e-6
    elif part == "g":
        r = t_kernel(tuple(it))
    elif part == "d":
        r = t_stationary(tuple(it))
        print(r)
        return not r["problems"] and r["dev"] <= 1e-8
    else:
        print("re-run ./check C09 for part (e)")
        return True
    print(r)
    return not r["problems"]
