"""C12  The Langevin thermostat samples the canonical ensemble at the target temperature.

Technique (level `other`): system identification of the REAL code with harness-owned noise, followed by an
exact linear-algebra argument -- no trajectory is sampled, no statistics are estimated.

(a) `torch.randn_like` as seen by seqm.MolecularDynamics is answered by the harness from the alphabet
    {0, one-hot e_i}.  After the real `initialize()` the real `_apply_langevin_thermostat` is executed on
    v = e_i / noise 0 and on v = 0 / noise e_i for every atom and component of a padded batch that contains
    every element of the alphabet (14 hydrides, Li .. Cl), for every (dt, damp, T) of the lattice.  This
    identifies the map  v -> c1 v + c2 xi  exhaustively (diagonality and affinity are verified by the one-hot
    columns and one superposition).  Oracle: c1^2 + c2^2 m/(k_B T) = 1 to 1e-12, with k_B the constant of the
    package's thermometer -- the fluctuation-dissipation relation; it makes the Maxwell-Boltzmann density
    at T a fixed point of the (linear, Gaussian) update, exactly.  T = 0: c2 = 0 and 0 < c1 <= 1.  Padding
    atoms: c2 = 0 exactly.
(b) With a linear-force electronic-structure stand-in (coupled harmonic wells) the real integrator step of
    Langevin BOMD, damped XL-BOMD and damped KSA-XL-BOMD is an affine map z' = A z + B xi, z = (x - x0, v).  A and
    B are identified column by column from executions of the real `_do_integrator_step` (affinity verified by
    a superposition).  The stationary covariance solves Sigma = A Sigma A^T + B B^T (scipy
    solve_discrete_lyapunov).  Oracle: m_i Sigma_vv[i,i] / k_B = T for every degree of freedom to 1e-9, and the
    package's own thermometer applied to the stationary mean kinetic energy reads T (dof bookkeeping); for the
    force-free system the velocity block of A equals exp(-dt/damp) (the documented damping time).
(c) Limits on a real molecule with the real RNG: damp -> infinity converges to the NVE trajectory (damp = inf
    reproduces it exactly, finite damp within the analytic noise bound), T = 0 never increases the kinetic
    energy in any thermostat application and the total energy never exceeds the NVE envelope.
"""
import math

import numpy as np

from ..drivers import harmonic as H
from ..drivers import md as MD
from ..drivers import molecules as M
from ..drivers import sp
from ..oracles import units as U
from ..pool import is_error, is_timeout, pmap
from .c08 import _mass_of, user_field

PID = "C12"
LEVEL = "other"
RULE = (
    "(a) every (engine, dt, dt/damp in {1e-4..10}, T in {0,10,300,3000}) x every atom/component of a padded batch of 14 "
    "hydrides (every element mass of the alphabet): one-hot velocity and one-hot noise through the real thermostat; "
    "(b) every (engine, dt, dt/damp, T>0, force-constant set, system) : 12N+2 executions of the real integrator step "
    "identify A and B, then the discrete Lyapunov equation gives the stationary temperature exactly; (c) limit runs on "
    "a real molecule.  A case = one lattice point (key = part|engine|dt|ratio|T|...); non-trivial when an identity had "
    "two independently obtained sides to compare (all points except those the package rejects)"
)
EXPLANATION = (
    "Exact analysis instead of sampling: the thermostat update and (for a linear force) the whole integrator step are "
    "affine maps with Gaussian noise.  Their coefficients are READ OFF the real code by exhaustive one-hot system "
    "identification with the noise source owned by the harness (affinity and diagonality are checked, not assumed).  "
    "For an affine Gaussian map the invariant density is Gaussian with covariance Sigma = A Sigma A^T + B B^T, so (a) "
    "c1^2 + c2^2 m/(k_B T) = 1 is equivalent to invariance of the Maxwell-Boltzmann velocity density under the "
    "thermostat alone for any configuration and any force field, and (b) the Lyapunov solution gives the long-run "
    "mean kinetic temperature of the complete step with zero statistical error.  Anharmonic surfaces are covered "
    "through (a) (the thermostat never sees the force) and the limits (c); the O(dt^2) configurational error of the "
    "splitting is not part of the property.  evaluations = executions of real package code (thermostat applications, "
    "integrator steps, MD runs); distinct_nontrivial = lattice points with a two-sided identity."
)
ASSUMPTIONS = [
    "the map identified on one-hot inputs is the map applied to every input: the code under test contains no data-dependent "
    "branch in the thermostat / integrator step (verified by a superposition probe per lattice point, and by reading)",
    "k_B is the one implied by the package's temperature read-out; its tie to CODATA is C08's unit oracle",
    "surface hopping: the thermostat it applies, its n_dof bookkeeping and the two applications per step are checked on the "
    "real engine with real CIS electronic structure (part d); its stationary state under the full step is not (no linear "
    "stand-in for the nonadiabatic machinery); XL_ESMD inherits `_apply_langevin_thermostat` unchanged (not executed)",
    "float64, CPU",
]

RATIOS = [1e-4, 1e-3, 1e-2, 0.1, 1.0, 10.0]
TEMPS = [0.0, 10.0, 300.0, 3000.0]
HYDRIDES = ["LiH", "BeH2", "BH3", "CH4", "NH3", "H2O", "HF", "NaH", "MgH2", "AlH3", "SiH4", "PH3", "H2S", "HCl"]


def _kB():
    from seqm.MolecularDynamics import CONSTANTS as C

    return U.k_boltzmann_package(C)


def _setup(engine, mols, method, K, dt, damp, T, proxy, remove_com=None, first=None):
    """real Molecule + real MD object (stand-in driver), real initialize(); returns (md, molecule, x0).
    `first`: another batch of the same padded shape the SAME md object is initialised for beforehand (a screening loop
    that reuses one driver object for equally padded batches)."""
    import torch

    params = sp.make_params(method, eps=1e-8)
    molecule, _ = sp.build(mols, params)
    molecule0 = sp.build(first, params)[0] if first else None
    x0 = molecule.coordinates.detach().clone()
    nmol, n = x0.shape[:2]
    Kfull = np.zeros((nmol, 3 * n, 3 * n)) if K is None else K
    cls = H.harmonic_class(Kfull, x0.numpy())
    with H.installed_driver(cls):
        md = MD.make_engine(engine, params, dt, T, MD.output_cfg("c12", [], data=0, coordinates=0, velocities=0, forces=0), k=(4 if engine.startswith("ksa") else 3), damp=damp)
    proxy.scripted = False
    torch.manual_seed(11)
    if molecule0 is not None:
        if tuple(molecule0.coordinates.shape) != tuple(molecule.coordinates.shape):
            raise RuntimeError("reuse case needs two batches of the same padded shape")
        md.initialize(molecule0, remove_com=(tuple(remove_com) if remove_com else None), steps=None)
    md.initialize(molecule, remove_com=(tuple(remove_com) if remove_com else None), steps=None)
    proxy.scripted = True
    return md, molecule, x0


# ----------------------------------------------------------------------------- (a)


def part_a(cfg):
    import torch

    R = M.generic_rot(cfg["rot"])
    mols = [M.apply(M.get(nm), R) for nm in HYDRIDES]
    dt, T = cfg["dt"], cfg["T"]
    damp = dt / cfg["ratio"]
    kB = _kB()
    out = {"problems": [], "evals": 0, "table": {}}
    prob = out["problems"]
    first = None
    if cfg.get("reuse"):
        # the same driver object served another batch of the same padded shape first: other elements in every slot,
        # padding where real atoms are now (reversed order of the hydrides)
        first = [M.apply(M.get(nm), R) for nm in reversed(HYDRIDES)]
    with H.scripted_noise() as proxy:
        md, molecule, _ = _setup(cfg["engine"], mols, "PM6_SP", None, dt, damp, T, proxy, first=first)
        shape = molecule.velocities.shape
        nmol, n = shape[:2]
        species = molecule.species.numpy()
        mass = molecule.mass.numpy().reshape(nmol, n)
        ntot = nmol * n * 3
        c1 = np.zeros(ntot)
        c2 = np.zeros(ntot)

        def apply(v, xi):
            molecule.velocities = torch.as_tensor(v.reshape(shape)).clone()
            proxy.script = [xi.reshape(shape) if xi is not None else None]
            d0 = proxy.draws
            md._apply_langevin_thermostat(molecule)
            out["evals"] += 1
            if proxy.draws != d0 + 1:
                prob.append(("noise_draws", -1, float(proxy.draws - d0), f"one thermostat application drew {proxy.draws - d0} noise tensors"))
            return molecule.velocities.detach().numpy().reshape(-1).copy()

        z = np.zeros(ntot)
        r0 = apply(z, None)
        if np.any(r0 != 0.0):
            prob.append(("offset", -1, float(np.abs(r0).max()), "thermostat moves atoms at rest with zero noise"))
        offd = 0.0
        for j in range(ntot):
            e = z.copy()
            e[j] = 1.0
            r = apply(e, None)
            c1[j] = r[j]
            r[j] = 0.0
            offd = max(offd, float(np.abs(r).max()))
            r = apply(z, e)
            c2[j] = r[j]
            r[j] = 0.0
            offd = max(offd, float(np.abs(r).max()))
        if offd != 0.0:
            prob.append(("not_diagonal", -1, offd, f"a one-hot velocity/noise input changed another component by {offd:.3e}"))
        # superposition (affinity): fixed non-trivial pattern
        i = np.arange(ntot)
        v = 0.01 * np.sin(0.37 * i + 0.2)
        xi = np.cos(0.91 * i + 1.1)
        r = apply(v, xi)
        dev = float(np.abs(r - (c1 * v + c2 * xi)).max())
        if not dev <= 1e-15:
            prob.append(("not_affine", -1, dev, f"thermostat(v, xi) differs from c1 v + c2 xi by {dev:.3e}"))
    c1 = c1.reshape(nmol, n, 3)
    c2 = c2.reshape(nmol, n, 3)
    worst = 0.0
    for m_ in range(nmol):
        for a in range(n):
            Z = int(species[m_, a])
            for c in range(3):
                a1, a2 = c1[m_, a, c], c2[m_, a, c]
                if Z == 0:
                    if a2 != 0.0:
                        prob.append(("padding_noise", Z, abs(a2), f"padding atom ({m_},{a}) receives noise amplitude {a2:.3e}"))
                    continue
                if not (0.0 < a1 <= 1.0):
                    prob.append(("friction_range", Z, a1, f"Z={Z}: friction factor c1 = {a1!r} not in (0, 1]"))
                if T == 0.0:
                    if a2 != 0.0:
                        prob.append(("T0_noise", Z, abs(a2), f"Z={Z}: T = 0 but noise amplitude c2 = {a2:.3e}"))
                else:
                    fd = a1 * a1 + a2 * a2 * mass[m_, a] / (kB * T) - 1.0
                    worst = max(worst, abs(fd))
                    if not abs(fd) <= 1e-12:
                        prob.append((
                            "fluctuation_dissipation", Z, abs(fd),
                            f"Z={Z} (m={mass[m_, a]:.4f}): c1^2 + c2^2 m/(k_B T) - 1 = {fd:.3e} (c1={a1:.12g}, c2={a2:.6e}); "
                            f"the thermostat alone would drive this atom to {T * (a2 * a2 * mass[m_, a] / (kB * T)) / (1 - a1 * a1) if a1 < 1 else float('nan'):.4f} K instead of {T} K",
                        ))  # fmt: skip
            if Z:
                out["table"][Z] = (float(c1[m_, a, 0]), float(c2[m_, a, 0]))
    out["worst"] = worst
    out["elements"] = sorted(out["table"])
    out["sig"] = f"{c1[0, 0, 0]:.6g}"
    return out


# ----------------------------------------------------------------------------- (b)

SYSTEMS = {"H2O": ["H2O"], "CH4+H2O": ["CH4", "H2O"], "HCl+LiH": ["HCl", "LiH"]}
KSETS = {"free": None, "soft": (2.0, 0.3), "stiff": (30.0, 0.5), "mixed": (100.0, 0.2)}


def part_b(cfg):
    import torch
    from scipy.linalg import solve_discrete_lyapunov

    from seqm.MolecularDynamics import CONSTANTS as C

    R = M.generic_rot(cfg["rot"])
    mols = [M.apply(M.get(nm), R) for nm in SYSTEMS[cfg["system"]]]
    dt, T = cfg["dt"], cfg["T"]
    damp = dt / cfg["ratio"]
    kB = _kB()
    nat = [len(m["species"]) for m in mols]
    n = max(nat)
    nmol = len(mols)
    K = None
    if KSETS[cfg["kset"]] is not None:
        kd, cp = KSETS[cfg["kset"]]
        K = np.stack([H.spd_matrix(nat[k], n, kd * (1 + 0.5 * k), cp) for k in range(nmol)])
    out = {"problems": [], "evals": 0}
    prob = out["problems"]
    with H.scripted_noise() as proxy:
        md, molecule, x0 = _setup(cfg["engine"], mols, "AM1", K, dt, damp, T, proxy, cfg.get("com"))
        shape = tuple(x0.shape)
        nd = nmol * n * 3
        mass = molecule.mass.numpy().reshape(nmol, n)
        massv = np.repeat(mass.reshape(-1), 3)
        real = massv > 0
        state = {"i": 0}

        def step(dx, v, xi1=None, xi2=None):
            molecule.coordinates.data.copy_(x0 + torch.as_tensor(dx.reshape(shape)))
            molecule.velocities = torch.as_tensor(v.reshape(shape)).clone()
            md.esdriver(molecule)
            with torch.no_grad():
                molecule.acc = molecule.force * molecule.mass_inverse * C.ACC_SCALE
            proxy.script = [None if xi1 is None else xi1.reshape(shape), None if xi2 is None else xi2.reshape(shape)]
            d0 = proxy.draws
            md._do_integrator_step(state["i"], molecule, {})
            state["i"] += 1
            out["evals"] += 1
            out["draws_per_step"] = proxy.draws - d0
            return np.concatenate([(molecule.coordinates.detach() - x0).numpy().reshape(-1), molecule.velocities.detach().numpy().reshape(-1)])

        z0 = np.zeros(nd)
        b = step(z0, z0)
        if not np.abs(b).max() <= 1e-300:
            prob.append(("offset", float(np.abs(b).max()), "the step moves a system at rest at the minimum with zero noise"))
        A = np.zeros((2 * nd, 2 * nd))
        B = np.zeros((2 * nd, 2 * nd))
        for j in range(nd):
            e = z0.copy()
            e[j] = 1.0
            A[:, j] = step(e, z0)
            A[:, nd + j] = step(z0, e)
            B[:, j] = step(z0, z0, e, None)
            B[:, nd + j] = step(z0, z0, None, e)
        i = np.arange(nd)
        dx = 0.05 * np.sin(0.53 * i + 0.1) * real
        v = 0.01 * np.cos(0.77 * i + 0.4) * real
        x1 = np.sin(1.9 * i + 0.3)
        x2 = np.cos(2.3 * i + 0.8)
        r = step(dx, v, x1, x2)
        pred = A @ np.concatenate([dx, v]) + B @ np.concatenate([x1, x2])
        dev = float(np.abs(r - pred).max())
        scale = float(np.abs(pred).max())
        if not dev <= 1e-12 * max(scale, 1.0):
            prob.append(("not_affine", dev, f"integrator step differs from the identified affine map by {dev:.3e}"))
        # the package's thermometer, for the dof bookkeeping
        ndof = np.asarray(md.n_dof.detach().numpy() if torch.is_tensor(md.n_dof) else md.n_dof, float).reshape(-1)
    sel = np.concatenate([real, real])
    pad = ~sel
    # padding coordinates never couple to real ones and receive no noise
    if pad.any():
        leak = max(float(np.abs(A[np.ix_(sel, pad)]).max()), float(np.abs(B[np.ix_(pad, np.ones(2 * nd, bool))]).max()), float(np.abs(B[np.ix_(sel, pad)]).max()))
        if leak != 0.0:
            prob.append(("padding_coupling", leak, f"padding atoms couple to the dynamics / receive noise ({leak:.3e})"))
    Ar = A[np.ix_(sel, sel)]
    Br = B[np.ix_(sel, sel)]
    nr = int(real.sum())
    mr = massv[real]
    out["rho"] = float(np.abs(np.linalg.eigvals(Ar)).max())
    if cfg["kset"] == "free":
        Avv = Ar[nr:, nr:]
        want = math.exp(-dt / damp)
        d = float(np.abs(Avv - want * np.eye(nr)).max())
        out["friction_dev"] = d
        if not d <= 1e-12:
            prob.append(("friction_per_step", d, f"force-free step multiplies velocities by {Avv[0, 0]:.12g}, documented damping time gives exp(-dt/damp) = {want:.12g}"))
        Bv = Br[nr:, :]
        Q = Bv @ Bv.T
        Svv = Q / (1.0 - Avv[0, 0] ** 2) if abs(Avv[0, 0]) < 1 else np.full_like(Q, np.nan)
    else:
        if not out["rho"] < 1.0:
            prob.append(("unstable", out["rho"], f"spectral radius of the identified step is {out['rho']:.6f} >= 1"))
            return out
        S = solve_discrete_lyapunov(Ar, Br @ Br.T)
        res = float(np.abs(Ar @ S @ Ar.T + Br @ Br.T - S).max() / max(np.abs(S).max(), 1e-300))
        out["lyap_residual"] = res
        if not res <= 1e-10:
            out["problems"].append(("lyapunov_residual", res, f"Lyapunov solve inaccurate ({res:.2e})"))
        Svv = S[nr:, nr:]
    Tdof = mr * np.diag(Svv) / kB
    dev = float(np.abs(Tdof / T - 1.0).max())
    out["T_dev"] = dev
    if not dev <= 1e-9:
        j = int(np.argmax(np.abs(Tdof / T - 1.0)))
        prob.append(("stationary_temperature", dev, f"stationary kinetic temperature of dof {j} (m = {mr[j]:.4f}) is {Tdof[j]:.6f} K, target {T} K; mean over dofs {Tdof.mean():.6f} K"))
    # thermometer: T_readout(<Ek>) per molecule with the package's n_dof
    k0 = 0
    for k in range(nmol):
        idx = slice(k0, k0 + 3 * nat[k])
        ek = 0.5 * float((mr[idx] * np.diag(Svv)[idx]).sum()) * C.KINETIC_ENERGY_SCALE
        tr = ek * C.TEMPERATURE_SCALE / (0.5 * float(ndof[k if len(ndof) > 1 else 0]))
        k0 += 3 * nat[k]
        if not abs(tr / T - 1.0) <= 1e-9:
            prob.append(("thermometer", abs(tr / T - 1.0), f"the package's temperature read-out of the stationary state of molecule {k} is {tr:.6f} K (n_dof = {ndof.tolist()}, remove_com = {cfg.get('com')}), target {T} K"))
    out["sig"] = f"{out['rho']:.4f}"
    return out


# ----------------------------------------------------------------------------- (c)


def part_c(cfg):
    import torch

    from seqm.MolecularDynamics import CONSTANTS as C

    R = M.generic_rot(cfg["rot"])
    mols = [M.apply(M.get(nm), R) for nm in cfg["mol"].split("+")]
    p = sp.make_params("AM1", eps=1e-10)
    out = {"problems": [], "evals": 0}
    prob = out["problems"]
    dt, n = cfg["dt"], cfg["steps"]
    o = dict(data=1, coordinates=1, velocities=1, forces=0)
    if cfg["kind"] == "inf_damp":
        T = 300.0
        # the un-thermostatted twin of the engine (XL-BOMD's approximate forces differ from BOMD's, so BOMD is not its limit)
        nve_engine = {"langevin": "bomd", "xl_damped": "xl", "ksa_damped": "ksa"}[cfg["engine"]]
        ref = MD.run_md(nve_engine, mols, p, n, dt=dt, temp=T, seed=cfg["seed"], out=o)
        out["evals"] += 1
        if ref["error"]:
            return {"error": ref["error"], "problems": [], "evals": 1}
        devs = {}
        for D in cfg["damps"]:
            r = MD.run_md(cfg["engine"], mols, p, n, dt=dt, temp=T, seed=cfg["seed"], out=o, damp=D)
            out["evals"] += 1
            if r["error"]:
                return {"error": f"damp={D}: {r['error']}", "problems": [], "evals": out["evals"]}
            dx = max(float(np.abs(r[f"h5.{k}"]["coordinates/values"] - ref[f"h5.{k}"]["coordinates/values"]).max()) for k in range(len(mols)))
            dv = max(float(np.abs(r[f"h5.{k}"]["velocities/values"] - ref[f"h5.{k}"]["velocities/values"]).max()) for k in range(len(mols)))
            devs[D] = (dx, dv)
            # analytic bound: 2n kicks of at most c2_max*|xi|_max each, carried for at most n*dt, amplification <= 2 over this horizon
            mmin = min(float(_mass_of(m["species"]).min()) for m in mols)
            c2 = math.sqrt(-math.expm1(-dt / D) * T / mmin) * C.VEL_SCALE if math.isfinite(D) else 0.0
            bound_v = 2.0 * (2 * n) * c2 * 6.0 + (1.0 - math.exp(-n * dt / D) if math.isfinite(D) else 0.0) * 0.1 + 1e-13
            bound_x = bound_v * n * dt + 1e-13
            if not dx <= bound_x or not dv <= bound_v:
                prob.append(("infinite_damping_limit", dx, f"damp = {D:g} fs: trajectory differs from NVE by {dx:.3e} A / {dv:.3e} A/fs, analytic noise bound {bound_x:.3e} / {bound_v:.3e}"))
        # the limit itself: damp = inf is the NVE run; 1e24 fs is within 1e-10 A; the approach is ~ damp^(-1/2)
        for D, (dx, dv) in devs.items():
            if math.isinf(D) and not (dx <= 1e-13 and dv <= 1e-13):
                prob.append(("infinite_damping_limit", dx, f"damp = inf: trajectory differs from NVE by {dx:.3e} A / {dv:.3e} A/fs"))
            if D == 1e24 and not dx <= 1e-10:
                prob.append(("infinite_damping_limit", dx, f"damp = 1e24 fs: trajectory differs from NVE by {dx:.3e} A (> 1e-10)"))
        if 1e12 in devs and 1e18 in devs and devs[1e12][0] > 0:
            q = devs[1e18][0] / devs[1e12][0]
            if not 0.5e-3 <= q <= 2e-3:
                prob.append(("infinite_damping_scaling", q, f"deviation from NVE shrinks by {q:.3e} from damp 1e12 to 1e18 (noise amplitude ~ damp^-1/2 gives 1e-3)"))
        out["devs"] = {f"{D:g}": v for D, v in devs.items()}
        out["sig"] = "|".join(f"{v[0]:.0e}" for v in devs.values())
    else:  # T = 0 only removes energy
        vel = user_field(mols, net_p=False, net_l=False, scale=cfg.get("vscale", 1.0)) if cfg["kind"] == "T0_user" else None
        log = []

        def hook(md, molecule):
            orig = md._apply_langevin_thermostat

            def wrapped(mol):
                eb = float((0.5 * mol.mass * mol.velocities**2).sum())
                orig(mol)
                ea = float((0.5 * mol.mass * mol.velocities**2).sum())
                log.append((eb, ea))

            md._apply_langevin_thermostat = wrapped

        D = cfg["damps"][0]
        r = MD.run_md(cfg["engine"], mols, p, n, dt=dt, temp=0.0, seed=cfg["seed"], out=o, damp=D, velocities=vel, hook=hook)
        nve = MD.run_md("bomd", mols, p, n, dt=dt, temp=0.0, seed=cfg["seed"], out=o, velocities=vel)
        out["evals"] += 2
        if r["error"] or nve["error"]:
            return {"error": r["error"] or nve["error"], "problems": [], "evals": 2}
        if len(log) != 2 * n:
            prob.append(("thermostat_applications", float(len(log)), f"{len(log)} thermostat applications in {n} steps (Bussi-Parrinello: two half-step updates per step)"))
        want = math.exp(-dt / D)
        for i, (eb, ea) in enumerate(log):
            if ea > eb:
                prob.append(("T0_adds_energy", ea - eb, f"thermostat application {i} at T = 0 raised the kinetic energy from {eb:.6e} to {ea:.6e}"))
                break
        for k in range(len(mols)):
            E = r[f"h5.{k}"]["data/thermo/Ek"] + r[f"h5.{k}"]["data/thermo/Ep"]
            En = nve[f"h5.{k}"]["data/thermo/Ek"] + nve[f"h5.{k}"]["data/thermo/Ep"]
            env = float(np.abs(En - En[0]).max())
            up = float((E - E[0]).max())
            if not up <= 2.0 * env + 1e-9:
                prob.append(("T0_total_energy", up, f"T = 0 Langevin run: total energy rises {up:.3e} eV above its start (NVE integrator envelope {env:.3e} eV)"))
            if not E[-1] < E[0] - 2.0 * env:
                prob.append(("T0_no_dissipation", float(E[-1] - E[0]), f"T = 0, damp = {D}: total energy changed by {E[-1] - E[0]:.3e} eV over {n} steps, no dissipation beyond the integrator envelope {env:.3e}"))
        out["ratio_dev"] = max((abs(ea / eb - want * 1.0) for eb, ea in log if eb > 1e-12), default=0.0) if log else 0.0
        if len(log) == 2 * n and not out["ratio_dev"] <= 1e-12:
            prob.append(("T0_friction", out["ratio_dev"], f"T = 0: a thermostat application scales the kinetic energy by a factor {out['ratio_dev']:.3e} away from exp(-dt/damp)"))
        out["sig"] = f"{len(log)}"
    out["error"] = None
    return out


# ----------------------------------------------------------------------------- (d) surface hopping


def part_d(cfg):
    """The real SurfaceHoppingDynamics object with a damping time, real electronic structure (CIS) on a padded batch:
    real initialize(), then the thermostat it will apply is identified one-hot as in (a), its degrees-of-freedom
    bookkeeping is read, and one real integrator step is executed with the noise scripted to zero to count the
    thermostat applications."""
    import torch

    from seqm.MolecularDynamics import CONSTANTS as C
    from seqm.NonadiabaticDynamics import SurfaceHoppingDynamics

    R = M.generic_rot(cfg["rot"])
    names = cfg["mol"].split("+")
    # (excited-state gradients exist for batches of one species list only, so no padding here; padding is part (a)'s)
    mols = [M.apply(M.get(nm), M.generic_rot(cfg["rot"] + k)) for k, nm in enumerate(names)]
    dt, T = cfg["dt"], cfg["T"]
    damp = dt / cfg["ratio"]
    kB = _kB()
    params = sp.make_params("AM1", eps=1e-9)
    params["excited_states"] = {"n_states": 3, "method": "cis"}
    out = {"problems": [], "evals": 0}
    prob = out["problems"]
    wd = MD.scratch_dir("vpc12")
    import os

    cwd = os.getcwd()
    os.chdir(wd)
    try:
        with H.scripted_noise() as proxy:
            molecule, _ = sp.build(mols, params)
            md = SurfaceHoppingDynamics(seqm_parameters=params, timestep=dt, Temp=T, damp=damp, initial_state=1,
                                        output=MD.output_cfg("c12", [], data=0, coordinates=0, velocities=0, forces=0))  # fmt: skip
            proxy.scripted = False
            torch.manual_seed(11 + cfg["rot"])
            com = tuple(cfg["com"]) if cfg.get("com") else None
            md.initialize(molecule, remove_com=com, steps=None)
            proxy.scripted = True
            shape = molecule.velocities.shape
            nmol, n = shape[:2]
            species = molecule.species.numpy()
            mass = molecule.mass.numpy().reshape(nmol, n)
            ntot = nmol * n * 3
            v_keep = molecule.velocities.detach().clone()

            def apply(v, xi):
                molecule.velocities = torch.as_tensor(v.reshape(shape)).clone()
                proxy.script = [xi.reshape(shape) if xi is not None else None]
                md._apply_langevin_thermostat(molecule)
                out["evals"] += 1
                return molecule.velocities.detach().numpy().reshape(-1).copy()

            z = np.zeros(ntot)
            c1 = np.zeros(ntot)
            c2 = np.zeros(ntot)
            offd = 0.0
            for j in range(ntot):
                e = z.copy()
                e[j] = 1.0
                r = apply(e, None)
                c1[j] = r[j]
                r[j] = 0.0
                offd = max(offd, float(np.abs(r).max()))
                r = apply(z, e)
                c2[j] = r[j]
                r[j] = 0.0
                offd = max(offd, float(np.abs(r).max()))
            if offd != 0.0:
                prob.append(("not_diagonal", offd, f"a one-hot velocity/noise input changed another component by {offd:.3e}"))
            c1 = c1.reshape(nmol, n, 3)
            c2 = c2.reshape(nmol, n, 3)
            worst = 0.0
            svv = np.zeros((nmol, n, 3))  # stationary velocity variance of the thermostat: c2^2 / (1 - c1^2)
            for m_ in range(nmol):
                for a in range(n):
                    for c in range(3):
                        a1, a2 = c1[m_, a, c], c2[m_, a, c]
                        if species[m_, a] == 0:
                            if a2 != 0.0:
                                prob.append(("padding_noise", abs(a2), f"padding atom ({m_},{a}) receives noise amplitude {a2:.3e}"))
                            continue
                        fd = a1 * a1 + a2 * a2 * mass[m_, a] / (kB * T) - 1.0
                        worst = max(worst, abs(fd))
                        svv[m_, a, c] = a2 * a2 / (1.0 - a1 * a1) if a1 < 1.0 else 0.0
                        if not abs(fd) <= 1e-12:
                            prob.append(("fluctuation_dissipation", abs(fd), f"surface hopping, Z={int(species[m_, a])}: c1^2 + c2^2 m/(k_B T) - 1 = {fd:.3e}"))
            out["worst"] = worst
            # the thermometer the run publishes, applied to the density the thermostat leaves invariant
            ndof = np.asarray(md.n_dof.detach().numpy() if torch.is_tensor(md.n_dof) else md.n_dof, float).reshape(-1)
            for m_ in range(nmol):
                ek = 0.5 * float((mass[m_][:, None] * svv[m_]).sum()) * C.KINETIC_ENERGY_SCALE
                tr = ek * C.TEMPERATURE_SCALE / (0.5 * float(ndof[m_ if len(ndof) > 1 else 0]))
                out["T_dev"] = max(out.get("T_dev", 0.0), abs(tr / T - 1.0))
                if not abs(tr / T - 1.0) <= 1e-9:
                    prob.append(("thermometer", abs(tr / T - 1.0), f"surface hopping with damp={damp:g}: the package's temperature read-out of the thermostat's stationary state of molecule {m_} ({names[m_]}) is {tr:.6f} K (n_dof = {ndof.tolist()}, remove_com = {cfg.get('com')}), target {T} K"))
            # one real step, zero noise: two thermostat applications, velocities finite
            molecule.velocities = v_keep.clone()
            proxy.script = []
            d0 = proxy.draws
            md._do_integrator_step(0, molecule, {})
            out["evals"] += 1
            out["draws_per_step"] = proxy.draws - d0
            if proxy.draws - d0 != 2:
                prob.append(("thermostat_applications", float(proxy.draws - d0), f"one surface-hopping step with a damping time drew {proxy.draws - d0} noise tensors (two half-step O-U updates expected)"))
    finally:
        os.chdir(cwd)
        MD.rm(wd)
    out["sig"] = f"{c1[0, 0, 0]:.6g}|{ndof.tolist()}"
    out["error"] = None
    return out


# ----------------------------------------------------------------------------- (r) thermostat after a restart


def part_r(cfg):
    """A thermostatted run is interrupted after a checkpoint and finished by run_from_checkpoint (force-free stand-in
    electronic structure, noise scripted to zero): on the resumed steps the thermostat must still be applied (two noise
    draws per step) with the damping time of the original run (|v| shrinks by exp(-dt/damp) per step)."""
    import contextlib
    import io
    import os

    import torch

    from seqm.MolecularDynamics import Molecular_Dynamics_Basic

    mols = [M.apply(M.get(nm), M.generic_rot(cfg["rot"])) for nm in ("CH4", "H2O")]
    dt, T = cfg["dt"], cfg["T"]
    damp = dt / cfg["ratio"]
    out = {"problems": [], "evals": 0}
    prob = out["problems"]
    params = sp.make_params("AM1", eps=1e-8)
    molecule, _ = sp.build(mols, params)
    x0 = molecule.coordinates.detach().clone()
    nmol, n = x0.shape[:2]
    cls = H.harmonic_class(np.zeros((nmol, 3 * n, 3 * n)), x0.numpy())
    wd = MD.scratch_dir("vpc12r")
    cwd = os.getcwd()
    os.chdir(wd)
    steps, at = 4, 2
    try:
        with H.scripted_noise() as proxy, H.installed_driver(cls):
            md = MD.make_engine(cfg["engine"], params, dt, T, MD.output_cfg("md", [0, 1], data=0, coordinates=0, velocities=1, forces=0, checkpoint_every=at),
                                k=(4 if cfg["engine"].startswith("ksa") else 3), damp=damp)  # fmt: skip
            MD.crash_after_checkpoint_hook(at)(md, molecule)
            # user-supplied start velocities (drawing them would consume scripted noise); padding rows at rest
            i = torch.arange(nmol * n * 3, dtype=torch.float64).reshape(nmol, n, 3)
            molecule.velocities = 0.01 * torch.sin(0.7 * i + 0.3) * (molecule.species > 0).unsqueeze(-1)
            proxy.scripted = True  # every thermostat draw is answered with zeros
            with contextlib.redirect_stdout(io.StringIO()):
                try:
                    md.run(molecule, steps=steps, reuse_P=True, remove_com=None, seed=3)
                    prob.append(("harness", 0.0, "the run was not interrupted"))
                except MD.SimulatedCrash:
                    pass
            out["evals"] += 1
            d0 = proxy.draws
            with contextlib.redirect_stdout(io.StringIO()):
                Molecular_Dynamics_Basic.run_from_checkpoint("md.restart.pt")
            out["evals"] += 1
            out["draws_resumed"] = proxy.draws - d0
        if out["draws_resumed"] != 2 * (steps - at):
            prob.append(("thermostat_after_restart", float(out["draws_resumed"]), f"{out['draws_resumed']} thermostat noise draws in the {steps - at} resumed steps of a run started with damp = {damp:g} fs (two per step expected): the resumed run is not thermostatted as the original was"))
        want = math.exp(-dt / damp)
        worst = 0.0
        for k in range(nmol):
            h = MD.read_h5(f"md.{k}.h5")
            v = h["velocities/values"]
            lab = [int(s_) for s_ in h["velocities/steps"]]
            for a_, b_ in zip(range(len(lab) - 1), range(1, len(lab))):
                if lab[b_] != lab[a_] + 1 or lab[a_] < 1:
                    continue
                na, nb = float(np.abs(v[a_]).max()), float(np.abs(v[b_]).max())
                if na > 0:
                    out["steps_compared"] = out.get("steps_compared", 0) + 1
                    dev = abs(nb / na - want)
                    worst = max(worst, dev)
                    if not dev <= 1e-12:
                        prob.append(("friction_after_restart" if lab[b_] > at else "friction_per_step", dev, f"force-free step {lab[a_]} -> {lab[b_]} of molecule {k} multiplies the velocities by {nb / na:.12g}, damp = {damp:g} fs gives {want:.12g}"))
        out["friction_dev"] = worst
        if out.get("steps_compared", 0) < nmol * (steps - 1):
            prob.append(("harness", 0.0, f"only {out.get('steps_compared', 0)} consecutive velocity rows could be compared"))
    finally:
        os.chdir(cwd)
        MD.rm(wd)
    out["sig"] = f"{out.get('draws_resumed')}"
    out["error"] = None
    return out


# ----------------------------------------------------------------------------- driver


def run_cfg(cfg):
    if cfg["part"] == "r":
        return part_r(cfg)
    if cfg["part"] == "d":
        return part_d(cfg)
    if cfg["part"] == "a":
        return part_a(cfg)
    if cfg["part"] == "b":
        return part_b(cfg)
    return part_c(cfg)


def _key(c):
    if c["part"] == "a":
        return f"a|{c['engine']}|dt{c['dt']:g}|r{c['ratio']:g}|T{c['T']:g}" + ("|reused_driver" if c.get("reuse") else "")
    if c["part"] == "r":
        return f"r|{c['engine']}|dt{c['dt']:g}|r{c['ratio']:g}|T{c['T']:g}|resumed"
    if c["part"] == "d":
        com = "".join(map(str, c["com"])) if c.get("com") else "none"
        return f"d|sh|{c['mol']}|dt{c['dt']:g}|r{c['ratio']:g}|T{c['T']:g}|com={com}"
    if c["part"] == "b":
        com = "".join(map(str, c["com"])) if c.get("com") else "none"
        return f"b|{c['engine']}|{c['system']}|{c['kset']}|dt{c['dt']:g}|r{c['ratio']:g}|T{c['T']:g}|com={com}"
    return f"c|{c['engine']}|{c['kind']}|{c['mol']}|dt{c['dt']:g}|seed{c['seed']}|damp{'/'.join(f'{d:g}' for d in c['damps'])}"


def lattice(tier, rot):
    cases = []
    engines = ["langevin", "xl_damped", "ksa_damped"]
    dts_a = [0.5] if tier == "quick" else [0.1, 0.5, 2.0]
    for e in engines:
        for dt in dts_a:
            for ratio in RATIOS:
                for T in TEMPS:
                    cases.append(dict(part="a", engine=e, dt=dt, ratio=ratio, T=T, rot=rot))
    # histories: the driver object served another equally padded batch before
    for e in engines:
        for ratio in [1e-2, 1.0] if tier == "quick" else RATIOS:
            for T in [300.0] if tier == "quick" else TEMPS:
                cases.append(dict(part="a", engine=e, dt=0.5, ratio=ratio, T=T, rot=rot, reuse=True))
    # histories: interrupted after a checkpoint and finished by run_from_checkpoint
    for e in engines:
        for ratio in [1e-2, 1.0] if tier == "quick" else [1e-4, 1e-2, 1.0, 10.0]:
            for T in [300.0] if tier == "quick" else [0.0, 300.0]:
                cases.append(dict(part="r", engine=e, dt=0.5, ratio=ratio, T=T, rot=rot))
    # surface hopping (real engine, real CIS electronic structure)
    for mol in ["H2CO+H2CO"] if tier == "quick" else ["H2CO+H2CO", "NH3", "H2O+H2O+H2O"]:
        for ratio in [1e-2, 1.0] if tier == "quick" else [1e-4, 1e-2, 1.0, 10.0]:
            for T in [300.0] if tier == "quick" else [10.0, 300.0, 3000.0]:
                for com in (None, ["linear", 1], ["angular", 2]):
                    cases.append(dict(part="d", engine="sh", mol=mol, dt=0.5, ratio=ratio, T=T, rot=rot, com=com))
    dts_b = [0.5] if tier == "quick" else [0.25, 0.5, 1.0]
    systems = ["H2O", "CH4+H2O"] if tier == "quick" else list(SYSTEMS)
    for e in engines:
        for system in systems:
            for kset in KSETS:
                for dt in dts_b:
                    for ratio in RATIOS:
                        for T in TEMPS[1:]:
                            if tier == "quick" and T == 10.0 and kset != "stiff":
                                continue
                            cases.append(dict(part="b", engine=e, system=system, kset=kset, dt=dt, ratio=ratio, T=T, rot=rot))
                            # dof bookkeeping: the thermostat feeds all 3N dofs whatever remove_com asks for
                            if kset == "stiff" and T == 300.0 and ratio in (1e-2, 1.0):
                                for com in (["linear", 1], ["angular", 3]):
                                    cases.append(dict(part="b", engine=e, system=system, kset=kset, dt=dt, ratio=ratio, T=T, rot=rot, com=com))
    seeds = [rot] if tier == "quick" else [0, 1, 2]
    for s in seeds:
        for e in ["langevin"] if tier == "quick" else ["langevin", "xl_damped", "ksa_damped"]:
            cases.append(dict(part="c", engine=e, kind="inf_damp", mol="H2O", dt=0.5, steps=8, seed=s, damps=[1e12, 1e18, 1e24, float("inf")], rot=rot))
        cases.append(dict(part="c", engine="langevin", kind="T0_rest", mol="H2CO", dt=0.5, steps=12, seed=s, damps=[5.0], rot=rot))
        cases.append(dict(part="c", engine="langevin", kind="T0_user", mol="CH4+H2O", dt=0.5, steps=12, seed=s, damps=[20.0], rot=rot))
    return cases


def _desc(c, oracle, mag, extra=None):
    d = dict(part=c["part"], engine=c["engine"], dt=c["dt"], oracle=oracle, magnitude=float(mag), rot=c["rot"])
    for k in ("ratio", "T", "system", "kset", "kind", "mol", "seed", "reuse"):
        if k in c:
            d[k] = c[k]
    d.update(extra or {})
    return d


def evaluate(chk, cases, verbose=False):
    # real-MD limit cases are heavy (one process each); identification cases are milliseconds (chunked)
    cases = sorted(cases, key=lambda c: {"c": 0, "d": 1, "r": 2, "b": 3, "a": 4}[c["part"]])
    heavy = [c for c in cases if c["part"] in "cdr"]
    light = [c for c in cases if c["part"] not in "cdr"]
    res = pmap(run_cfg, heavy, chunk=1, timeout=1800, progress="C12 limits") + pmap(run_cfg, light, chunk=6, timeout=1200, progress="C12 identification")
    nprob = 0
    elements = set()
    worst = {"fd": 0.0, "T": 0.0, "friction": 0.0}
    for c, r in zip(cases, res):
        k = _key(c)
        if is_timeout(r) or is_error(r):
            nprob += 1
            if chk:
                chk.harness_error(f"{k}: did not complete: {str(r)[:600]}")
            else:
                print("  HARNESS", k, str(r)[-400:])
            continue
        if r.get("error"):
            nprob += 1
            if chk:
                chk.case(k, nontrivial=True, outcome="raised")
                chk.violation(_desc(c, "run_raised", 0.0), f"{k}: the package raised: {r['error']}", replay=c)
            else:
                print("  RAISED", k, r["error"])
            continue
        elements |= set(r.get("elements", []))
        worst["fd"] = max(worst["fd"], r.get("worst", 0.0))
        worst["T"] = max(worst["T"], r.get("T_dev", 0.0))
        worst["friction"] = max(worst["friction"], r.get("friction_dev", 0.0))
        if chk:
            chk.case(k, nontrivial=True, outcome=r.get("sig"), sample=dict(case=k, **{kk: v for kk, v in r.items() if kk in ("evals", "worst", "rho", "T_dev", "friction_dev", "lyap_residual", "draws_per_step", "devs", "ratio_dev")}))
            chk.evaluations += max(0, r["evals"] - 1)
            if c["part"] == "b":
                chk.traces += 1
        if verbose:
            print(k, {kk: v for kk, v in r.items() if kk not in ("problems", "table", "elements")})
        # one report per (lattice point, oracle): the worst instance, with the number of instances and the elements hit
        byo = {}
        for p_ in r["problems"]:
            if c["part"] == "a":
                o, Z, mag, msg = p_
            else:
                (o, mag, msg), Z = p_, None
            e = byo.setdefault(o, {"n": 0, "mag": -1.0, "msg": "", "Z": set()})
            e["n"] += 1
            if Z is not None and Z >= 0:
                e["Z"].add(int(Z))
            if mag > e["mag"]:
                e["mag"], e["msg"] = mag, msg
        for o, e in byo.items():
            nprob += 1
            extra = {"instances": e["n"]}
            if e["Z"]:
                extra["elements"] = ",".join(map(str, sorted(e["Z"])))
            if chk:
                chk.violation(_desc(c, o, e["mag"], extra), f"{k}: {e['msg']} [{e['n']} instance(s)]", replay=c)
            else:
                print("  ", k, e["msg"], f"[{e['n']} instance(s)]")
    if chk:
        chk.extra["elements_identified"] = sorted(elements)
        chk.extra["max_abs_fluctuation_dissipation_residual"] = worst["fd"]
        chk.extra["max_rel_stationary_temperature_deviation"] = worst["T"]
        chk.extra["max_friction_per_step_deviation"] = worst["friction"]
    return nprob


def run(chk, tier, seed):
    import vp

    vp.warm()
    chk.extra["explanation"] = EXPLANATION
    cases = lattice(tier, int(seed))
    chk.planned = len(cases)
    evaluate(chk, cases)
    chk.extra["lattice"] = {"ratios_dt_over_damp": RATIOS, "temperatures": TEMPS, "engines": ["langevin", "xl_damped", "ksa_damped"]}


def replay(payload):
    return evaluate(None, [payload["replay"]], verbose=True) == 0
