"""C07  Outputs are correctly differentiable in coordinates and Hamiltonian parameters.

Explorer: exhaustive product lattice (S-lat)

    method {MNDO, AM1, PM3} x molecule x base point {table values, shifted} x EVERY learnable parameter name
    of the method (seqm.basics.parameterlist + the pair parameter Kbeta) x tensor kind {leaf, non-leaf,
    callable of (species, coordinates)} x scf_backward {0, 1, 2} x solver {fixed 0.3, adaptive, Pulay} x
    output {Etot, Hf, e_mo, gap, q} x order {1, 2}

executed on the REAL code: every parameter of the method is handed to `Molecule` / `Energy` as a caller
tensor (all names learned at once, so one forward pass and one reverse pass per output serve all names of
a lattice row), `torch.autograd.grad` is taken with respect to the caller's ROOT tensors, and the
directional derivative along one FIXED direction per parameter name is compared with a central finite
difference (Richardson extrapolation on the stencil 2h, h, h/2 with an error estimate) of the same output of the same code.  The finite differences do not depend on
tensor kind / backward mode / solver, so they are computed once per (method, molecule, base, name) in batches
and shared by all lattice rows; every disagreement is re-evaluated in a fresh process with single-molecule
finite differences before it is reported (DESIGN section 9).

The base point "table" is the colliding one: all atoms of a species carry exactly equal parameters (and MNDO
has zeta_s == zeta_p for C, N, O, F), which is how every training run starts and exactly where the overlap
routine switches to its beta = 0 branch.  "shifted" moves every atom's value by up to 2 %.

Order 2 (scf_backward = 2 only, as the statement says): double backward through Energy gives the
Hessian-vector product H u, the mixed derivatives d(dHf/dx . u)/d(parameter) for every name, and (fixed-mixing
solver) the full Hessian; oracles: symmetric, equal to the finite difference of the forces of the package's
own force driver.  With the callable kind the parameters depend on the geometry and the forces / Hessians
must contain that dependence.
"""
import math
import time

import numpy as np
import torch

from ..drivers import molecules as M
from ..drivers import sp
from ..pool import is_error, is_timeout, pmap

PID = "C07"
LEVEL = "exploration"
RULE = (
    "product lattice method x molecule x base point {table, shifted} x every learnable parameter name "
    "(parameterlist + Kbeta) x tensor kind {leaf, nonleaf, callable} x scf_backward {0,1,2} x solver {fixed0.3, "
    "adaptive, pulay} x output {Etot, Hf, e_mo, gap, q} x order {1,2}; one case = one directional derivative of one "
    "output w.r.t. the caller's root tensor of one parameter name compared with a Richardson central finite "
    "difference of the same output (callable kind: also dHf/dx incl. the parameters' geometry dependence, from "
    "Energy and from the force driver; order 2: Hessian-vector product, mixed force/parameter derivative, full "
    "Hessian vs finite differences of the package's forces, symmetry); a case is non-trivial when the finite "
    "difference says the output depends on the parameter; distinct = distinct lattice point"
)
ASSUMPTIONS = [
    "CPU, float64, closed-shell RHF on the main lattice (open-shell UHF only in section `uhf`: Etot and gap, modes 1 and 2, "
    "leaf tensors, species-wise directions), one molecule per differentiated call (finite differences are batched and "
    "re-done with single-molecule calls in a fresh process before a disagreement is reported)",
    "one fixed generic direction per parameter name (per-atom weights from a fixed table; species-wise weights when "
    "the molecule has degenerate orbitals so that e_mo/gap stay differentiable); a gradient error orthogonal to that "
    "direction is not seen",
    "vector outputs (e_mo, q) are contracted with fixed generic weights (constant on degenerate orbital clusters)",
    "scf_backward = 0 is only claimed for outputs stationary in P (Etot, Hf); second order only for scf_backward = 2",
    "scf_eps = 1e-11 so that finite-difference noise stays below the comparison tolerance",
]

EPS = 1e-11
METHODS = ("MNDO", "AM1", "PM3")
KINDS = ("leaf", "nonleaf", "callable")
SOLVERS = ("fixed0.3", "adaptive", "pulay")
OUTPUTS = ("Etot", "Hf", "e_mo", "gap", "q")
ENERGY_OUTPUTS = ("Etot", "Hf")
ONE_CENTRE_2E = ("g_ss", "g_pp", "g_p2", "h_sp")  # enter the two-centre integrals through rho0 / rho1 / rho2
RHO_ROOT = ("zeta_s", "zeta_p", "g_pp", "g_p2", "h_sp")  # enter rho1 / rho2 (cal_par custom backward)

# --- tolerances --------------------------------------------------------------------------------------------------
# |ad - fd| <= RTOL[sb] * max(|ad|, |fd|) + ATOL[output]
#   the statement: 1e-5 relative (1e-4 for the implicit adjoint, whose tolerance is the SCF eps).  Measured on the
#   tree with the three proposed C07 fixes applied, scf_eps = 1e-11 (thorough lattice seed 0, quick lattice seeds
#   0..4): typical |ad - fd| is 1e-9..2e-7 relative; the largest error / limit per class is 0.10 (energies), 0.27
#   (density outputs, unrolled Pulay), 0.06 (mixed), 0.002 (Hessian), 6e-6 (symmetry) -> head-room >= 3.7x, typically
#   >= 10x.  Every run reports these ratios in evidence (largest_healthy_error_over_limit).
RTOL = {0: 1e-5, 1: 1e-4, 2: 1e-5}
#   absolute floor = finite-difference noise = output noise / step.  Energies are stationary in P (noise ~1e-12 eV,
#   step 5e-4..1e-3 -> 2e-9), density outputs and forces carry the SCF error of P linearly (<= ~1e-10 -> 2e-7;
#   forces 1e-9..1e-8 eV/A -> 1e-5).  x10 / x5 / x2 head-room.
ATOL = {"Etot": 2e-8, "Hf": 2e-8, "e_mo": 1e-6, "gap": 1e-6, "q": 1e-6, "force": 2e-8, "mixed": 2e-5}
ZERO = {"Etot": 1e-9, "Hf": 1e-9, "e_mo": 1e-7, "gap": 1e-7, "q": 1e-7, "mixed": 1e-6}  # |fd| below: independent
H_PAR = 1e-3  # parameter step in units of the direction (which has the parameter's own scale); stencil (2h, h, h/2)
H_GEO = 2e-3  # Angstrom; stencil (2h, h, h/2)
# stencil (2h, h, h/2): the reported error estimate |R(2h,h) - R(h,h/2)| is ~15x the remainder of the value used;
# the finite difference is used when the estimate is below ROUGH_K x the comparison limit (remainder <= limit / 15)
ROUGH_K = 1.0
# second order, relative to max|H| (forces noise 1e-9..1e-8 / step 1e-3, |H|max ~ 50-100 eV/A^2)
HESS_SYM = 1e-6
HESS_RTOL = 1e-5
HESS_ATOL = 2e-5
VALUE_TOL = 1e-7  # forward values of a differentiated call vs the same values passed as plain tensors

PAT_A = [1.0, 0.7, 1.25, 0.85, 1.1, 0.6, 0.95]  # direction weights
PAT_B = [0.3, -0.5, 0.8, -0.2, 0.6, -0.7, 0.4]  # base point shift (x 2 %)
PAT_C = [1.0, -0.6, 0.8, 0.5, -0.9, 0.7, -0.4, 1.1, 0.3]  # e_mo cluster weights
KB_COL = [1.0, 0.8, 1.2, 0.9]
NONLEAF_W = (0.5, -1.0, 2.0)
GEO_SIGMA = 1.5
GEO_C = 0.05

_SETUPS = {}


# ------------------------------------------------------------------------------------------------ setup


def names_of(method):
    from seqm.basics import parameterlist

    return list(parameterlist[method]) + ["Kbeta"]


def _const():
    from seqm.seqm_functions.constants import Constants

    return Constants()


def get_mol(name):
    if name == "N2H4":  # hydrazine: the smallest closed shell with two like heavy atoms and no degenerate orbitals
        m = M.pair_molecule(7, 7)
        m["name"] = name
        return m
    return M.get(name)


def setup(method, molname, base, seed):
    """Everything that defines a lattice row's inputs; a deterministic function of (method, molecule, base, seed)."""
    key = (method, molname, base, int(seed))
    if key in _SETUPS:
        return _SETUPS[key]
    from seqm.Molecule import Molecule

    mol = M.apply(get_mol(molname), M.generic_rot(seed))
    n = len(mol["species"])
    Z = list(mol["species"])
    species = torch.as_tensor([Z], dtype=torch.int64)
    coords = torch.as_tensor(mol["coords"][None], dtype=torch.float64)
    names = names_of(method)
    # table values and the orbital spectrum (degeneracy decides which weight family is used)
    prm = sp.make_params(method, "adaptive", 1e-9)
    obs = sp.single_point(mol, prm, names=["e_mo"])
    molecule = Molecule(_const(), dict(prm), coords.clone(), species)
    nheavy = sum(1 for z in Z if z > 1)
    norb = 4 * nheavy + (n - nheavy)
    e = np.asarray(obs["e_mo"])[0][:norb]
    clusters = [0]
    for k in range(1, norb):
        clusters.append(clusters[-1] + (1 if e[k] - e[k - 1] > 1e-6 else 0))
    degenerate = len(set(clusters)) < norb
    rot = int(seed) % len(PAT_A)
    shift = 0.02 if base == "shifted" else 0.0

    def wa(i):  # per-atom weight index: species-wise if the molecule has degenerate orbitals
        return ((Z[i] if degenerate else i) + rot) % 7

    def wp(i, j, c):
        return (((Z[i] + 2 * Z[j]) if degenerate else (i + 2 * j)) + c + rot) % 7

    u = torch.tensor([PAT_A[wa(i)] for i in range(n)])
    t = torch.tensor([PAT_B[wa(i)] for i in range(n)])
    pairs = [(i, j) for i in range(n) for j in range(i + 1, n)]
    p0, dirs, scale, geoc = {}, {}, {}, {}
    for a, nm in enumerate(names):
        if nm == "Kbeta":
            uk = torch.tensor([[PAT_A[wp(i, j, 0)] * KB_COL[c] for c in range(4)] for i, j in pairs])
            tk = torch.tensor([[PAT_B[wp(i, j, c)] for c in range(4)] for i, j in pairs])
            p0[nm] = torch.ones(len(pairs), 4) * (1.0 + shift * tk)
            dirs[nm] = uk
            geoc[nm] = 0.0
            scale[nm] = 1.0
        else:
            tab = molecule.parameters[nm].detach().clone()
            sc = float(tab.abs().max())
            sc = sc if sc > 0 else 1.0
            p0[nm] = tab * (1.0 + shift * t)
            dirs[nm] = sc * u
            geoc[nm] = GEO_C * sc * (1.0 if a % 2 == 0 else -0.6)
            scale[nm] = sc
    cw = torch.tensor([PAT_C[(c + rot) % len(PAT_C)] for c in clusters])
    qw = torch.tensor([PAT_A[(2 * i + 3 + rot) % 7] * (1.0 if i % 2 == 0 else -1.0) for i in range(n)])
    ux = torch.tensor([[math.sin(1.0 + 2.1 * i + rot), math.cos(0.5 + 1.3 * i), math.sin(2.0 + 0.7 * i)] for i in range(n)])
    ux = ux / ux.abs().max()
    # derived facts: exactly coinciding orbital exponents on two different atoms (the overlap routine's beta = 0)
    zs, zp = p0["zeta_s"].tolist(), p0["zeta_p"].tolist()
    heavy = [i for i in range(n) if Z[i] > 1]
    eq_like = any(abs(zs[i] - zs[j]) < 1e-9 for i, j in pairs) or any(abs(zp[i] - zp[j]) < 1e-9 for i in heavy for j in heavy if i < j)
    eq_sp = any(abs(zs[i] - zp[j]) < 1e-9 for i in range(n) for j in heavy if i != j)
    S = dict(
        method=method, molname=molname, base=base, seed=int(seed), mol=mol, n=n, Z=Z, species=species, coords=coords,
        names=names, p0=p0, dirs=dirs, scale=scale, geoc=geoc, cw=cw, qw=qw, ux=ux, norb=norb, degenerate=degenerate,
        npairs=len(pairs), equal_like_exponents=bool(eq_like), equal_sp_exponents=bool(eq_sp),
    )  # fmt: skip
    S["s0"] = descriptor(species, coords).detach()
    _SETUPS[key] = S
    return S


def _S(t):
    return setup(t["method"], t["mol"], t["base"], t["seed"])


def descriptor(species, coordinates):
    """smooth per-atom geometric descriptor, flat over the real atoms of the batch (the order of Parser's Z)."""
    real = species > 0
    d2 = ((coordinates.unsqueeze(1) - coordinates.unsqueeze(2)) ** 2).sum(-1)
    w = torch.exp(-d2 / (2 * GEO_SIGMA**2))
    pairmask = (real.unsqueeze(1) & real.unsqueeze(2)) & ~torch.eye(species.shape[1], dtype=torch.bool).unsqueeze(0)
    s = (w * pairmask).sum(-1)
    return s[real]


def _tile(S, nm, nmol, what="p0"):
    v = S[what][nm]
    return v.repeat(nmol, 1) if nm == "Kbeta" else v.repeat(nmol)


class GeoParams:
    """callable(species, coordinates) -> dict: p_n = p0_n + c_n (s(x) - s(x0)) + d_n theta_n (+ offsets_n);
    theta_n are 0-dim root leaves (differentiated call) or absent (finite differences)."""

    def __init__(self, S, theta=None, offsets=None):
        self.S = S
        self.theta = theta
        self.offsets = offsets

    def __call__(self, species, coordinates):
        S = self.S
        nmol = species.shape[0]
        ds = descriptor(species, coordinates) - S["s0"].repeat(nmol)
        out = {}
        for nm in S["names"]:
            p = _tile(S, nm, nmol)
            if S["geoc"][nm] != 0.0:
                p = p + S["geoc"][nm] * ds
            if self.theta is not None:
                p = p + _tile(S, nm, nmol, "dirs") * self.theta[nm]
            if self.offsets is not None and nm in self.offsets:
                p = p + self.offsets[nm]
            out[nm] = p
        return out


def make_kind(kind, S):
    """-> (factory of the learned_parameters argument, roots dict, reducer(name, grad) -> directional derivative)."""
    names = S["names"]
    if kind == "leaf":
        roots = {nm: S["p0"][nm].clone().requires_grad_(True) for nm in names}
        learned = lambda: dict(roots)  # noqa: E731 - fresh dict per call (Pack_Parameters writes into it)
        red = lambda nm, g: float((g * S["dirs"][nm]).sum())  # noqa: E731
    elif kind == "nonleaf":
        # "network head": value = p0 + d * <w, tanh(theta)>, theta a root leaf (zeros) -> the tensor handed over has a grad_fn
        roots = {nm: torch.zeros(3, requires_grad=True) for nm in names}
        w = torch.tensor(NONLEAF_W)
        vals = {nm: S["p0"][nm] + S["dirs"][nm] * (w * torch.tanh(roots[nm])).sum() for nm in names}
        learned = lambda: dict(vals)  # noqa: E731
        red = lambda nm, g: float(g.sum()) / float(sum(NONLEAF_W))  # noqa: E731 - direction (1,1,1) in root space
    elif kind == "callable":
        roots = {nm: torch.zeros((), requires_grad=True) for nm in names}
        fn = GeoParams(S, theta=roots)
        learned = lambda: fn  # noqa: E731
        red = lambda nm, g: float(g)  # noqa: E731
    else:
        raise ValueError(kind)
    return learned, roots, red


def _params(S, solver, sb, **extra):
    learned = [nm for nm in S["names"] if nm != "Kbeta"]
    return sp.make_params(S["method"], solver, EPS, scf_backward=sb, learned=learned, eig=True, **extra)


def _outputs(S, Hf, Etot, e_gap, e, P, species):
    from seqm.ElectronicStructure import Electronic_Structure

    q = _const().tore[species] - Electronic_Structure.atomic_charges(P)
    return {
        "Etot": Etot.sum(),
        "Hf": Hf.sum(),
        "e_mo": (S["cw"] * e[0, : S["norb"]]).sum(),
        "gap": e_gap.sum(),
        "q": (S["qw"] * q[0]).sum(),
    }


# ------------------------------------------------------------------------------------------------ differentiated rows


def ad_row(row):
    """One differentiated call: (method, mol, base, seed, kind, sb, solver, order[, full])."""
    from seqm.basics import Energy
    from seqm.Molecule import Molecule

    S = _S(row)
    t0 = time.process_time()
    sb, kind, order = row["sb"], row["kind"], row["order"]
    out = dict(raised=None, nbackward=0, nforward=0, notconverged=False)
    try:
        learned, roots, red = make_kind(kind, S)
        prm = _params(S, row["solver"], sb)
        molecule = Molecule(_const(), prm, S["coords"].clone(), S["species"], learned_parameters=learned())
        molecule.verbose = False
        en = Energy(prm)
        Hf, Etot, _, _, _, _, e_gap, e, P, _, notconv = en(molecule, learned_parameters=learned(), all_terms=True)
        out["nforward"] = 1
        out["notconverged"] = bool(notconv.any())
        outs = _outputs(S, Hf, Etot, e_gap, e, P, S["species"])
        out["values"] = {k: float(v) for k, v in outs.items()}
        rootlist = [roots[nm] for nm in S["names"]]
        if order == 1:
            res = {}
            for oname in OUTPUTS:
                if sb == 0 and oname not in ENERGY_OUTPUTS:
                    continue
                r = dict(none=[], dd={}, nonfinite=[], gx=None)
                if not outs[oname].requires_grad:
                    r["none"] = list(S["names"])
                    res[oname] = r
                    continue
                tgt = rootlist + ([molecule.coordinates] if kind == "callable" else [])
                g = torch.autograd.grad(outs[oname], tgt, retain_graph=True, allow_unused=True)
                out["nbackward"] += 1
                for nm, gi in zip(S["names"], g):
                    if gi is None:
                        r["none"].append(nm)
                    elif not bool(torch.isfinite(gi).all()):
                        r["nonfinite"].append(nm)
                    else:
                        r["dd"][nm] = red(nm, gi)
                if kind == "callable" and g[-1] is not None:
                    r["gx"] = float((g[-1][0] * S["ux"]).sum())
                res[oname] = r
            out["grads"] = res
            if kind == "callable":
                out["driver_force_u"] = _driver_force_u(S, row["solver"], sb)
                out["nforward"] += 1
                out["nbackward"] += 1
        else:
            # second order by double backward through Energy (scf_backward = 2)
            x = molecule.coordinates
            g1 = torch.autograd.grad(outs["Hf"], x, create_graph=True)[0]
            out["nbackward"] += 1
            s = (g1[0] * S["ux"]).sum()
            g2 = torch.autograd.grad(s, [x] + rootlist, retain_graph=bool(row.get("full")), allow_unused=True)
            out["nbackward"] += 1
            out["Hu"] = None if g2[0] is None else g2[0][0].detach().numpy().copy().reshape(-1)
            mixed = dict(dd={}, none=[], nonfinite=[])
            for nm, gi in zip(S["names"], g2[1:]):
                if gi is None:
                    mixed["none"].append(nm)
                elif not bool(torch.isfinite(gi).all()):
                    mixed["nonfinite"].append(nm)
                else:
                    mixed["dd"][nm] = red(nm, gi)
            out["mixed"] = mixed
            if row.get("full"):
                g1f = g1.reshape(-1)
                H = np.zeros((g1f.numel(), g1f.numel()))
                for i in range(g1f.numel()):
                    gi = torch.autograd.grad(g1f[i], x, retain_graph=True)[0]
                    out["nbackward"] += 1
                    H[i] = gi.reshape(-1).detach().numpy()
                out["H"] = H
    except Exception as ex:  # noqa: BLE001 - an exception on a valid differentiable call is an observation
        import traceback

        out["raised"] = f"{type(ex).__name__}: {str(ex)[:300]}"
        out["trace"] = traceback.format_exc()[-1500:]
    out["cpu"] = time.process_time() - t0
    return out


def _driver_force_u(S, solver, sb):
    """F.u from the package's documented force driver with geometry-dependent (callable) parameters."""
    from seqm.ElectronicStructure import Electronic_Structure
    from seqm.Molecule import Molecule

    prm = _params(S, solver, sb)
    fn = GeoParams(S)
    molecule = Molecule(_const(), prm, S["coords"].clone(), S["species"], learned_parameters=fn)
    molecule.verbose = False
    es = Electronic_Structure(prm)
    es(molecule, learned_parameters=fn)
    return float((molecule.force[0] * S["ux"]).sum())


# ------------------------------------------------------------------------------------------------ finite differences


def _driver_batch(S, coords, learned, solver="adaptive"):
    """One call of the package's force driver on a batch (copies of the molecule); numpy observations."""
    from seqm.ElectronicStructure import Electronic_Structure
    from seqm.Molecule import Molecule

    nmol = coords.shape[0]
    species = S["species"].repeat(nmol, 1)
    prm = _params(S, solver, 0)
    lp = (lambda: learned) if callable(learned) else (lambda: dict(learned))
    molecule = Molecule(_const(), prm, coords.clone(), species, learned_parameters=lp())
    molecule.verbose = False
    es = Electronic_Structure(prm)
    es(molecule, learned_parameters=lp())
    q = _const().tore[species] - Electronic_Structure.atomic_charges(molecule.dm)
    return dict(
        Etot=molecule.Etot.detach().numpy().copy(),
        Hf=molecule.Hf.detach().numpy().copy(),
        e_mo=(molecule.e_mo.detach()[:, : S["norb"]] * S["cw"]).sum(1).numpy(),
        gap=molecule.e_gap.detach().numpy().copy(),
        q=(q.detach() * S["qw"]).sum(1).numpy(),
        Fu=(molecule.force.detach() * S["ux"]).sum((1, 2)).numpy(),
        force=molecule.force.detach().numpy().copy(),
        notconverged=es.notconverged.detach().numpy().copy(),
    )


STEPS = (1.0, -1.0, 0.5, -0.5, 2.0, -2.0)
NS = len(STEPS)


def _rich(vals, h):
    """vals at (+h, -h, +h/2, -h/2, +2h, -2h) -> (Richardson derivative from (h, h/2), error estimate).
    The estimate is |R(2h, h) - R(h, h/2)|: the h^4 remainder of R(2h, h) is 16x that of R(h, h/2), so the
    remainder of the value returned is about estimate / 15."""
    d1 = (vals[0] - vals[1]) / (2 * h)
    d2 = (vals[2] - vals[3]) / h
    d0 = (vals[4] - vals[5]) / (4 * h)
    r2 = (4 * d2 - d1) / 3
    r1 = (4 * d1 - d0) / 3
    return r2, np.abs(r1 - r2)


def fd_params(task):
    """Finite differences along the fixed direction of each name in task['names'] at fixed geometry.
    pkind 'const': plain parameter tensors; 'callable': the geometry-dependent callable plus the same offsets
    (differs from 'const' only in the forces).  singles: one single-molecule call per stencil point."""
    S = _S(task)
    t0 = time.process_time()
    names = task["names"]
    members = [(nm, s) for nm in names for s in STEPS] + [(None, 0.0)]

    def values_for(ms):
        nmol = len(ms)
        off = {}
        for nm in S["names"]:
            k = S["npairs"] if nm == "Kbeta" else S["n"]
            p = torch.zeros(nmol * k, 4) if nm == "Kbeta" else torch.zeros(nmol * k)
            for b, (mn, s) in enumerate(ms):
                if mn == nm:
                    p[b * k : (b + 1) * k] += s * H_PAR * S["dirs"][nm]
            off[nm] = p
        if task.get("pkind", "const") == "callable":
            learned = GeoParams(S, offsets=off)
        else:
            learned = {nm: v + _tile(S, nm, nmol) for nm, v in off.items()}
        return _driver_batch(S, S["coords"].repeat(nmol, 1, 1), learned)

    if task.get("singles"):
        parts = [values_for([m]) for m in members]
        obs = {k: np.concatenate([p[k] for p in parts]) for k in parts[0]}
    else:
        obs = values_for(members)
    res = {}
    for a, nm in enumerate(names):
        sl = slice(NS * a, NS * a + NS)
        r = {}
        for oname in OUTPUTS + ("Fu",):
            d, rough = _rich(obs[oname][sl], H_PAR)
            r[oname] = (float(d), float(rough))
        r["notconverged"] = bool(obs["notconverged"][sl].any())
        res[nm] = r
    centre = {k: float(obs[k][-1]) for k in OUTPUTS + ("Fu",)}
    return dict(fd=res, centre=centre, centre_nc=bool(obs["notconverged"][-1]), nmembers=len(members), cpu=time.process_time() - t0)


def fd_geometry(task):
    """Finite differences in the coordinates: dHf/du and the Hessian as the FD of the driver's forces.
    pkind 'const': constant parameters p0; 'callable': geometry-dependent parameters."""
    S = _S(task)
    t0 = time.process_time()
    n = S["n"]
    disp = [S["ux"]]
    if task.get("full", True):
        for i in range(n):
            for c in range(3):
                d = torch.zeros(n, 3)
                d[i, c] = 1.0
                disp.append(d)
    members = [(k, s) for k in range(len(disp)) for s in STEPS]

    def values_for(ms):
        coords = torch.stack([S["coords"][0] + s * H_GEO * disp[k] for k, s in ms])
        if task["pkind"] == "callable":
            learned = GeoParams(S)
        else:
            learned = {nm: _tile(S, nm, len(ms)) for nm in S["names"]}
        return _driver_batch(S, coords, learned)

    if task.get("singles"):
        parts = [values_for([m]) for m in members]
        obs = {k: np.concatenate([p[k] for p in parts]) for k in parts[0]}
    else:
        obs = values_for(members)
    dHf_u, rough_u = _rich(obs["Hf"][0:NS], H_GEO)
    rows, rough = [], 0.0
    for k in range(len(disp)):
        sl = slice(NS * k, NS * k + NS)
        d, r = _rich(-obs["force"][sl].reshape(NS, -1), H_GEO)  # -dF/dx_k = row k of the Hessian
        rows.append(d)
        rough = max(rough, float(r.max()))
    return dict(dHf_u=float(dHf_u), rough_u=float(rough_u), Hu=rows[0], H=np.array(rows[1:]) if len(rows) > 1 else None,
                rough=rough, notconverged=bool(obs["notconverged"].any()), nmembers=len(members), cpu=time.process_time() - t0)  # fmt: skip


def _task(t):
    return {"ad": ad_row, "fdp": fd_params, "fdg": fd_geometry}[t["type"]](t)


# ------------------------------------------------------------------------------------------------ lattice


def lattice(tier, seed):
    if tier == "quick":
        setups = [("MNDO", "H2O", "table"), ("AM1", "H2O", "table"), ("PM3", "H2O", "table"), ("PM3", "CH3Cl", "table"), ("MNDO", "N2H4", "table")]
    else:
        setups = [(m, mol, b) for m in METHODS for mol in ("H2O", "H2CO", "CH3Cl", "N2H4") for b in ("table", "shifted")]
    rows = []
    for method, mol, base in setups:
        for kind in KINDS:
            for solver in SOLVERS:
                common = dict(type="ad", method=method, mol=mol, base=base, seed=seed, kind=kind, solver=solver)
                for sb in (0, 1, 2):
                    rows.append(dict(common, sb=sb, order=1, full=False))
                rows.append(dict(common, sb=2, order=2, full=(solver == "fixed0.3" and kind in ("leaf", "callable"))))
    return setups, rows


ROW_FIELDS = ("method", "mol", "base", "seed", "kind", "sb", "solver", "order", "full")


def row_key(r):
    return f"{r['method']}|{r['mol']}|{r['base']}|{r['kind']}|sb{r['sb']}|{r['solver']}|o{r['order']}"


def describe(r, name, output, what, problem, **more):
    S = _S(r)
    d = dict(
        method=r["method"], molecule=r["mol"], base=r["base"], parameter=name, scf_backward=r["sb"], kind=r["kind"],
        solver=r["solver"], output=output, order=r["order"], what=what, problem=problem,
        parameter_in_rho_root=name in RHO_ROOT, parameter_is_one_centre_2e=name in ONE_CENTRE_2E,
        parameter_is_exponent=name in ("zeta_s", "zeta_p"), output_is_energy=output in ENERGY_OUTPUTS,
        equal_like_exponents=S["equal_like_exponents"], equal_sp_exponents=S["equal_sp_exponents"],
        degenerate_orbitals=S["degenerate"],
    )  # fmt: skip
    d.update(more)
    return d


def _fmt(x):
    if not x:
        return "0"
    return f"1e{int(math.floor(math.log10(abs(x))))}"


def judge_scalar(res, rtol, atol, zero):
    """res: ad, none, nonfinite, fd, rough, notconverged -> (status, err, lim)."""
    if res.get("raised"):
        return "raised", None, None
    if res["notconverged"]:
        return "notconverged", None, None
    fd = res["fd"]
    if res["nonfinite"]:
        return "nonfinite", None, None
    if res["none"] or res["ad"] is None:
        if res["rough"] > ROUGH_K * zero:
            return "rough", None, None
        return ("ok-independent", 0.0, zero) if abs(fd) <= zero else ("none", abs(fd), zero)
    err = abs(res["ad"] - fd)
    lim = rtol * max(abs(res["ad"]), abs(fd)) + atol
    if res["rough"] > ROUGH_K * lim:  # stencil not in its asymptotic regime: the oracle is not applied
        return "rough", None, None
    return ("ok" if err <= lim else "mismatch"), err, lim


def judge_hessian(what, a, g):
    """-> (status, err, lim, detail)."""
    if g["notconverged"] or a.get("notconverged"):
        return "notconverged", None, None, ""
    if g["rough"] > ROUGH_K * (HESS_RTOL * float(np.abs(g["Hu"]).max()) + HESS_ATOL):
        return "rough", None, None, ""
    if what == "Hu":
        if a.get("Hu") is None:
            return "none", None, None, "gradient of dHf/dx.u w.r.t. the coordinates is None"
        if not np.isfinite(a["Hu"]).all():
            return "nonfinite", None, None, ""
        scale = max(float(np.abs(g["Hu"]).max()), 1e-12)
        err, lim = float(np.abs(a["Hu"] - g["Hu"]).max()), HESS_RTOL * scale + HESS_ATOL
        return ("ok" if err <= lim else "mismatch"), err, lim, f"H.u: max|autograd - FD of forces| = {err:.3e} eV/A^2 (limit {lim:.1e}, |H.u|max {scale:.3g})"
    H = a["H"]
    if not np.isfinite(H).all():
        return "nonfinite", None, None, ""
    scale = max(float(np.abs(g["H"]).max()), 1e-12)
    if what == "Hsym":
        err, lim = float(np.abs(H - H.T).max()), HESS_SYM * scale
        return ("ok" if err <= lim else "asymmetric"), err, lim, f"Hessian asymmetry max|H - H^T| = {err:.3e} (limit {lim:.1e}, |H|max {scale:.3g})"
    err, lim = float(np.abs(H - g["H"]).max()), HESS_RTOL * scale + HESS_ATOL
    return ("ok" if err <= lim else "mismatch"), err, lim, f"Hessian: max|autograd - FD of forces| = {err:.3e} eV/A^2 (limit {lim:.1e}, |H|max {scale:.3g})"


def points_of_row(r, S):
    """the lattice points (name, output, what) judged from one row, in a fixed order."""
    pts = []
    if r["order"] == 1:
        for oname in OUTPUTS:
            for nm in S["names"]:
                pts.append((nm, oname, "grad"))
        if r["kind"] == "callable":
            pts.append(("coordinates", "Hf", "force"))
            pts.append(("coordinates", "Hf", "driver_force"))
    else:
        for nm in S["names"]:
            pts.append((nm, "force", "mixed"))
        pts.append(("coordinates", "force", "Hu"))
        if r.get("full"):
            pts.append(("coordinates", "force", "H"))
            pts.append(("coordinates", "force", "Hsym"))
    return pts


def judge_point(r, a, pt, fdp, fdpc, fdg):
    """One lattice point.  fdp / fdpc: name -> finite differences (plain / callable offsets); fdg: geometry FD of
    the row's parameter kind.  -> (status, err, lim, ad, fd, dependent, detail)."""
    nm, oname, what = pt
    sb = r["sb"]
    if what == "grad":
        if sb == 0 and oname not in ENERGY_OUTPUTS:
            return "not-claimed", None, None, None, None, False, ""
        f, g = fdp[nm], a["grads"][oname]
        res = dict(ad=g["dd"].get(nm), none=nm in g["none"], nonfinite=nm in g["nonfinite"], fd=f[oname][0], rough=f[oname][1], notconverged=f["notconverged"])
        st, err, lim = judge_scalar(res, RTOL[sb], ATOL[oname], ZERO[oname])
        return st, err, lim, res["ad"], res["fd"], abs(res["fd"]) > ZERO[oname], ""
    if what == "mixed":
        f, g = (fdpc if r["kind"] == "callable" else fdp)[nm], a["mixed"]
        # d(dHf/dx . u)/dparam = -d(F.u)/dparam
        res = dict(ad=g["dd"].get(nm), none=nm in g["none"], nonfinite=nm in g["nonfinite"], fd=-f["Fu"][0], rough=f["Fu"][1], notconverged=f["notconverged"])
        st, err, lim = judge_scalar(res, RTOL[2], ATOL["mixed"], ZERO["mixed"])
        return st, err, lim, res["ad"], res["fd"], abs(res["fd"]) > ZERO["mixed"], ""
    if what in ("force", "driver_force"):
        ad = a["grads"]["Hf"]["gx"] if what == "force" else -a["driver_force_u"]
        res = dict(ad=ad, none=ad is None, nonfinite=ad is not None and not math.isfinite(ad), fd=fdg["dHf_u"], rough=fdg["rough_u"], notconverged=fdg["notconverged"])
        st, err, lim = judge_scalar(res, RTOL[sb], ATOL["force"], 0.0)
        return st, err, lim, ad, res["fd"], True, ""
    st, err, lim, detail = judge_hessian(what, a, fdg)
    return st, err, lim, None, None, True, detail


# ------------------------------------------------------------------------------------------------ replay


def confirm_point(c):
    """Re-evaluate ONE lattice point in this process: the differentiated call again, finite differences with
    single-molecule calls.  c: row fields + name, output, what."""
    r = {k: c[k] for k in ROW_FIELDS}
    r["type"] = "ad"
    a = ad_row(r)
    if a["raised"]:
        return "raised", None, None, None, None, True, a["raised"]
    nm, what = c["name"], c["what"]
    fdp = fdpc = fdg = None
    base = dict(method=c["method"], mol=c["mol"], base=c["base"], seed=c["seed"], singles=True)
    if what in ("grad", "mixed"):
        f = fd_params(dict(base, names=[nm], pkind="callable" if (what == "mixed" and c["kind"] == "callable") else "const"))["fd"]
        fdp = fdpc = f
    else:
        fdg = fd_geometry(dict(base, pkind="callable" if c["kind"] == "callable" else "const", full=what in ("H", "Hsym")))
    return judge_point(r, a, (nm, c["output"], what), fdp, fdpc, fdg)


def replay(payload):
    if isinstance(payload.get("replay"), dict) and payload["replay"].get("training_loop"):
        it = payload["replay"]["training_loop"]
        r = training_loop_task((it[0], list(it[1]), list(it[2]), it[3], it[4]))
        print(r)
        return all(v[0] <= 1e-5 for v in r["dev"].values())
    if isinstance(payload.get("replay"), dict) and payload["replay"].get("uhf"):
        r = uhf_task(tuple(payload["replay"]["uhf"]))
        print(r)
        return "res" in r and all(abs(v["ad"] - v["fd"]) <= 1e-5 * max(abs(v["fd"]), 1.0) + 2e-6 for v in r["res"].values())
    if isinstance(payload.get("replay"), dict) and payload["replay"].get("interleaved"):
        r = interleaved_task(tuple(payload["replay"]["interleaved"]))
        print(r)
        return all(v <= 1e-9 for v in r["dev"].values())
    c = payload["replay"]
    st, err, lim, ad, fd, _, detail = confirm_point(c)
    print(f"   {row_key(c)} | {c['name']} | {c['output']} | {c['what']}: status {st}; autograd {ad!r}; finite difference {fd!r}; |diff| {err} limit {lim} {detail}")
    return st.startswith("ok") or st in ("notconverged", "rough", "not-claimed")


# ------------------------------------------------------------------------------------------------ run


def _cost(t):
    if t["type"] != "ad":
        return 4.0
    big = {"H2O": 1.0, "H2CO": 2.0, "CH3Cl": 2.5, "N2H4": 2.5}.get(t["mol"], 2.0)
    if t["order"] == 2:
        return big * (12.0 if t.get("full") else 2.0)
    return big * {0: 1.0, 1: 4.0, 2: 3.0}[t["sb"]] * (1.5 if t["kind"] == "callable" else 1.0)


def _run_tasks(tasks, label):
    order = sorted(range(len(tasks)), key=lambda i: -_cost(tasks[i]))  # longest first
    out = pmap(_task, [tasks[i] for i in order], chunk=1, timeout=1800, progress=label)
    res = [None] * len(tasks)
    for i, r in zip(order, out):
        res[i] = r
    return res


def _fd_tasks(setups, seed, singles=False, only=None):
    """only: None (everything) or dict setup -> dict(names=set, names_callable=set, geo=set of (pkind, full))."""
    tasks = []
    for m, mol, b in setups:
        S = setup(m, mol, b, seed)
        common = dict(method=m, mol=mol, base=b, seed=seed, singles=singles)
        want = None if only is None else only.get((m, mol, b), dict(names=set(), names_callable=set(), geo=set()))
        for pk, key in (("const", "names"), ("callable", "names_callable")):
            nms = [nm for nm in S["names"] if want is None or nm in want[key]]
            per = 1 if singles else 5
            for i in range(0, len(nms), per):
                tasks.append(dict(common, type="fdp", names=nms[i : i + per], pkind=pk))
        for pk in ("const", "callable"):
            if want is None:
                tasks.append(dict(common, type="fdg", pkind=pk, full=True))
            else:
                fulls = [f for (p, f) in want["geo"] if p == pk]
                if fulls:
                    tasks.append(dict(common, type="fdg", pkind=pk, full=any(fulls)))
    return tasks


def _collect_fd(tasks, results):
    FDP, FDPC, FDG, CENTRE = {}, {}, {}, {}
    for t, r in zip(tasks, results):
        k = (t["method"], t["mol"], t["base"])
        if t["type"] == "fdp":
            tgt = FDPC if t["pkind"] == "callable" else FDP
            tgt.setdefault(k, {}).update(r["fd"])
            if t["pkind"] == "const":
                CENTRE[k] = r["centre"]
        else:
            FDG[k + (t["pkind"],)] = r
    return FDP, FDPC, FDG, CENTRE


def interleaved_task(item):
    """forward of a differentiable calculation, then UNRELATED package calls, then its backward: the gradients must be
    those of forward immediately followed by backward (the adjoint solve belongs to its own forward call)."""
    import torch
    from seqm.basics import Energy

    from ..drivers import sp

    method, molname, sb, between, seed = item
    mol = M.apply(M.get(molname), M.generic_rot(seed))
    names = ["U_ss", "g_ss", "beta_s"]

    def grads(interleave):
        plain, _ = sp.build([mol], sp.make_params(method, eps=1e-10))
        base = {n: plain.parameters[n].detach().clone() for n in names}
        params = dict(sp.make_params(method, eps=1e-10), scf_backward=sb, learned=list(names))
        nat = len(mol["species"])
        w = torch.zeros(len(names), nat, dtype=torch.float64, requires_grad=True)
        lp = {n: base[n] * (1.0 + w[i]) for i, n in enumerate(names)}
        molecule, _ = sp.build([mol], params, learned=lp)
        molecule.verbose = False
        en = Energy(params)
        Hf, Etot, Eelec, Enuc, Eiso, EnucAB, e_gap, e, P, charge, nc = en(molecule, learned_parameters=lp, all_terms=True)
        q = P.diagonal(dim1=1, dim2=2)[0, :4].sum()
        outs = {"gap": e_gap.sum(), "q0": q, "Etot": Etot.sum()}
        if interleave:
            for what in between:
                if what == "sp0":
                    sp.single_point(M.apply(M.get("CH4"), M.generic_rot(seed + 1)), sp.make_params("PM3", eps=1e-5), names=["Etot"])
                elif what == "sp1loose":
                    p2 = dict(sp.make_params("MNDO", eps=1e-4), scf_backward=1)
                    m2, _ = sp.build([M.apply(M.get("NH3"), M.generic_rot(seed))], p2)
                    m2.verbose = False
                    Energy(p2)(m2, all_terms=True)
        res = {}
        for k, o in outs.items():
            (g,) = torch.autograd.grad(o, w, retain_graph=True, allow_unused=True)
            res[k] = None if g is None else g.detach().numpy().copy()
        return res

    a = grads(False)
    b = grads(True)
    dev = {}
    for k in a:
        if a[k] is None or b[k] is None:
            dev[k] = float("inf") if (a[k] is None) != (b[k] is None) else 0.0
        else:
            dev[k] = float(np.abs(a[k] - b[k]).max() / max(1e-12, np.abs(a[k]).max()))
    return {"dev": dev}


def training_loop_task(item):
    """forward / backward / in-place update of the caller's leaf tensors / forward ... on the SAME Molecule and Energy
    objects (what every training loop does): at every step the value and the gradients must be those of freshly built
    objects at the current parameter values, whatever the objects remember from earlier steps."""
    import torch
    from seqm.basics import Energy

    from ..drivers import sp

    method, molnames, names, sb, seed = item
    mols = [M.apply(M.get(n), M.generic_rot(seed + k)) for k, n in enumerate(molnames)]
    plain, _ = sp.build(mols, sp.make_params(method, eps=1e-10))
    base = {n: plain.parameters[n].detach().clone() for n in names}

    def evaluate(molecule, en, lp):
        out = en(molecule, learned_parameters=lp, all_terms=True)
        Hf, e_gap = out[0], out[6]
        res = {"Hf": Hf.detach().numpy().copy()}
        # density-dependent outputs are differentiable with the implicit / unrolled backward modes only (statement)
        for lab, o in (("dHf", Hf.sum()), ("dgap", e_gap.sum())) if sb else (("dHf", Hf.sum()),):
            gs = torch.autograd.grad(o, [lp[n] for n in names], retain_graph=True, allow_unused=True)
            for n, g in zip(names, gs):
                res[f"{lab}/d{n}"] = None if g is None else g.detach().numpy().copy()
        return res

    def fresh(values):
        params = dict(sp.make_params(method, eps=1e-10), scf_backward=sb, learned=list(names))
        lp = {n: values[n].detach().clone().requires_grad_(True) for n in names}
        molecule, _ = sp.build(mols, params, learned=lp)
        molecule.verbose = False
        return evaluate(molecule, Energy(params), lp)

    params = dict(sp.make_params(method, eps=1e-10), scf_backward=sb, learned=list(names))
    theta = {n: base[n].clone().requires_grad_(True) for n in names}
    molecule, _ = sp.build(mols, params, learned=theta)
    molecule.verbose = False
    en = Energy(params)
    dev = {}
    # the schedule of in-place updates: every second name, then the others, then all
    scheds = [names[1::2] or names, names[0::2], names]
    for step in range(len(scheds) + 1):
        a = evaluate(molecule, en, theta)
        b = fresh(theta)
        for k in a:
            if a[k] is None or b[k] is None:
                d = float("inf") if (a[k] is None) != (b[k] is None) else 0.0
            else:
                d = float(np.abs(a[k] - b[k]).max() / max(1e-9, np.abs(b[k]).max()))
            if d > dev.get(k, (0.0, 0))[0]:
                dev[k] = (d, step)
        if step < len(scheds):
            with torch.no_grad():
                for j, n in enumerate(scheds[step]):
                    i = torch.arange(theta[n].numel(), dtype=torch.float64).reshape(theta[n].shape)
                    theta[n].mul_(1.0 + 0.02 * torch.cos(1.3 * i + j + step))
    return {"dev": dev}


def training_loops(chk, tier, seed):
    sets = {
        "AM1": [["alpha", "Gaussian1_K", "Gaussian2_L", "Gaussian1_M"], ["U_ss", "zeta_p", "g_pp"], ["beta_s", "alpha"]],
        "PM3": [["alpha", "Gaussian1_K", "Gaussian2_K", "Gaussian1_L"]],
        "MNDO": [["alpha", "zeta_s", "g_ss"]],
    }
    items = []
    for method, lst in sets.items():
        for names in lst:
            for sb in (1, 2) if tier == "quick" else (0, 1, 2):
                items.append((method, ["H2CO", "H2O"], names, sb, seed))
                if tier != "quick":
                    items.append((method, ["NH3"], names, sb, seed))
    res = pmap(training_loop_task, items, chunk=1, timeout=1800, progress="C07 training loops on the same objects")
    for it, r in zip(items, res):
        key = f"training_loop|{it[0]}|{'+'.join(it[1])}|{','.join(it[2])}|sb{it[3]}"
        desc = dict(what="training_loop", method=it[0], molecule="+".join(it[1]), scf_backward=it[3], problem="mismatch", names=",".join(it[2]))
        if is_error(r) or is_timeout(r):
            chk.violation(dict(desc, problem="raised"), f"{key}: {str(r)[:300]}", replay={"training_loop": list(it)})
            continue
        worst = max((v[0] for v in r["dev"].values()), default=0.0)
        chk.case(key, nontrivial=True, outcome=f"{worst:.0e}")
        # measured on the healthy tree: see the module docstring of the evidence (<= 1e-7 relative)
        bad = {k: v for k, v in r["dev"].items() if v[0] > 1e-5}
        if bad:
            k0 = sorted(bad)[0]
            chk.violation(dict(desc, output=k0), f"{key}: re-used objects differ from fresh ones at the same parameter values (relative, step): {bad}", replay={"training_loop": list(it)})


def interleavings(chk, tier, seed):
    items = []
    for sb in (1, 2):
        for between in (["sp0"], ["sp1loose"], ["sp0", "sp1loose"]):
            items.append(("AM1", "H2O", sb, between, seed))
            if tier != "quick":
                items.append(("PM3", "H2CO", sb, between, seed))
    res = pmap(interleaved_task, items, chunk=1, timeout=1800, progress="C07 forward / other calls / backward")
    for it, r in zip(items, res):
        key = f"interleaved|{it[0]}|{it[1]}|sb{it[2]}|between={'+'.join(it[3])}"
        desc = dict(what="interleaved", method=it[0], molecule=it[1], scf_backward=it[2], problem="mismatch", between="+".join(it[3]))
        if is_error(r) or is_timeout(r):
            chk.violation(dict(desc, problem="raised"), f"{key}: {str(r)[:300]}", replay={"interleaved": list(it)})
            continue
        chk.case(key, nontrivial=True, outcome=str(max(r["dev"].values()) > 0))
        # measured on the healthy tree: bitwise identical (0.0)
        bad = {k: v for k, v in r["dev"].items() if v > 1e-9}
        if bad:
            chk.violation(dict(desc, output=sorted(bad)[0]), f"{key}: gradients change when other calculations run between forward and backward (relative): {bad}", replay={"interleaved": list(it)})


# ------------------------------------------------------------------------------------------------ unrestricted references

UHF_NAMES = ["U_ss", "U_pp", "zeta_s", "zeta_p", "beta_s", "beta_p", "g_ss", "g_sp", "g_pp", "g_p2", "h_sp", "alpha"]


def uhf_task(item):
    """Open-shell molecule under an unrestricted reference, every name of UHF_NAMES supplied as a caller leaf tensor:
    the directional derivative of Etot and of the (alpha + beta) gap along a species-wise direction (all atoms of an element
    move together, so symmetry-degenerate levels stay degenerate and differentiable), by reverse mode with scf_backward
    1 and 2, against a central finite difference of the same code."""
    from seqm.basics import Energy
    from seqm.Molecule import Molecule

    method, molname, sb, seed = item
    mol = M.apply(M.get(molname), M.generic_rot(seed))
    Z = list(mol["species"])
    base = sp.make_params(method, "adaptive", EPS, uhf=True)
    m0, _ = sp.build([mol], dict(base))
    tab = {nm: m0.parameters[nm].detach().clone() for nm in UHF_NAMES}
    w = torch.tensor([PAT_A[(z + int(seed)) % 7] for z in Z], dtype=torch.float64)
    dirs = {nm: (float(tab[nm].abs().max()) or 1.0) * w for nm in UHF_NAMES}

    def evaluate(vals, grad):
        params = sp.make_params(method, "adaptive", EPS, uhf=True, scf_backward=sb, learned=list(UHF_NAMES))
        lp = {nm: vals[nm].clone().requires_grad_(grad) for nm in UHF_NAMES}
        molecule, _ = sp.build([mol], params, learned=lp)
        molecule.verbose = False
        en = Energy(params)
        with torch.set_grad_enabled(True):
            Hf, Etot, Eelec, Enuc, Eiso, EnucAB, e_gap, e, P, charge, nc = en(molecule, learned_parameters=lp, all_terms=True)
        return {"Etot": Etot.sum(), "gap": e_gap.sum()}, lp, bool(nc.any())

    outs, lp, nc = evaluate(tab, True)
    if nc:
        return {"excluded": "scf not converged"}
    res = {}
    for oname, val in outs.items():
        g = torch.autograd.grad(val, [lp[nm] for nm in UHF_NAMES], retain_graph=True, allow_unused=True)
        for nm, gi in zip(UHF_NAMES, g):
            res[(oname, nm)] = {"ad": float((gi * dirs[nm]).sum()) if gi is not None else 0.0}  # unused = does not depend on it
    h = 2e-5
    for nm in UHF_NAMES:
        vp_ = {k: v.clone() for k, v in tab.items()}
        vm_ = {k: v.clone() for k, v in tab.items()}
        vp_[nm] = tab[nm] + h * dirs[nm]
        vm_[nm] = tab[nm] - h * dirs[nm]
        with torch.no_grad():
            op, _, _ = evaluate(vp_, False)
            om, _, _ = evaluate(vm_, False)
        for oname in outs:
            res[(oname, nm)]["fd"] = float((op[oname] - om[oname]) / (2 * h))
    return {"res": {f"{a}|{b}": v for (a, b), v in res.items()}}


def uhf_section(chk, tier, seed):
    mols = ["CH3", "NH2"] if tier == "quick" else ["CH3", "NH2", "OH", "CH2", "O2"]
    items = [(meth, m, sb, seed) for meth in (["AM1"] if tier == "quick" else ["MNDO", "AM1", "PM3"]) for m in mols for sb in (1, 2)]
    res = pmap(uhf_task, items, chunk=1, timeout=1200, progress="C07 unrestricted references")
    for it, r in zip(items, res):
        key0 = f"uhf|{it[0]}|{it[1]}|sb={it[2]}"
        desc0 = {"part": "uhf", "method": it[0], "molecule": it[1], "scf_backward": it[2]}
        if is_timeout(r) or is_error(r):
            chk.violation(desc0, f"{key0}: {str(r)[:300]}", replay={"uhf": list(it)})
            continue
        if "excluded" in r:
            chk.excluded += 1
            continue
        for k, v in r["res"].items():
            oname, nm = k.split("|")
            fd, ad = v["fd"], v["ad"]
            chk.case(f"{key0}|{oname}|{nm}", nontrivial=abs(fd) > 1e-6, outcome=f"{fd:.3e}")
            # healthy tree (AM1 CH3/NH2, both modes): |ad - fd| <= 3e-7 absolute on derivatives of size 1e-2 .. 1e2
            tol = 1e-5 * max(abs(fd), 1.0) + 2e-6
            if ad is None or abs(ad - fd) > tol:
                chk.violation(dict(desc0, output=oname, name=nm), f"{key0}: d{oname}/d{nm} along the species-wise direction: reverse mode {ad} vs finite difference {fd:.8g} (tolerance {tol:.1e})", replay={"uhf": list(it)})


def run(chk, tier, seed):
    import vp

    vp.warm()
    uhf_section(chk, tier, seed)
    interleavings(chk, tier, seed)
    training_loops(chk, tier, seed)
    setups, rows = lattice(tier, seed)
    for m, mol, b in setups:
        setup(m, mol, b, seed)  # in the parent: forked children inherit the cache
    # determinism: one differentiated row twice in two processes must agree bitwise
    probe = next(r for r in rows if r["sb"] == 1)
    two = pmap(_task, [probe, dict(probe)], chunk=1, timeout=900)
    if any(is_error(x) or is_timeout(x) for x in two) or two[0].get("grads") != two[1].get("grads"):
        chk.harness_error(f"the same differentiated case executed in two processes did not agree bitwise or failed: {str(two)[:400]}")
        return
    fd_tasks = _fd_tasks(setups, seed)
    results = _run_tasks(rows + fd_tasks, "C07 lattice rows + batched finite differences")
    res_rows, res_fd = results[: len(rows)], results[len(rows) :]
    for t, r in zip(fd_tasks, res_fd):
        if is_error(r) or is_timeout(r):
            chk.harness_error(f"finite-difference task {t} failed: {str(r)[:600]}")
            return
    FDP, FDPC, FDG, CENTRE = _collect_fd(fd_tasks, res_fd)
    cpu = {"ad": 0.0, "fd": sum(r["cpu"] for r in res_fd), "confirm": 0.0}
    counts = dict(nforward=0, nbackward=0, fd_members=sum(r["nmembers"] for r in res_fd))
    worst = {}
    planned = 0
    suspects = []  # (row index, point, first-pass verdict)

    def note(r, pt, err, lim, key):
        if lim and err is not None:
            k = f"sb{r['sb']}:{pt[1] if pt[2] == 'grad' else pt[2]}"
            if err / lim > worst.get(k, (0.0, ""))[0]:
                worst[k] = (err / lim, key)

    def settle(r, pt, verdict):
        """register one judged lattice point; returns True if it is a failure."""
        st, err, lim, ad, fd, dep, detail = verdict
        key = f"{row_key(r)}|{pt[0]}|{pt[1]}|{pt[2]}"
        if st == "not-claimed":
            chk.excluded += 1
            return False
        if st in ("notconverged", "rough"):
            chk.excluded += 1
            chk.case(key, nontrivial=False, outcome=st)
            return False
        if st.startswith("ok"):
            chk.case(key, nontrivial=dep, outcome=f"{st}:{_fmt(err / lim if lim else 0)}")
            note(r, pt, err, lim, key)
            return False
        chk.case(key, nontrivial=True, outcome=st)
        return True

    for i, (r, a) in enumerate(zip(rows, res_rows)):
        S = _S(r)
        rk = row_key(r)
        k3 = (r["method"], r["mol"], r["base"])
        pts = points_of_row(r, S)
        planned += len(pts)
        rp = {k: r[k] for k in ROW_FIELDS}
        if is_error(a) or is_timeout(a):
            chk.case(rk, nontrivial=True, outcome="did-not-complete")
            chk.violation(describe(r, "*", "*", "row", "did_not_complete"), f"{rk}: {str(a)[:500]}", replay=dict(rp, name=S["names"][0], output="Etot", what="grad"))
            continue
        cpu["ad"] += a["cpu"]
        counts["nforward"] += a["nforward"]
        counts["nbackward"] += a["nbackward"]
        if a["raised"]:  # the call must accept the tensors
            chk.case(rk, nontrivial=True, outcome="raised")
            chk.violation(describe(r, "*", "*", "row", "raised", exception=a["raised"][:100]), f"{rk}: the differentiable call raised {a['raised']}",
                          replay=dict(rp, name=S["names"][0], output="Etot", what="grad"))  # fmt: skip
            continue
        if a["notconverged"]:
            chk.excluded += len(pts)
            chk.case(rk, nontrivial=False, outcome="notconverged")
            continue
        cen = CENTRE[k3]
        for oname in OUTPUTS:  # same values as plain tensors -> same outputs
            if abs(a["values"][oname] - cen[oname]) > VALUE_TOL * max(1.0, abs(cen[oname])):
                chk.violation(describe(r, "*", oname, "value", "value_differs_from_plain_call"),
                              f"{rk}: {oname} = {a['values'][oname]!r} with differentiable parameters, {cen[oname]!r} with the same values as plain tensors",
                              replay=dict(rp, name=S["names"][0], output=oname, what="grad"))  # fmt: skip
        fdg = FDG[k3 + ("callable" if r["kind"] == "callable" else "const",)]
        for pt in pts:
            v = judge_point(r, a, pt, FDP[k3], FDPC[k3], fdg)
            if v[0].startswith("ok") or v[0] in ("not-claimed", "notconverged", "rough"):
                settle(r, pt, v)
            else:
                suspects.append((i, pt, v))
    chk.planned = planned

    # ---- confirmation: every differentiated row already ran alone in its own fresh process (single molecule);
    # what was batched are the finite differences, so those are redone with single-molecule calls in fresh processes
    unconfirmed = []
    nviol_points = 0
    if suspects:
        only = {}
        for i, pt, _ in suspects:
            r = rows[i]
            w = only.setdefault((r["method"], r["mol"], r["base"]), dict(names=set(), names_callable=set(), geo=set()))
            if pt[2] == "grad":
                w["names"].add(pt[0])
            elif pt[2] == "mixed":
                w["names_callable" if r["kind"] == "callable" else "names"].add(pt[0])
            else:
                w["geo"].add(("callable" if r["kind"] == "callable" else "const", pt[2] in ("H", "Hsym")))
        fd2 = _fd_tasks(setups, seed, singles=True, only=only)
        rfd2 = _run_tasks(fd2, "C07 confirmation (fresh processes, single-molecule finite differences)")
        bad = [(t, x) for t, x in zip(fd2, rfd2) if is_error(x) or is_timeout(x)]
        if bad:
            chk.harness_error(f"confirmation finite-difference task failed: {str(bad[0])[:600]}")
            return
        cpu["confirm"] = sum(x["cpu"] for x in rfd2)
        counts["fd_members_confirmation"] = sum(x["nmembers"] for x in rfd2)
        FDP2, FDPC2, FDG2, _ = _collect_fd(fd2, rfd2)
        groups = {}
        for i, pt, v0 in suspects:
            r = rows[i]
            k3 = (r["method"], r["mol"], r["base"])
            a = res_rows[i]
            key = f"{row_key(r)}|{pt[0]}|{pt[1]}|{pt[2]}"
            fdg = FDG2.get(k3 + ("callable" if r["kind"] == "callable" else "const",))
            v = judge_point(r, a, pt, FDP2.get(k3, {}), FDPC2.get(k3, {}), fdg)
            if not settle(r, pt, v):
                unconfirmed.append(f"{key}: batched pass {v0[0]} ({v0[3]!r} vs {v0[4]!r}), singles {v[0]}")
                continue
            nviol_points += 1
            # one violation per lattice point up to the solver (the failing solvers are listed in the descriptor)
            gk = (r["method"], r["mol"], r["base"], r["kind"], r["sb"], r["order"], pt, v[0])
            groups.setdefault(gk, []).append((r, v, key))
        for gk, items in groups.items():
            r, v, key = items[0]
            st, err, lim, ad, fd, _, detail = v
            pt = gk[6]
            more = dict(solvers=",".join(sorted({x[0]["solver"] for x in items})))
            if ad is not None and fd is not None:
                more["rel_error"] = float(f"{err / max(abs(fd), 1e-300):.3g}")
                more["ad_over_fd"] = float(f"{ad / fd:.5g}") if fd else None
                detail = f"autograd {ad!r} vs finite difference {fd!r} (|diff| {err:.3e}, limit {lim:.1e})"
            elif st == "none":
                detail = f"autograd gradient is None although the finite difference is {err!r}"
            chk.violation(
                describe(r, pt[0], pt[1], pt[2], st, **more),
                f"{key} [solvers {more['solvers']}]: {st}: {detail}",
                replay=dict({k: r[k] for k in ROW_FIELDS}, name=pt[0], output=pt[1], what=pt[2]),
            )
    chk.extra["lattice_rows"] = len(rows)
    chk.extra["setups"] = [f"{m}/{mol}/{b}" for m, mol, b in setups]
    chk.extra["package_calls"] = dict(differentiated_forward=counts["nforward"], backward_passes=counts["nbackward"], finite_difference_members=counts["fd_members"],
                                     finite_difference_members_confirmation=counts.get("fd_members_confirmation", 0))
    chk.extra["cpu_seconds"] = {k: round(v, 1) for k, v in cpu.items()}
    chk.extra["suspects_from_batched_pass"] = len(suspects)
    chk.extra["failing_lattice_points_confirmed"] = nviol_points
    chk.extra["unconfirmed_by_singles"] = unconfirmed[:10]
    chk.extra["largest_healthy_error_over_limit"] = {k: f"{v[0]:.3g} at {v[1]}" for k, v in sorted(worst.items())}
    chk.extra["tolerance"] = (
        f"|ad-fd| <= RTOL[sb] max(|ad|,|fd|) + ATOL[out]; RTOL {RTOL}; ATOL {ATOL}; Hessian symmetry {HESS_SYM} |H|max, "
        f"vs FD {HESS_RTOL} |H|max + {HESS_ATOL}; steps {H_PAR} (parameter scale), {H_GEO} A, Richardson pairs; scf_eps {EPS}"
    )
    chk.extra["degenerate_spectrum"] = {f"{m}/{mol}": setup(m, mol, b, seed)["degenerate"] for m, mol, b in setups}
