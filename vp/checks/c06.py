"""C06  Energies equal the published NDDO model evaluated on the shipped parameters.

Explorer: exhaustive product lattice  method x element pair x distance x orientation x trial density
(closed and open shell).  Every lattice point is one execution of the real kernels
(`hcore`, the overlap kernel, `fock`, `fock_u_batch`, `G_XL_LR.G`, the CIS response build
`makeA_pi_batched`, `pair_nuclear_energy`) compared block by block with the independent scalar
reference model `vp.oracles.nddo_ref` (conformance replay), plus reference-free identities on the
package's own operators (linearity, UHF(P/2,P/2) == RHF(P), centre-exchange symmetry of w,
response == G).  A second section replays SCF single points of the molecule alphabet: Hcore, w and
the Fock matrix of the polyatomic block-wise, E_elec[P], E_nuc, E_iso, E_tot, Hf, and the reference SCF
restarted from the package's density (plus, informatively, from its own start).

Level: model_checking in the sense of DESIGN.md section 1 (S-lat against a reference model): states =
lattice points of the reference model evaluated, transitions = block comparisons, traces = lattice
points replayed against the implementation.  There is no transition system behind these numbers.
"""
import math

import numpy as np

from ..drivers import molecules as M
from ..drivers import sp
from ..oracles import nddo_ref as NR
from ..pool import is_error, is_timeout, pmap

PID = "C06"
LEVEL = "model_checking"
RULE = (
    "lattice = every element pair (ZA >= ZB) of each method's s/sp table (MNDO/AM1/PM3, H..Cl, principal quantum "
    "numbers 1-1 .. 3-3) x R in {0.6,0.9,1.2,1.6,2.2,3,5,8,15} A x orientation {+-x,+-y,+-z,+-generic} x trial densities "
    "{base + every symmetric one-hot, 2 fixed pseudo-random symmetric, idempotent} closed shell and {(P/2,P/2), "
    "(rand_a,rand_b), idempotent n_a != n_b, base/2 + one-hot in the alpha block} open shell; one lattice point = one "
    "diatomic pushed through the real hcore/overlap/fock/fock_u_batch/G/response/pair_nuclear_energy kernels and "
    "compared block by block (overlap, the 22 local and 100 rotated two-centre integrals, Hcore AA/BB/AB, E_nuc, every Fock "
    "matrix) with the scalar reference model; distinct = distinct (method, pair, R, orientation); "
    "plus SCF single points of the molecule alphabet (E_elec[P], E_nuc, E_iso, E_tot, Hf and the reference SCF "
    "restarted from the package density; Hcore, w and Fock matrices of the polyatomic compared block-wise as well). "
    "quick tier: X-H, X-X and a fixed list of mixed pairs, 5 distances, 8 orientations; thorough: all pairs, the 9 stated "
    "distances + 8 in-between + the two distances bracketing each junction of the B-integral algorithm, 12 orientations, "
    "every saturated heavy-pair molecule H_nX-YH_m."
)
ASSUMPTIONS = [
    "the reference model nddo_ref (point-charge multipoles, brentq additive terms, prolate-spheroidal quadrature, dense "
    "J/K) is a correct statement of the published MNDO/AM1/PM3 equations; it was written without the package's "
    "formulas and validated by internal identities (closed-form 1s-1s overlap, one-centre limits, invariance to "
    "rotations about the bond) in every run",
    "unit constants 27.21 eV/hartree, 0.529167 A/bohr, 23.061 kcal/mol/eV and the atomic heats of formation are those "
    "of the MOPAC parameterisations (part of the model, not of the implementation)",
    "B auxiliary integrals of the overlaps: MOPAC's 6th-order truncated series (pinned commit; effect <= 2.5e-7 on an "
    "overlap, a 1e-6 eV energy step where |R dzeta/2| crosses 0.5) and a converged series are both accepted as documented "
    "evaluations; a probe decides once per run which one the tree implements and everything is held to 1e-9 against it",
    "MOPAC conventions mirrored, not judged: h_pp floored at 0.1 eV in the rho2 condition only; PM3 two Gaussians; "
    "E_iso from the restricted average-of-configuration formula; 5-step secant for rho1/rho2 in the package versus the "
    "exact root in the reference (measured gap <= 1.4e-9 bohr, inside the 1e-7 eV integral tolerance)",
    "continuous domain decided on the stated finite alphabet only (distances off the grid, PM6/PM6_SP, d orbitals are "
    "not covered); CPU, float64",
    "(mu nu|la si) = (nu mu|la si) is structural in the packed storage of w and is not an observation; the centre "
    "exchange (mu nu|la si)(d) = (la si|mu nu)(-d) is checked on homonuclear pairs",
    "SCF totals: the reference SCF is restarted from the package's converged density (same basin); molecules the "
    "package reports not converged are excluded and counted; the reference SCF from its own start is informative only",
    "the shipped CSV parameter tables are an input shared by the package and the reference (own reader): a wrong digit "
    "in a table is invisible to this check",
]

R_FULL = [0.6, 0.9, 1.2, 1.6, 2.2, 3.0, 5.0, 8.0, 15.0]
R_QUICK = [0.6, 1.2, 2.2, 5.0, 15.0]
R_EXTRA = [0.75, 1.05, 1.4, 1.9, 2.6, 3.9, 6.5, 11.0]  # thorough only: second grid between the stated distances


def boundary_distances(method, ZA, ZB):
    """thorough only: one distance just below and one just above the junction |R (zeta_a - zeta_b)/2| = 0.5 of the
    B-integral algorithm (series <-> recursion) for the s-s and p-p exponent pairs, when it falls inside 0.6-15 A."""
    A, B = NR.Atom(method, ZA), NR.Atom(method, ZB)
    out = []
    for za, zb in ((A.zs, B.zs), (A.zp, B.zp), (A.zp, B.zs), (A.zs, B.zp)):
        if za > 0 and zb > 0 and abs(za - zb) > 1e-9:
            Rstar = 1.0 / abs(za - zb) * NR.A0
            if 0.6 <= Rstar <= 15.0:
                out += [round(Rstar * 0.999, 6), round(Rstar * 1.001, 6)]
            if len(out) >= 4:
                break
    return out


# Tolerances (derived, with measured head-room on the healthy tree, thorough tier, 64 288 lattice points):
#   two-centre integrals 1e-7 eV: the package's rho1/rho2 come from MOPAC's 5-step secant, <= 1.4e-9 bohr from the exact
#     root (NR.secant5_rho), i.e. <= ~1e-8 eV on an integral; measured max 4.4e-9 (AM1 S-O, 0.6 A)          -> x22
#   overlaps 1e-9 against the reference carrying MOPAC's documented B-series truncation; measured 7.8e-12     -> x100
#   Hcore AA/BB: 1e-7 x core charge of the partner; Hcore AB: 1e-9 x |beta_mu+beta_nu|/2; Fock: propagated
#     1e-7 x (core + 1.5 sum|P|); E_nuc: 1e-7 x Z_A Z_B (1 + f_A + f_B); energies: propagated, capped at 1e-6 relative
#   reference-free identities 1e-10: pure rounding (|F| <= 150 eV, eps 2e-16, < 100 operations); measured 5.7e-14
TOL_INT = 1e-7
TOL_S = 1e-9
TOL_ID = 1e-10

_GEN = [
    np.array([0.3, -0.5, 0.81]), np.array([-0.72, 0.11, 0.45]), np.array([0.19, 0.93, -0.31]),
    np.array([0.58, 0.57, 0.59]), np.array([-0.41, -0.83, 0.37]),
]  # fmt: skip
MIXED = [
    (8, 6), (7, 6), (9, 6), (8, 7), (9, 3), (9, 4), (6, 5), (16, 8), (17, 6), (14, 8), (15, 7), (13, 9), (11, 9),
    (12, 8), (17, 11), (17, 12), (17, 16), (16, 15), (14, 13), (15, 13), (17, 3), (13, 4), (14, 6),
]  # fmt: skip
METHODS = ["MNDO", "AM1", "PM3"]


def directions(tier, seed):
    g = _GEN[seed % 5] / np.linalg.norm(_GEN[seed % 5])
    d = [("+x", [1, 0, 0]), ("-x", [-1, 0, 0]), ("+y", [0, 1, 0]), ("-y", [0, -1, 0]), ("+z", [0, 0, 1]), ("-z", [0, 0, -1])]
    d += [("+g", g.tolist()), ("-g", (-g).tolist())]
    if tier != "quick":
        for k, lab in ((2, "g2"), (3, "g3")):
            g2 = _GEN[(seed + k) % 5] / np.linalg.norm(_GEN[(seed + k) % 5])
            d += [("+" + lab, g2.tolist()), ("-" + lab, (-g2).tolist())]
    return [(n, [float(x) for x in v]) for n, v in d]


def pair_list(method, tier):
    els = M.ELEMENTS[method]
    allp = [(a, b) for a in els for b in els if a >= b]
    if tier != "quick":
        return allp
    keep = [(a, b) for a, b in allp if b == 1 or a == b or (a, b) in MIXED]
    return keep


def _sym_onehots(n):
    out = []
    for m in range(n):
        for k in range(m, n):
            E = np.zeros((n, n))
            E[m, k] = E[k, m] = 1.0
            out.append(((m, k), E))
    return out


def _random_sym(n, member):
    rs = np.random.RandomState(77001 + 13 * member + n)
    A = rs.uniform(-1.0, 1.0, (n, n))
    return 0.5 * (A + A.T)


def _idempotent(H, nocc):
    e, C = np.linalg.eigh(H)
    return C[:, :nocc] @ C[:, :nocc].T


ORB = ["s", "px", "py", "pz"]


def _olabel(model, k):
    for i, a in enumerate(model.atoms):
        if model.off[i] <= k < model.off[i + 1]:
            return f"{ORB[k - model.off[i]]}{'AB'[i]}"
    return "?"


class _Cmp:
    """collect block comparisons of one lattice point."""

    def __init__(self):
        self.n = 0
        self.fails = []
        self.dev = {}

    def block(self, quantity, got, ref, tol, sub=""):
        got, ref = np.asarray(got, float), np.asarray(ref, float)
        d = np.abs(got - ref)
        tol = np.broadcast_to(np.asarray(tol, float), d.shape)
        self.n += 1
        bad = ~(d <= tol)  # NaN counts as bad
        md = float(np.nanmax(d)) if d.size else 0.0
        if not np.all(np.isfinite(got)):
            md = float("inf")
        self.dev[quantity] = max(self.dev.get(quantity, 0.0), md)
        if bad.any():
            idx = np.unravel_index(int(np.argmax(np.where(bad, d / np.maximum(tol, 1e-300), -1.0))), d.shape) if d.ndim else ()
            self.fails.append(
                dict(quantity=quantity, sub=sub, index=[int(i) for i in idx], got=float(got[idx]), ref=float(ref[idx]), dev=float(d[idx]), tol=float(tol[idx]), nbad=int(bad.sum()))
            )  # fmt: skip
            return False
        return True


def eval_pair(task):
    """all lattice points of one (method, ZA, ZB): returns per-point records."""
    from ..drivers.nddo import PairBatch

    method, ZA, ZB = task["method"], task["ZA"], task["ZB"]
    Rs, dirs, seed = task["Rs"], task["dirs"], task["seed"]
    geoms = [(R, np.array(v)) for R in Rs for _, v in dirs]
    names = [(R, n) for R in Rs for n, _ in dirs]
    pb = PairBatch(method, ZA, ZB, geoms)
    h = pb.hcore()
    S_pkg = pb.overlap()
    En = pb.enuc()
    n = pb.n
    acache, pcache = {}, {}
    ms = task.get("mopac_series", True)
    models = [NR.Model(method, [ZA, ZB], np.array([[0.0, 0.0, 0.0], R * d]), atom_cache=acache, pair_cache=pcache, mopac_series=ms) for R, d in geoms]
    A, B = models[0].atoms
    nA, nB = A.nao, B.nao
    cmps = [_Cmp() for _ in geoms]

    # ---- structural: nothing may leak into the padded p slots of hydrogen, lower block stays empty
    struct_note = []
    if h["pad_max"] != 0.0:
        struct_note.append(f"padded hydrogen p slots of Hcore are not zero (max {h['pad_max']:.3e})")

    # ---- integrals, overlaps, one-electron matrix, core repulsion
    beta_a = np.array([A.bs] + [A.bp] * (nA - 1))
    beta_b = np.array([B.bs] + [B.bp] * (nB - 1))
    bsum = 0.5 * (beta_a[:, None] + beta_b[None, :])
    for i, (mod, c) in enumerate(zip(models, cmps)):
        pr = mod.pairs[(0, 1)]
        Wp = h["W"][i][:nA, :nA, :nB, :nB]
        ok = c.block("w", Wp, pr["W"], TOL_INT)
        if not ok:
            # name the local-frame integrals that differ (rotate the package block into the reference frame)
            Wl = NR.rotate4(Wp, A, B, pr["E"].T)
            bad = [nm for nm, ix in NR.LOCAL22 if max(ix[:2]) < nA and max(ix[2:]) < nB and abs(Wl[ix] - pr["local"].W[ix]) > TOL_INT]
            c.fails[-1]["sub"] = ",".join(bad[:6]) or "rotation"
        # the 22 (X-X) / 4 (X-H) unique local-frame integrals hcore returns for the gradient code; the package's
        # sigma axis points from B to A, the reference's from A to B: odd powers of p_sigma change sign
        ril = h["ri"] if (nA == 4 and nB == 4) else (h["riXH"] if nA == 4 else None)
        if ril is not None:
            names22 = NR.LOCAL22 if nB == 4 else NR.LOCAL22[:4]
            ref22 = np.array([(-1.0) ** nm.count("o") * pr["local"].W[ix] for nm, ix in names22])
            okl = c.block("ri_local", ril[i], ref22, TOL_INT)
            if not okl:
                c.fails[-1]["sub"] = ",".join(nm for (nm, _), a_, b_ in zip(names22, ril[i], ref22) if abs(a_ - b_) > TOL_INT)[:80]
        Wfull = h["W"][i].copy()
        Wfull[:nA, :nA, :nB, :nB] = 0.0
        c.block("w_padding", Wfull, 0.0, 0.0)
        c.block("overlap", S_pkg[i][:nA, :nB], pr["S"], TOL_S)
        c.dev["overlap_series_effect"] = max(c.dev.get("overlap_series_effect", 0.0), float(np.max(np.abs(NR.rotate2(pr["local"].S_mopac, A, B, pr["E"]) - pr["S_exact"]))))
        c.dev["overlap_vs_exact"] = max(c.dev.get("overlap_vs_exact", 0.0), float(np.max(np.abs(S_pkg[i][:nA, :nB] - pr["S_exact"]))))
        Hp = h["H"][i]
        c.block("hcore_AA", Hp[:nA, :nA], mod.H[:nA, :nA], TOL_INT * B.core)
        c.block("hcore_BB", Hp[nA:, nA:], mod.H[nA:, nA:], TOL_INT * A.core)
        c.block("hcore_AB", Hp[:nA, nA:], mod.H[:nA, nA:], TOL_S * np.abs(bsum) + 1e-12)
        R_ang = geoms[i][0]
        fa, fb = math.exp(-A.alpha * R_ang), math.exp(-B.alpha * R_ang)
        tol_e = TOL_INT * A.core * B.core * (1.0 + fa * max(1.0, R_ang) + fb) + 1e-12 * abs(mod.enuc)
        c.block("enuc", En[i], mod.enuc, tol_e)

    # ---- centre exchange on homonuclear pairs: (mu nu|la si)(d) == (la si|mu nu)(-d), also for S and H
    if ZA == ZB:
        name_to_i = {nm: k for k, nm in enumerate(names)}
        for i, (R, nm) in enumerate(names):
            if not nm.startswith("+"):
                continue
            j = name_to_i[(R, "-" + nm[1:])]
            Wi, Wj = h["W"][i], h["W"][j]
            cmps[i].block("w_inversion", Wi, Wj.transpose(2, 3, 0, 1), TOL_ID)
            cmps[i].block("overlap_inversion", S_pkg[i], S_pkg[j].T, TOL_ID)

    # ---- trial densities
    oh = _sym_onehots(n)
    base = 0.7 * _random_sym(n, seed % 5)
    rnd2 = _random_sym(n, (seed + 1) % 5)
    ne = A.core + B.core
    nocc = min(max(1, (ne + 1) // 2), n - 1) if n > 1 else 1
    idem = np.stack([_idempotent(m.H, nocc) for m in models])  # per lattice point
    idem_b = np.stack([_idempotent(m.H, max(nocc - 1, 0)) for m in models])
    core_max = max(A.core, B.core)

    def tol_f(P):
        return TOL_INT * (core_max + 1.5 * float(np.sum(np.abs(P))))

    # closed shell
    F_base = pb.fock(base)
    for i, (mod, c) in enumerate(zip(models, cmps)):
        c.block("fock", F_base[i], mod.fock_closed(base), tol_f(base), sub="P=base")
        c.block("fock_symmetric", F_base[i], F_base[i].T, TOL_ID)
    F2 = pb.fock(rnd2)
    Fi = pb.fock(2.0 * idem)
    for i, (mod, c) in enumerate(zip(models, cmps)):
        c.block("fock", F2[i], mod.fock_closed(rnd2), tol_f(rnd2), sub="P=random2")
        c.block("fock", Fi[i], mod.fock_closed(2.0 * idem[i]), tol_f(2.0 * idem[i]), sub="P=idempotent")
    Gstack_ref = [mod.G_closed(np.stack([E for _, E in oh])) for mod in models]
    Gbase_ref = [mod.G_closed(base) for mod in models]
    G_oh = []
    for k, ((m_, k_), E) in enumerate(oh):
        Fk = pb.fock(base + E)
        Gk = pb.G(E)
        G_oh.append(Gk)
        for i, (mod, c) in enumerate(zip(models, cmps)):
            lab = f"dP={_olabel(mod, m_)},{_olabel(mod, k_)}"
            c.block("fock", Fk[i], mod.H + Gbase_ref[i] + Gstack_ref[i][k], tol_f(base + E), sub=lab)
            c.block("G", Gk[i], Gstack_ref[i][k], 1.5 * TOL_INT * 2, sub=lab)
            c.block("linearity", Fk[i] - F_base[i], Gk[i], TOL_ID, sub=lab)

    # CIS / RPA response build on every single-element matrix E_mu,nu (general, not symmetric)
    Es = np.zeros((n * n, n, n))
    for m_ in range(n):
        for k_ in range(n):
            Es[m_ * n + k_, m_, k_] = 1.0
    try:
        Rp = pb.response(Es)  # (nmol, n*n, n, n)
        resp_err = None
    except Exception as e:  # noqa: BLE001 - reported as a failure of every point
        Rp, resp_err = None, f"{type(e).__name__}: {e}"
    for i, (mod, c) in enumerate(zip(models, cmps)):
        if Rp is None:
            c.fails.append(dict(quantity="response", sub="raised", index=[], got=0.0, ref=0.0, dev=float("inf"), tol=0.0, nbad=1, note=resp_err))
            continue
        J, K = mod.JK(Es)
        c.block("response", Rp[i], J - 0.5 * K, 1.5 * TOL_INT)
        for k, ((m_, k_), E) in enumerate(oh):
            r = Rp[i][m_ * n + k_] + (Rp[i][k_ * n + m_] if k_ != m_ else 0.0)
            c.block("response_vs_G", r, G_oh[k][i], TOL_ID, sub=f"dP={_olabel(mod, m_)},{_olabel(mod, k_)}")

    # open shell
    Fa, Fb = pb.fock_u(0.5 * base, 0.5 * base)
    for i, c in enumerate(cmps):
        c.block("fock_u_half", Fa[i], F_base[i], TOL_ID, sub="alpha")
        c.block("fock_u_half", Fb[i], F_base[i], TOL_ID, sub="beta")
    Pa, Pb = 0.5 * base + 0.3 * rnd2, 0.5 * base - 0.3 * rnd2
    Fa, Fb = pb.fock_u(Pa, Pb)
    Fia, Fib = pb.fock_u(idem, idem_b)
    for i, (mod, c) in enumerate(zip(models, cmps)):
        ra, rb = mod.fock_open(Pa, Pb)
        t = tol_f(np.abs(Pa) + np.abs(Pb)) * 2
        c.block("fock_u", Fa[i], ra, t, sub="alpha P=random pair")
        c.block("fock_u", Fb[i], rb, t, sub="beta P=random pair")
        ra, rb = mod.fock_open(idem[i], idem_b[i])
        t = tol_f(np.abs(idem[i]) + np.abs(idem_b[i])) * 2
        c.block("fock_u", Fia[i], ra, t, sub="alpha P=idempotent")
        c.block("fock_u", Fib[i], rb, t, sub="beta P=idempotent")
    for k, ((m_, k_), E) in enumerate(oh):
        Fa, Fb = pb.fock_u(0.5 * base + E, 0.5 * base)
        for i, (mod, c) in enumerate(zip(models, cmps)):
            lab = f"dPalpha={_olabel(mod, m_)},{_olabel(mod, k_)}"
            ra, rb = mod.fock_open(0.5 * base + E, 0.5 * base)
            t = tol_f(np.abs(base) + E) * 2
            c.block("fock_u", Fa[i], ra, t, sub="alpha " + lab)
            c.block("fock_u", Fb[i], rb, t, sub="beta " + lab)

    pts = []
    for i, ((R, nm), c) in enumerate(zip(names, cmps)):
        sig = ",".join(f"{q}:{_bucket(v)}" for q, v in sorted(c.dev.items()) if q in ("w", "overlap", "enuc", "fock", "hcore_AA"))
        pts.append(dict(R=R, dir=nm, vec=[float(x) for x in geoms[i][1]], ncomp=c.n, fails=c.fails, dev=c.dev, sig=sig))
    return dict(method=method, ZA=ZA, ZB=ZB, n=n, points=pts, struct=struct_note)


def _bucket(v):
    if v == 0:
        return "0"
    if not math.isfinite(v):
        return "inf"
    return str(int(math.floor(math.log10(v))))


# ------------------------------------------------------------------------------------ SCF section
def _scf_mol(task):
    if task["kind"] == "named":
        mol = M.get(task["name"])
    else:
        mol = M.pair_molecule(task["ZA"], task["ZB"], task.get("scale", 1.0))
        mol["name"] = f"pair{task['ZA']}-{task['ZB']}"
    if task["rot"] is not None:
        mol = M.apply(mol, M.generic_rot(task["rot"]), [0.11, -0.23, 0.37])
    return mol


def eval_scf(task):
    from ..drivers.nddo import scf_single

    method = task["method"]
    mol = _scf_mol(task)
    uhf = mol["mult"] != 1 or task.get("uhf", False)
    try:
        pk = scf_single(mol, method, uhf)
    except Exception as e:  # noqa: BLE001
        return dict(error=f"{type(e).__name__}: {e}")
    if pk["notconverged"]:
        return dict(notconverged=True)
    mod = NR.Model(method, mol["species"], mol["coords"], mopac_series=task.get("mopac_series", True))
    c = _Cmp()
    # block level, polyatomic: assembly of Hcore from several neighbours, J/K scatter over several pairs
    from ..drivers.nddo import MolKernels

    mk = MolKernels(mol, method, uhf=uhf)
    hk = mk.hcore()
    for (i, j), Wp in hk["W"].items():
        A, B = mod.atoms[i], mod.atoms[j]
        c.block("mol_w", Wp[: A.nao, : A.nao, : B.nao, : B.nao], mod.pairs[(i, j)]["W"], TOL_INT, sub=f"atoms {i},{j}")
    # tolerance of an Hcore element: diagonal blocks sum the attraction of all other cores, off-diagonal beta*S
    zsum = sum(a.core for a in mod.atoms)
    bmax = max(max(abs(a.bs), abs(a.bp)) for a in mod.atoms)
    c.block("mol_hcore", hk["H"], mod.H, TOL_INT * zsum + TOL_S * bmax)
    n = mod.nbas
    rnd = _random_sym(n, task["rot"] if task["rot"] is not None else 3)
    tolF = lambda P: TOL_INT * (zsum + 1.5 * float(np.sum(np.abs(P)))) + TOL_S * bmax  # noqa: E731
    if uhf:
        Fa, Fb = mk.fock_u(*pk["P"])
        ra, rb = mod.fock_open(*pk["P"])
        t = tolF(np.abs(pk["P"][0]) + np.abs(pk["P"][1])) * 2
        c.block("mol_fock_u", Fa, ra, t, sub="alpha P=scf")
        c.block("mol_fock_u", Fb, rb, t, sub="beta P=scf")
        rnd_b = _random_sym(n, 4)
        Fa, Fb = mk.fock_u(rnd, rnd_b)
        ra, rb = mod.fock_open(rnd, rnd_b)
        t = tolF(np.abs(rnd) + np.abs(rnd_b)) * 2
        c.block("mol_fock_u", Fa, ra, t, sub="alpha P=random")
        c.block("mol_fock_u", Fb, rb, t, sub="beta P=random")
    else:
        c.block("mol_fock", mk.fock(pk["P"]), mod.fock_closed(pk["P"]), tolF(pk["P"]), sub="P=scf")
        c.block("mol_fock", mk.fock(rnd), mod.fock_closed(rnd), tolF(rnd), sub="P=random")
    tol_nuc = sum(TOL_INT * mod.atoms[i].core * mod.atoms[j].core * 3.0 for (i, j) in mod.enuc_pairs) + 1e-12 * abs(mod.enuc)
    c.block("scf_enuc", pk["Enuc"], mod.enuc, tol_nuc)
    c.block("scf_eiso", pk["Eiso"], mod.eiso(), 1e-10 * abs(mod.eiso()) + 1e-12)
    if uhf:
        Pa, Pb = pk["P"]
        Pt = np.abs(Pa) + np.abs(Pb)
        e_at_p = mod.eelec_open(Pa, Pb)
    else:
        Pt = np.abs(pk["P"])
        e_at_p = mod.eelec_closed(pk["P"])
    sP = float(Pt.sum())
    tol_el = TOL_INT * 7.0 * sP + 0.75 * TOL_INT * sP * sP  # propagated integral tolerance (see RULE/README)
    tol_el = min(tol_el, 1e-6 * abs(e_at_p))
    c.block("scf_eelec_at_P", pk["Eelec"], e_at_p, tol_el)
    c.block("scf_etot_at_P", pk["Etot"], e_at_p + mod.enuc, tol_el + tol_nuc)
    hf_ref = mod.heat_of_formation(e_at_p + mod.enuc)
    c.block("scf_hf", pk["Hf"], hf_ref, tol_el + tol_nuc + 1e-9)
    c.block("scf_pad_density", pk["pad_density"], 0.0, 0.0)
    # reference SCF restarted from the package's density: the package result must be a self-consistent
    # solution of the reference model with the same energy
    r = mod.scf(charge=mol["charge"], mult=mol["mult"], uhf=uhf, P0=pk["P"], damp=0.3, tol=1e-10, maxit=400)
    info = dict(ref_converged=bool(r["converged"]), ref_iters=int(r["iters"]))
    if r["converged"]:
        if uhf:
            dP = max(np.max(np.abs(r["P"][0] - pk["P"][0])), np.max(np.abs(r["P"][1] - pk["P"][1])))
        else:
            dP = np.max(np.abs(r["P"] - pk["P"]))
        info["dP"] = float(dP)
        info["dE_scf"] = float(r["Etot"] - pk["Etot"])
        if dP < 1e-4:
            c.block("scf_etot", pk["Etot"], r["Etot"], tol_el + tol_nuc + 1e-7)
        else:
            info["left_basin"] = True
    # the reference's own SCF from its own start (informative: another basin is not a defect)
    r2 = mod.scf(charge=mol["charge"], mult=mol["mult"], uhf=uhf, P0=None, damp=0.5, tol=1e-10, maxit=600)
    info["indep_converged"] = bool(r2["converged"])
    if r2["converged"]:
        info["indep_dE"] = float(r2["Etot"] - pk["Etot"])
        info["indep_same"] = bool(abs(info["indep_dE"]) <= tol_el + tol_nuc + 1e-7)
    return dict(ncomp=c.n, fails=c.fails, dev=c.dev, info=info, name=mol.get("name"), nbas=mod.nbas)


def scf_tasks(tier, seed):
    out = []
    for method in METHODS:
        els = set(M.ELEMENTS[method])
        for name in M.MOLS:
            m = M.MOLS[name]
            if not set(m["species"]) <= els:
                continue
            out.append(dict(kind="named", method=method, name=name, rot=seed % 5))
            if tier != "quick":
                out.append(dict(kind="named", method=method, name=name, rot=None))
            if m["mult"] == 1 and (tier != "quick" or name in ("H2O", "CH4", "HCl", "CO")):
                out.append(dict(kind="named", method=method, name=name, rot=seed % 5, uhf=True))
        if tier != "quick":
            heavy = [z for z in M.ELEMENTS[method] if z > 1]
            for a in heavy:
                for b in heavy:
                    if a >= b:
                        out.append(dict(kind="pair", method=method, ZA=a, ZB=b, rot=(seed + 1) % 5))
    return out


# ------------------------------------------------------------------------------------ unit-system twin


def eval_units(task):
    """Documented non-default configuration: geometry given in bohr with Constants(length_conversion_factor=1.0).
    Every energy-like result must equal the default (Angstrom) run; the reference model has no unit option, so the
    default run (itself compared with the model above) is the twin."""
    import torch
    from seqm.ElectronicStructure import Electronic_Structure
    from seqm.Molecule import Molecule
    from seqm.seqm_functions.constants import Constants, a0

    method, name, rot = task["method"], task["name"], task["rot"]
    mol = M.apply(M.get(name), M.generic_rot(rot))
    out = {}
    for label, const, scale in (("angstrom", Constants(), 1.0), ("bohr", Constants(length_conversion_factor=1.0), 1.0 / a0)):
        p = sp.make_params(method, eps=1e-11, uhf=(mol["mult"] != 1))
        spc, xyz, ch, mu = M.batch([mol])
        kw = {}
        if mol["charge"] != 0 or mol["mult"] != 1:
            kw = dict(charges=torch.as_tensor(ch), mult=torch.as_tensor(mu))
        molecule = Molecule(const, p, torch.as_tensor(xyz * scale), torch.as_tensor(spc), **kw)
        molecule.verbose = False
        es = Electronic_Structure(p)
        es(molecule)
        out[label] = {k: sp.to_np(getattr(molecule, k)) for k in ("Etot", "Eelec", "Enuc", "Hf", "q", "e_gap")}
        out[label]["force_per_length"] = sp.to_np(molecule.force) * scale  # eV/bohr * (bohr/A)^-1 ... compared in eV/A
    dev = {k: float(np.abs(np.asarray(out["angstrom"][k]) - np.asarray(out["bohr"][k])).max()) for k in out["angstrom"]}
    return {"dev": dev, "Etot": float(out["angstrom"]["Etot"][0])}


# ------------------------------------------------------------------------------------ run
def detect_series_mode(_=None):
    """Which of the two documented evaluations of the B auxiliary integrals does the tree under test implement for
    1e-6 < |R (zeta_a - zeta_b)/2| <= 0.5: MOPAC's power series truncated after order 6 ("mopac6", the pinned commit) or
    a converged one ("exact", proposed_fixes/C06_C08_bintgs_series.diff)?  Decided on the lattice point where the two
    differ most (PM3 S-H just below the junction, 2.4e-7 on the overlap); everything else in the run is then held to
    1e-9 against that evaluation.  A tree that matches neither is judged against "mopac6" and will be reported."""
    from ..drivers.nddo import PairBatch

    A, B = NR.Atom("PM3", 16), NR.Atom("PM3", 1)
    geoms = [(0.76485, np.array([0.0, 1.0, 0.0])), (0.6, np.array([0.0, 1.0, 0.0]))]
    S = PairBatch("PM3", 16, 1, geoms).overlap()
    d_exact = d_series = 0.0
    for (R, d), Sp in zip(geoms, S):
        E = NR.local_frame(d)
        pl = NR.PairLocal(A, B, R)
        d_exact = max(d_exact, float(np.max(np.abs(Sp[:4, :1] - NR.rotate2(pl.S, A, B, E)))))
        d_series = max(d_series, float(np.max(np.abs(Sp[:4, :1] - NR.rotate2(pl.S_mopac, A, B, E)))))
    mode = "exact" if d_exact <= TOL_S else "mopac6"
    return dict(mode=mode, dev_vs_exact=d_exact, dev_vs_mopac6=d_series, determined=bool(d_exact <= TOL_S or d_series <= TOL_S))


def _qn(Z):
    return NR.NQ[Z]


def _pair_desc(method, ZA, ZB):
    return dict(
        method=method, ZA=ZA, ZB=ZB, pair=f"{NR.SYMBOL[ZA]}-{NR.SYMBOL[ZB]}", qn=f"{_qn(ZA)}-{_qn(ZB)}",
        homonuclear=ZA == ZB, has_H=ZB == 1,
    )  # fmt: skip


# a failing quantity is reported as a consequence (not as a violation of its own) when one of its inputs fails too
UPSTREAM = {
    "hcore_AB": ["overlap"], "hcore_AA": ["w"], "hcore_BB": ["w"], "G": ["w"], "response": ["w"], "enuc": ["w"],
    "fock": ["w", "overlap", "hcore_AA", "hcore_BB", "hcore_AB"],
    "fock_u": ["w", "overlap", "hcore_AA", "hcore_BB", "hcore_AB"],
    "linearity": ["fock_symmetric"], "w_inversion": [], "overlap_inversion": [], "w": ["ri_local"],
}  # fmt: skip


def _report_pair(chk, res, task):
    """aggregate failures of one pair per quantity; returns list of (desc, detail, replay)."""
    method, ZA, ZB = res["method"], res["ZA"], res["ZB"]
    agg = {}
    for ip, p in enumerate(res["points"]):
        for f in p["fails"]:
            a = agg.setdefault(f["quantity"], dict(nblocks=0, pts=set(), worst=None, Rs=set(), dirs=set()))
            a["nblocks"] += 1
            a["pts"].add(ip)
            a["Rs"].add(p["R"])
            a["dirs"].add(p["dir"])
            score = f["dev"] / max(f["tol"], 1e-300) if math.isfinite(f["dev"]) else float("inf")
            if a["worst"] is None or score > a["worst"][0]:
                a["worst"] = (score, p, f)
    out = []
    for q, a in agg.items():
        if any(u in agg for u in UPSTREAM.get(q, [])):
            continue
        cons = sorted(x for x in agg if q in UPSTREAM.get(x, []))
        _, p, f = a["worst"]
        d = _pair_desc(method, ZA, ZB)
        d.update(
            section="pair", quantity=q, sub=f.get("sub", ""), R=p["R"], dir=p["dir"], dev=f["dev"], tol=f["tol"],
            n_points_failing=len(a["pts"]), n_points=len(res["points"]), n_blocks_failing=a["nblocks"],
            R_failing=sorted(a["Rs"]), dirs_failing=sorted(a["dirs"]), consequences=cons,
            all_R_fail=len(a["Rs"]) == len(task["Rs"]), all_dirs_fail=len(a["dirs"]) == len(task["dirs"]),
            axis_aligned_only=all(x[1] in "xyz" for x in a["dirs"]),
        )  # fmt: skip
        detail = (
            f"{method} {d['pair']} {q}[{f.get('sub', '')}] at R={p['R']} dir={p['dir']} index={f['index']}: package {f['got']:.10g} "
            f"reference {f['ref']:.10g} |dev| {f['dev']:.3e} > tol {f['tol']:.1e}; {len(a['pts'])} of {len(res['points'])} lattice points fail "
            f"(R in {sorted(a['Rs'])}, dirs {sorted(a['dirs'])})"
            + (f"; consequently also failing: {cons}" if cons else "")
            + (f" note={f['note']}" if f.get("note") else "")
        )
        rp = dict(kind="pair", method=method, ZA=ZA, ZB=ZB, R=p["R"], dir=p["dir"], vec=p["vec"], seed=task["seed"], quantity=q)
        out.append((d, detail, rp))
    return out


def _single_task(rp):
    v = np.array(rp["vec"], float)
    return dict(method=rp["method"], ZA=rp["ZA"], ZB=rp["ZB"], Rs=[rp["R"]], seed=rp["seed"], dirs=[("+" + rp["dir"][1:], v.tolist() if rp["dir"][0] == "+" else (-v).tolist()), ("-" + rp["dir"][1:], (-v).tolist() if rp["dir"][0] == "+" else v.tolist())])  # fmt: skip


def run(chk, tier, seed):
    import vp

    prob = NR.selftest()
    for p in prob:
        chk.harness_error("reference self-test: " + p)
    if prob:
        return
    vp.warm()
    # premise of the 1e-7 eV integral tolerance: a 5-step secant (MOPAC, package) lands within 1e-8 bohr of the exact root
    gap = 0.0
    for method in METHODS:
        for Z in M.ELEMENTS[method]:
            if Z > 1:
                a = NR.Atom(method, Z)
                gap = max(gap, abs(NR.secant5_rho(1, a.D1, a.hsp) - a.rho1), abs(NR.secant5_rho(2, a.D2, a.hpp) - a.rho2))
    chk.extra["secant5_gap_max_bohr"] = gap
    if gap > 1e-8:
        chk.harness_error(f"premise of the integral tolerance broken: 5-step secant is {gap:.2e} bohr from the root for some element")
        return
    (probe,) = pmap(detect_series_mode, [0], chunk=1, timeout=600)
    if is_error(probe) or is_timeout(probe):
        chk.harness_error(f"B-series probe did not run: {probe}")
        return
    chk.extra["b_series_probe"] = probe
    ms = probe["mode"] == "mopac6"
    Rs = R_QUICK if tier == "quick" else R_FULL
    dirs = directions(tier, seed)
    tasks = []
    for method in METHODS:
        for ZA, ZB in pair_list(method, tier):
            rs = list(Rs)
            if tier != "quick":
                rs = sorted(set(rs + R_EXTRA + boundary_distances(method, ZA, ZB)))
            tasks.append(dict(method=method, ZA=ZA, ZB=ZB, Rs=rs, dirs=dirs, seed=seed, mopac_series=ms))
    stasks = scf_tasks(tier, seed)
    for t in stasks:
        t["mopac_series"] = ms
    chk.planned = sum(len(t["Rs"]) for t in tasks) * len(dirs) + len(stasks)

    # determinism: the same task in two processes must agree bitwise
    t0 = dict(method="AM1", ZA=8, ZB=1, Rs=[1.2], dirs=dirs[:2] + dirs[6:8], seed=seed, mopac_series=ms)
    a, b = pmap(eval_pair, [t0, t0], chunk=1, timeout=600)
    if is_error(a) or is_error(b) or is_timeout(a) or is_timeout(b):
        chk.harness_error(f"determinism probe did not run: {a if is_error(a) else b}")
        return
    if [p["dev"] for p in a["points"]] != [p["dev"] for p in b["points"]]:
        chk.harness_error("the same lattice point evaluated in two processes gave different deviations")
        return

    chk.max_samples = 0  # samples are written out below (richer than the case keys)
    my_samples = []
    results = pmap(eval_pair, tasks, chunk=1, timeout=1500, progress="C06 pair lattice")
    maxdev = {}
    pending = []  # failures to confirm singly
    for t, r in zip(tasks, results):
        d0 = _pair_desc(t["method"], t["ZA"], t["ZB"])
        if is_timeout(r) or is_error(r):
            d0.update(section="pair", quantity="raised" if is_error(r) else "timeout", error=str(r.get("__error__", ""))[:200])
            chk.violation(d0, f"{t['method']} {d0['pair']}: kernels did not complete: {str(r)[:600]}", replay=dict(kind="pairtask", **{k: t[k] for k in ("method", "ZA", "ZB", "Rs", "dirs", "seed")}))
            continue
        for s in r["struct"]:
            d1 = dict(d0, section="pair", quantity="structure")
            chk.violation(d1, f"{t['method']} {d0['pair']}: {s}", replay=dict(kind="pairtask", **{k: t[k] for k in ("method", "ZA", "ZB", "Rs", "dirs", "seed")}))
        for p in r["points"]:
            key = f"{t['method']}|{d0['pair']}|R={p['R']}|{p['dir']}"
            sample = None
            if p["R"] == 1.2 and p["dir"] == "+g" and len(my_samples) < 4 and (t["ZA"], t["ZB"]) in ((8, 1), (17, 16), (9, 9), (13, 4)):
                sample = dict(
                    method=t["method"], pair=d0["pair"], principal_qn=d0["qn"], R_angstrom=p["R"], orientation=p["dir"], unit_vector=p["vec"],
                    basis_functions=r["n"], block_comparisons=p["ncomp"], max_abs_deviation={q: v for q, v in p["dev"].items() if q in ("overlap", "w", "ri_local", "hcore_AA", "hcore_AB", "enuc", "fock", "fock_u", "G", "response", "linearity")},
                )  # fmt: skip
            if sample:
                my_samples.append(sample)
            chk.case(key, nontrivial=p["ncomp"] > 0, outcome=f"{d0['qn']}|{'ok' if not p['fails'] else 'FAIL'}|{p['sig']}")
            chk.states += 1
            chk.traces += 1
            chk.transitions += p["ncomp"]
            for q, v in p["dev"].items():
                if v > maxdev.get(q, (0.0, ""))[0]:
                    maxdev[q] = (v, key)
        pending.extend((t, x) for x in _report_pair(chk, r, t))

    # every disagreement is re-run once in isolation (fresh process, the single geometry and its inverse)
    if pending:
        singles = [dict(_single_task(rp), mopac_series=ms) for _, (_, _, rp) in pending]
        sres = pmap(eval_pair, singles, chunk=1, timeout=600, progress="C06 confirm")
        for (t, (d, detail, rp)), sr in zip(pending, sres):
            confirmed = True
            if not (is_error(sr) or is_timeout(sr)):
                confirmed = any(f["quantity"] == rp["quantity"] for p in sr["points"] for f in p["fails"])
            d["confirmed_single"] = bool(confirmed)
            if not confirmed:
                detail += "  [NOT reproduced when the geometry is evaluated alone: batch-dependent]"
            chk.violation(d, detail, replay=rp)

    # SCF section
    sres = pmap(eval_scf, stasks, chunk=2, timeout=900, progress="C06 SCF alphabet")
    info = dict(left_basin=0, ref_not_converged=0, max_dP=0.0, indep_start_same_energy=0, indep_start_other_solution=0, indep_start_not_converged=0)
    for t, r in zip(stasks, sres):
        nm = t.get("name") or f"pair{t['ZA']}-{t['ZB']}"
        key = f"scf|{t['method']}|{nm}|rot={t['rot']}|uhf={bool(t.get('uhf'))}"
        d0 = dict(section="scf", method=t["method"], molecule=nm, rot=t["rot"], uhf=bool(t.get("uhf")), kind=t["kind"])
        if is_timeout(r) or is_error(r) or "error" in r:
            err = r.get("error") or r.get("__error__") or "timeout"
            if t["kind"] == "pair":
                chk.rejected += 1  # exotic saturated pair molecules the package cannot run are not part of the property
                chk.case(key, nontrivial=False, outcome="rejected")
                continue
            chk.violation(dict(d0, quantity="raised", error=str(err)[:200]), f"{key}: single point raised {err}", replay=dict(t))
            continue
        if r.get("notconverged"):
            chk.excluded += 1
            chk.case(key, nontrivial=False, outcome="notconverged")
            continue
        if len(my_samples) < 6:
            my_samples.append(dict(case=key, nbasis=r["nbas"], block_comparisons=r["ncomp"], max_abs_deviation=r["dev"], reference_scf=r["info"]))
        chk.case(key, nontrivial=True, outcome=f"scf|{'ok' if not r['fails'] else 'FAIL'}|{_bucket(r['dev'].get('scf_eelec_at_P', 0.0))}")
        chk.states += 1
        chk.traces += 1
        chk.transitions += r["ncomp"]
        for q, v in r["dev"].items():
            if v > maxdev.get(q, (0.0, ""))[0]:
                maxdev[q] = (v, key)
        if r["info"].get("left_basin"):
            info["left_basin"] += 1
        if not r["info"]["ref_converged"]:
            info["ref_not_converged"] += 1
        if not r["info"].get("indep_converged"):
            info["indep_start_not_converged"] += 1
        elif r["info"].get("indep_same"):
            info["indep_start_same_energy"] += 1
        else:
            info["indep_start_other_solution"] += 1
            info.setdefault("other_solution_examples", [])
            if len(info["other_solution_examples"]) < 8:
                info["other_solution_examples"].append(dict(case=key, dE_ref_minus_pkg=r["info"].get("indep_dE")))
        info["max_dP"] = max(info["max_dP"], r["info"].get("dP", 0.0) if not r["info"].get("left_basin") else 0.0)
        if r["fails"]:
            # one violation per molecule: the first failing quantity in evaluation order is the most upstream one
            f = r["fails"][0]
            qs = [x["quantity"] for x in r["fails"]]
            d = dict(d0, quantity=f["quantity"], quantities=qs, dev=f["dev"], tol=f["tol"])
            chk.violation(
                d,
                f"{key}: {f['quantity']} package {f['got']:.10g} reference {f['ref']:.10g} |dev| {f['dev']:.3e} > tol {f['tol']:.1e}; failing quantities {qs}",
                replay=dict(t),
            )
    # unit-system twin (bohr input with length_conversion_factor = 1)
    names = ["H2O", "NH3", "H2CO", "HCN", "CH3OH", "OH-"] if tier == "quick" else [n for n in M.MOLS if M.MOLS[n]["mult"] == 1]
    utasks = [dict(method=m_, name=n_, rot=seed % 5) for m_ in METHODS for n_ in names if set(M.MOLS[n_]["species"]) <= set(M.ELEMENTS[m_])]
    ures = pmap(eval_units, utasks, chunk=4, timeout=900, progress="C06 unit-system twin")
    uworst = {}
    for t, r in zip(utasks, ures):
        key = f"units|{t['method']}|{t['name']}"
        d0 = dict(part="units", method=t["method"], molecule=t["name"])
        if is_timeout(r) or is_error(r):
            chk.violation(d0, f"{key}: {str(r)[:300]}", replay=dict(t, units=True))
            continue
        chk.case(key, nontrivial=True, outcome=_bucket(max(r["dev"].values())))
        chk.traces += 1
        chk.states += 1
        chk.transitions += len(r["dev"])
        for q, v in r["dev"].items():
            uworst[q] = max(uworst.get(q, 0.0), v)
        # measured on the healthy tree: <= 5e-13 eV on energies, 1.4e-12 on forces
        bad = {q: v for q, v in r["dev"].items() if v > (1e-7 if q != "force_per_length" else 1e-6)}
        if bad:
            chk.violation(dict(d0, quantity=sorted(bad)[0]), f"{key}: bohr input with length_conversion_factor=1 differs from the Angstrom run: {bad}", replay=dict(t, units=True))
    chk.extra["unit_twin_max_dev"] = uworst
    chk.samples = my_samples
    chk.max_samples = len(my_samples)
    chk.extra["max_deviation_seen"] = {q: dict(dev=v[0], at=v[1]) for q, v in sorted(maxdev.items())}
    chk.extra["scf_section"] = info
    chk.extra["documented_approximations"] = {
        "mopac_bintgs_series": dict(
            what="for 1e-6 < |R(zeta_a-zeta_b)/2| <= 0.5 MOPAC's BINTGS (LAST=6), and the package at the pinned commit, truncate the "
            "power series of the B auxiliary integrals after order 6; the reference can reproduce this by replacing exp(-beta*eta) "
            "with its 6th-order Taylor polynomial inside its own quadrature. A probe (b_series_probe) decides once per run which "
            "evaluation the tree implements (mopac6 or exact); all overlaps are then held to 1e-9 against that one",
            mode_of_this_tree=probe["mode"],
            max_effect_on_overlap=maxdev.get("overlap_series_effect", (0.0, ""))[0],
            at=maxdev.get("overlap_series_effect", (0.0, ""))[1],
            max_package_vs_exact_overlap=maxdev.get("overlap_vs_exact", (0.0, ""))[0],
        ),
        "secant5_rho": "rho1/rho2 from a 5-step secant in the package (as in MOPAC) vs exact root in the reference: <= 1.4e-9 bohr, "
        "integrals differ by <= 5e-9 eV (measured, see max_deviation_seen.w)",
    }
    chk.extra["lattice"] = dict(
        pairs=len(tasks), R=Rs, R_extra=[] if tier == "quick" else R_EXTRA,
        boundary_distances=sum(len(t["Rs"]) for t in tasks) - len(tasks) * (len(Rs) + (0 if tier == "quick" else len(R_EXTRA))),
        orientations=[n for n, _ in dirs], scf_molecules=len(stasks),
    )  # fmt: skip


def replay(payload):
    c = dict(payload["replay"])
    c["mopac_series"] = detect_series_mode()["mode"] == "mopac6"  # judged against what the current tree implements
    ok = True
    if c.get("kind") == "pair":
        r = eval_pair(dict(_single_task(c), mopac_series=c["mopac_series"]))
        for p in r["points"]:
            for f in p["fails"]:
                print(f"   R={p['R']} dir={p['dir']} {f['quantity']}[{f.get('sub', '')}] index={f['index']} package {f['got']:.10g} reference {f['ref']:.10g} dev {f['dev']:.3e} tol {f['tol']:.1e}")
                ok = False
    elif c.get("kind") == "pairtask":
        try:
            r = eval_pair(c)
            ok = not any(p["fails"] for p in r["points"]) and not r["struct"]
        except Exception as e:  # noqa: BLE001
            print("   raised", type(e).__name__, e)
            ok = False
    else:
        r = eval_scf(c)
        if "error" in r:
            print("   raised", r["error"])
            return False
        for f in r.get("fails", []):
            print(f"   {f['quantity']} package {f['got']:.10g} reference {f['ref']:.10g} dev {f['dev']:.3e} tol {f['tol']:.1e}")
            ok = False
    return ok
