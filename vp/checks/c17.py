"""C17  Surface hopping preserves norm, energy and per-trajectory isolation.

(a) S-lat   the real `_propagate_electronic` on synthetic caches over the stated finite alphabet, against an
            independent reference integration (scipy DOP853): order of the norm / amplitude error under sub-step
            doubling, automatic sub-steps, batch == singles, hop integral.
(b) S-env   the hop machine: (b1) breadth-first search to depth 3 over per-trajectory events for a batch of
            2 trajectories x 3 states through the REAL `_do_integrator_step` (`_detect_crossings`,
            `_propagate_electronic`, `_after_electronic_update`, `_attempt_hop`, `_rescale_velocity_along_nac`) with a
            scripted environment (torch.rand answers, state energies, CIS amplitudes, couplings, NAC vectors),
            every transition compared with a reference model of the machine and with the single-trajectory run
            under the same events; (b2) exhaustive lattice on the real `_rescale_velocity_along_nac`;
            (b3) exhaustive lattice on the real `_attempt_hop` over the scripted-draw alphabet.
(c) S-env   the repository's Tully models (scripts/tully_surface_hopping/TullyModels.py, TullyFSSH): analytic
            gradients vs finite differences, batches of 1..3 trajectories with mixed active states and scripted
            hop draws: norm, total energy along the trajectory and across hops, batch row == single run.
"""
import contextlib
import io
import itertools

import numpy as np
import torch

from ..drivers import fssh as FS
from ..oracles import fssh_model as FM
from ..pool import is_error, is_timeout, pmap

PID = "C17"
LEVEL = "model_checking"
RULE = (
    "(a) every (nstates 2..8 x coupling family x gap x dt x substeps {auto,4,8,16,32} x initial amplitude) on the real "
    "propagator; (b1) all sequences of joint events (6 per trajectory, 2 trajectories) to depth 3 on the real step, "
    "states = (active, amplitudes, hold-off, previous state, velocities) per trajectory, each transition compared "
    "with the reference hop machine and with the single-trajectory run; (b2) rescale lattice dE x velocity family x "
    "NAC family x masses x orientation x batch row; (b3) hop-draw lattice active x amplitude family x coupling "
    "family x scripted draw; (c) Tully models x batch compositions x scripted draw schedules; a case is non-trivial "
    "when the oracle had something to compare; distinct = distinct canonical case key"
)
ASSUMPTIONS = [
    "electronic-structure providers are synthetic (state energies, CIS amplitudes, time-derivative couplings, NAC "
    "vectors, per-state forces); all hop logic, the propagator, crossing detection, velocity rescaling and the "
    "integrator step are the package's own code",
    "hold-off bookkeeping (2 steps without crossing detection / hops after a hop or an active crossing, early reset "
    "when the active state's partner is new) is taken from the implementation as documented behaviour",
    "order-of-accuracy oracles are applied in the resolved regime only: (dt/substeps) * max(|D|, dE_max/hbar) <= "
    "0.5 rad for the coarser member of a pair; the automatic sub-step bound is applied where the automatic "
    "count resolves the step by the same criterion (its rule looks at the couplings only and is capped at 80)",
    "CPU, float64",
]

NORM_FLOOR = 1e-13
ORDER_RATIO = 10.0
AUTO_BOUND = 1e-4
RESOLVED = 0.5
K_SCALE = None  # CONSTANTS.KINETIC_ENERGY_SCALE, read lazily

_SEED = 0


def _kscale():
    global K_SCALE
    if K_SCALE is None:
        from seqm.MolecularDynamics import CONSTANTS

        K_SCALE = float(CONSTANTS.KINETIC_ENERGY_SCALE)
    return K_SCALE


# =========================================================================================== (a) propagator

COUPLINGS = [("const", 0.1), ("const", 1.0), ("ramp", 1.0), ("alt", 1.0), ("spike", 1.0), ("spike", 10.0), ("spike", 100.0), ("spike_leaving", 10.0)]
GAPS = [1e-4, 1e-2, 1.0, 5.0]
DTS = [0.05, 0.1, 0.5]
SUBS = [None, 4, 8, 16, 32]


def coupling(kind, n, D):
    Mx = np.zeros((n, n))
    for i in range(n):
        for j in range(i + 1, n):
            if kind == "const":
                v = D
            elif kind == "ramp":
                v = D * (i + j + 1) / (2.0 * n)
            elif kind == "alt":
                v = D * (-1.0) ** (i + j) / (1.0 + abs(i - j))
            else:
                v = D if (i, j) == (0, 1) else 0.01
            Mx[i, j] = v
            Mx[j, i] = -v
    return Mx


def initial_amplitude(kind, n):
    c = np.zeros(n, complex)
    if kind == "pure0":
        c[0] = 1.0
    elif kind == "top":
        c[-1] = 1.0
    else:
        c = np.array([np.exp(1j * 0.7 * k) / (1.0 + 0.5 * k) for k in range(n)])
        c /= np.linalg.norm(c)
    return c


def prop_inputs(case):
    n, (kind, D), gap = case["n"], case["coupling"], case["gap"]
    e0 = 2.0 + gap * np.arange(n)
    e1 = e0 + 0.1 * gap * np.cos(np.arange(n) + 0.3 * case.get("seed", 0))
    if kind == "spike":
        n0, n1 = coupling("spike", n, 0.01), coupling("spike", n, D)
    elif kind == "spike_leaving":
        n0, n1 = coupling("spike", n, D), coupling("spike", n, 0.01)
    else:
        n1 = coupling(kind, n, D)
        n0 = 0.5 * n1
    return e0, e1, n0, n1, initial_amplitude(case["init"], n)


def _bare(nmol, n, dt, active=0):
    from seqm.NonadiabaticDynamics import NonadiabaticDynamicsBase

    class Bare(NonadiabaticDynamicsBase):
        def __init__(self):
            pass

    d = Bare()
    d.timestep = dt
    d.damp = None
    d._nstates = n
    d._amp_phase = torch.zeros((nmol, n, 3), dtype=torch.float64)
    d._hop_integral = None
    d._eye_cache, d._arange_cache = {}, {}
    # the propagation must not depend on which state is active; the attribute exists on every real object
    d._active_states = torch.full((nmol,), int(active), dtype=torch.long)
    return d


def _propagate(cases, sub):
    """real propagation of a batch of cases (same n, dt); returns complex amplitudes (nmol,n) and hop integrals."""
    n, dt = cases[0]["n"], cases[0]["dt"]
    inp = [prop_inputs(c) for c in cases]
    d = _bare(len(cases), n, dt, active=cases[0].get("active", 0))
    if any("active" in c for c in cases):
        d._active_states = torch.as_tensor([int(c.get("active", 0)) for c in cases], dtype=torch.long)
    for m, (_e0, _e1, _n0, _n1, c0) in enumerate(inp):
        d._amp_phase[m, :, 0] = torch.as_tensor(c0.real)
        d._amp_phase[m, :, 1] = torch.as_tensor(c0.imag)
    co = {"energies": torch.as_tensor(np.stack([x[0] for x in inp])), "nac_dot": torch.as_tensor(np.stack([x[2] for x in inp]))}
    cn = {"energies": torch.as_tensor(np.stack([x[1] for x in inp])), "nac_dot": torch.as_tensor(np.stack([x[3] for x in inp]))}
    d._propagate_electronic(co, cn, substeps=sub)
    return d._coeffs_complex().numpy().copy(), d._hop_integral.numpy().copy(), d._amp_phase.numpy().copy()


def auto_substeps(dt, n0, n1):
    chi = dt * max(np.abs(n0).max(), np.abs(n1).max(), np.abs(n1 - n0).max())
    return min(8 + int(np.ceil(max((chi - 1.0) / 0.25, 0.0))), 80)


def prop_case(case):
    """one point of the (a) lattice: all sub-step settings + reference + batch twin."""
    e0, e1, n0, n1, c0 = prop_inputs(case)
    dt = case["dt"]
    ref = FM.reference_propagation(c0, e0, e1, n0, n1, dt)
    stiff = max(np.abs(n0).max(), np.abs(n1).max(), (max(e0.max(), e1.max()) - min(e0.min(), e1.min())) / FM.HBAR_EV_FS)
    out = dict(norm={}, amp={}, problems=[], resolved={}, nauto=auto_substeps(dt, n0, n1))
    mate = dict(case, coupling=("spike", 100.0), init="mix")  # a batch mate with a violent coupling
    for sub in SUBS:
        c, h, raw = _propagate([case], sub)
        key = "auto" if sub is None else str(sub)
        nsub = out["nauto"] if sub is None else sub
        out["norm"][key] = float(abs((np.abs(c[0]) ** 2).sum() - 1.0))
        out["amp"][key] = float(np.abs(c[0] - ref).max())
        out["resolved"][key] = bool(dt / nsub * stiff <= RESOLVED)
        # hop integral: 2 dt Re(c_i* c_j) D_ij(new), antisymmetric, zero diagonal
        hm = FM.hop_integral(c[0], n1, dt)
        if np.abs(h[0] - hm).max() > 1e-12 * max(1.0, np.abs(hm).max()):
            out["problems"].append(dict(cls="hop_integral", sub=key, value=float(np.abs(h[0] - hm).max()), msg=f"hop integral differs from 2 dt Re(c_i* c_j) D_ij by {np.abs(h[0] - hm).max():.2e}"))
        # batch == singles
        cb, hb, rawb = _propagate([case, mate], sub)
        dev = float(np.abs(rawb[0] - raw[0]).max())
        if sub is not None:
            if dev > 1e-14:
                out["problems"].append(dict(cls="batch_vs_single_fixed_substeps", sub=key, value=dev, msg=f"row 0 of a batch of 2 differs from the single run by {dev:.2e} with substeps={sub}"))
        else:
            out["auto_batch_dev"] = dev
            out["auto_batch_amp_err"] = float(np.abs(cb[0] - ref).max())
            # the violent mate (row 1) must itself be integrated on a grid fine enough for IT
            me0, me1, mn0, mn1, mc0 = prop_inputs(mate)
            mref = FM.reference_propagation(mc0, me0, me1, mn0, mn1, dt)
            mstiff = max(np.abs(mn0).max(), np.abs(mn1).max(), (max(me0.max(), me1.max()) - min(me0.min(), me1.min())) / FM.HBAR_EV_FS)
            out["mate_resolved"] = bool(dt / auto_substeps(dt, mn0, mn1) * mstiff <= RESOLVED)
            out["mate_amp_err"] = float(np.abs(cb[1] - mref).max())
    return out


def prop_lattice(tier):
    cases = []
    ns = [2, 3, 4, 5, 6, 7, 8]
    inits = ["pure0", "mix", "top"]
    for n in ns:
        for cp in COUPLINGS:
            for gap in GAPS:
                for dt in DTS:
                    for init in inits:
                        if tier == "quick" and not (init == "pure0" or (n in (2, 5, 8) and gap in (1e-4, 1.0))):
                            continue
                        cases.append(dict(n=n, coupling=cp, gap=gap, dt=dt, init=init))
    # the (0,1) spike between two NON-active states carrying population: the sub-step rule must look at the whole
    # coupling matrix, not only at the couplings of the active state
    for n in (3, 5, 8):
        for cp in COUPLINGS:
            if not cp[0].startswith("spike"):
                continue
            for gap in (1e-4, 1.0):
                for dt in DTS:
                    cases.append(dict(n=n, coupling=cp, gap=gap, dt=dt, init="mix", active=n - 1))
    return cases


def _pkey(c):
    return f"prop|n={c['n']}|{c['coupling'][0]}:{c['coupling'][1]:g}|gap={c['gap']:g}|dt={c['dt']:g}|{c['init']}" + (f"|active={c['active']}" if "active" in c else "")


def account_prop(chk, cases, results):
    ratios_n, ratios_a, auto_n, auto_unres = [], [], 0.0, 0.0
    coupling_dev = 0.0
    for c, r in zip(cases, results):
        k = _pkey(c)
        base = dict(part="propagator", nstates=c["n"], coupling=c["coupling"][0], D=c["coupling"][1], gap=c["gap"], dt=c["dt"], init=c["init"])
        if is_timeout(r) or is_error(r):
            chk.violation(dict(base, problem_class="did_not_complete"), f"{k}: {str(r)[:300]}", replay=dict(part="prop", case=c))
            continue
        compared = 0
        for pr in r["problems"]:
            chk.violation(dict(base, problem_class=pr["cls"], substeps=pr["sub"], value=pr["value"]), f"{k}: {pr['msg']}", replay=dict(part="prop", case=c))
        chain = ["4", "8", "16", "32"]
        for ib in range(1, len(chain)):
            a, b = chain[ib - 1], chain[ib]
            if not r["resolved"][a]:
                chk.excluded += 1
                continue
            # amplitude error against the independent reference: order 4, i.e. >= 10x per doubling (measured >= 14)
            ea, eb = r["amp"][a], r["amp"][b]
            if ea > NORM_FLOOR:
                compared += 1
                ratio = ea / max(eb, 1e-300)
                ratios_a.append(ratio)
                if eb > ea / ORDER_RATIO and eb > NORM_FLOOR:
                    chk.violation(dict(base, problem_class="amp_order", substeps=f"{a}->{b}", value=ratio),
                                  f"{k}: amplitude error {ea:.2e} with {a} sub-steps only falls to {eb:.2e} with {b} (ratio {ratio:.1f} < {ORDER_RATIO:g})",
                                  replay=dict(part="prop", case=c))  # fmt: skip
            # norm error: its leading term changes sign along some chains (measured pairwise ratios 47, 94, 3.5 on one
            # chain, and 0.7 on another), so no pairwise-ratio oracle is sound for it.  It is bounded instead by the
            # amplitude error (next loop), whose 10x-per-doubling decay has just been checked: the envelope
            # 2 n |c - c_ref|_inf falls >= 10x per doubling and the norm error must stay below it.
            if r["norm"][a] > NORM_FLOOR:
                ratios_n.append(r["norm"][a] / max(r["norm"][b], 1e-300))
        for key in chain + ["auto"]:
            if r["resolved"][key]:
                compared += 1
            if r["norm"][key] > 2.0 * c["n"] * r["amp"][key] + 1e-13 and r["resolved"][key]:
                chk.violation(dict(base, problem_class="norm_vs_amplitude", substeps=key, value=r["norm"][key]),
                              f"{k}: norm error {r['norm'][key]:.2e} exceeds what the amplitude error {r['amp'][key]:.2e} allows", replay=dict(part="prop", case=c))
        if r["resolved"]["auto"]:
            compared += 1
            auto_n = max(auto_n, r["norm"]["auto"], r["amp"]["auto"])
            for what in ("norm", "amp"):
                if r[what]["auto"] > AUTO_BOUND:
                    chk.violation(dict(base, problem_class=f"auto_{what}", substeps="auto", value=r[what]["auto"], nauto=r["nauto"]),
                                  f"{k}: {what} error {r[what]['auto']:.2e} with automatic sub-steps ({r['nauto']}) exceeds {AUTO_BOUND:g}",
                                  replay=dict(part="prop", case=c))  # fmt: skip
            # batch-global automatic sub-step count: a mate may only change a row at integrator-error level
            coupling_dev = max(coupling_dev, r["auto_batch_dev"])
            if r["auto_batch_amp_err"] > AUTO_BOUND:
                chk.violation(dict(base, problem_class="auto_batch_mate", substeps="auto", value=r["auto_batch_amp_err"]),
                              f"{k}: with a batch mate the automatically sub-stepped row is off the reference by {r['auto_batch_amp_err']:.2e}",
                              replay=dict(part="prop", case=c))  # fmt: skip
        else:
            chk.excluded += 1
            auto_unres = max(auto_unres, r["norm"]["auto"])
        if r.get("mate_resolved"):
            compared += 1
            if r["mate_amp_err"] > AUTO_BOUND:
                chk.violation(dict(base, problem_class="auto_substeps_of_batch_mate", substeps="auto", value=r["mate_amp_err"]),
                              f"{k}: row 1 of the batch (coupling peak 100 /fs) is off its reference by {r['mate_amp_err']:.2e} under automatic sub-steps "
                              f"although its own automatic count resolves it", replay=dict(part="prop", case=c))  # fmt: skip
        chk.case(k, nontrivial=compared > 0, outcome=f"{r['nauto']}|{int(np.log10(max(r['norm']['auto'], 1e-17)))}|{compared}")
        chk.traces += 1
    chk.extra["prop_norm_ratio_min_informational"] = float(min(ratios_n)) if ratios_n else None
    chk.extra["prop_norm_ratio_median_informational"] = float(np.median(ratios_n)) if ratios_n else None
    chk.extra["prop_amp_ratio_min"] = float(min(ratios_a)) if ratios_a else None
    chk.extra["prop_ratio_pairs"] = len(ratios_n) + len(ratios_a)
    chk.extra["prop_auto_max_error_resolved"] = auto_n
    chk.extra["prop_auto_max_norm_error_unresolved_informational"] = auto_unres
    chk.extra["prop_auto_batch_global_substep_max_row_change"] = coupling_dev


# =========================================================================================== (b2) rescale lattice


def rescale_lattice():
    cases = []
    dEs = [-1.0, -0.01, 0.0, 0.01, 0.2, 1.0, 50.0]
    vfam = ["generic", "perp_exact", "parallel", "antiparallel", "zero", "generic_neg"]
    dfam = ["generic", "one_atom", "zero", "tiny", "planar_z"]
    for dE, vf, df, masses, orient, row in itertools.product(dEs, vfam, dfam, ("uniform", "mixed"), ((0, 1), (1, 0), (0, 2), (2, 1)), (0, 1)):
        cases.append(dict(dE=dE, v=vf, d=df, masses=masses, orient=list(orient), row=row))
    return cases


def _rescale_inputs(c):
    d = {
        "generic": np.array([[0.6, -0.3, 0.2], [-0.4, 0.7, 0.5], [0.1, 0.2, -0.9]]),
        "one_atom": np.array([[0.0, 0.0, 0.0], [0.0, 1.3, 0.0], [0.0, 0.0, 0.0]]),
        "zero": np.zeros((3, 3)),
        "tiny": np.full((3, 3), 1e-8),
        "planar_z": np.array([[0.0, 0.0, 0.7], [0.0, 0.0, -0.2], [0.0, 0.0, 0.4]]),
    }[c["d"]]
    mass = np.array([1.0, 1.0, 1.0]) if c["masses"] == "uniform" else np.array([12.0, 1.0, 16.0])
    if c["v"] == "generic":
        v = np.array([[0.03, -0.01, 0.02], [-0.05, 0.04, 0.01], [0.01, 0.02, -0.03]])
    elif c["v"] == "generic_neg":
        v = -np.array([[0.03, -0.01, 0.02], [-0.05, 0.04, 0.01], [0.01, 0.02, -0.03]])
    elif c["v"] == "perp_exact":
        # in-plane motion; exactly orthogonal to planar_z, generic otherwise
        v = np.array([[0.03, -0.01, 0.0], [-0.05, 0.04, 0.0], [0.01, 0.02, 0.0]])
    elif c["v"] == "parallel":
        v = 0.05 * d / mass[:, None]
    elif c["v"] == "antiparallel":
        v = -0.05 * d / mass[:, None]
    else:
        v = np.zeros((3, 3))
    return d, mass, v


def rescale_case(c):
    from types import SimpleNamespace

    d, mass, v = _rescale_inputs(c)
    ks = _kscale()
    i, j = c["orient"]
    row = c["row"]
    other = 1 - row
    vel = np.zeros((2, 3, 3))
    vel[row] = v
    vel[other] = np.array([[0.011, 0.012, 0.013], [0.021, 0.022, 0.023], [0.031, 0.032, 0.033]])
    dd = np.zeros((2, 3, 3))
    key = (min(i, j), max(i, j))
    # the stored vector is d_(min,max); the hop i->j uses +d for i<j and -d otherwise
    dd[row] = d if i < j else -d
    dd[other] = 0.5
    mol = SimpleNamespace(velocities=torch.as_tensor(vel.copy()), mass_inverse=torch.as_tensor(1.0 / np.stack([mass, mass])).reshape(2, 3, 1))
    dyn, _m, _e = FS.make_dyn([FS.trajectory_world(0), FS.trajectory_world(1)], 0.5, 8, False, [0, 0])
    ok = dyn._rescale_velocity_along_nac({key: torch.as_tensor(dd)}, i, j, mol, c["dE"], mol_index=row)
    vnew = mol.velocities.numpy()
    prob = []
    if not np.array_equal(vnew[other], vel[other]):
        prob.append(dict(cls="other_row_touched", msg="velocities of the other trajectory changed"))
    status, vexp, alpha, other_root = FM.rescale(v, d, 1.0 / mass, c["dE"], ks)
    minv = 1.0 / mass
    ke0, ke1 = FM.kinetic(v, minv, ks), FM.kinetic(vnew[row], minv, ks)
    if status == "frustrated" or (status == "either" and not ok):
        if ok:
            prob.append(dict(cls="accepted_without_real_root", msg=f"hop accepted although no energy-conserving adjustment exists (dE={c['dE']})"))
        if not np.array_equal(vnew[row], v):
            prob.append(dict(cls="frustrated_velocities_touched", msg="velocities changed by a frustrated hop"))
    else:
        if not ok:
            prob.append(dict(cls="rejected_with_real_root", msg=f"hop rejected although an energy-conserving adjustment exists (dE={c['dE']}, v.d={np.sum(v * d):.3e})"))
        else:
            dv = vnew[row] - v
            dirn = d * minv[:, None]
            # parallel to M^-1 d
            a_fit = float(np.sum(dv * dirn) / np.sum(dirn * dirn))
            if np.abs(dv - a_fit * dirn).max() > 1e-13 * max(1.0, np.abs(dv).max()):
                prob.append(dict(cls="not_parallel", msg="velocity change is not along M^-1 d"))
            scale = max(abs(c["dE"]), ke0, 1e-3)
            if abs((ke1 - ke0) + c["dE"]) > 1e-12 * scale:
                prob.append(dict(cls="energy_not_conserved", value=float((ke1 - ke0) + c["dE"]),
                                 msg=f"kinetic-energy change {ke1 - ke0:.6e} != -dE = {-c['dE']:.6e} (v.d = {np.sum(v * d):.3e})"))  # fmt: skip
            elif abs(abs(a_fit) - abs(alpha)) > 1e-10 * max(abs(alpha), abs(other_root), 1e-12) and abs(abs(alpha) - abs(other_root)) > 1e-12:
                prob.append(dict(cls="larger_root", msg=f"|alpha| = {abs(a_fit):.6e} is not the smaller root {abs(alpha):.6e} (other {abs(other_root):.6e})"))
    return dict(ok=bool(ok), status=status, problems=prob, v_dot_d=float(np.sum(v * d)))


# =========================================================================================== (b3) hop-draw lattice

RAND_ALPHABET = [0.0, 0.25, 0.5, 0.75, 1.0 - 1e-12]


def draw_lattice():
    cases = []
    amps = ["pure", "coherent", "depleted"]
    fams = ["zero", "up_small", "down_half", "both", "sum_gt_1", "negative", "to_top_only"]
    for a0, a1 in itertools.product(range(3), repeat=2):
        for af in amps:
            for f0 in fams:
                for f1 in ("zero", "both"):
                    for r0 in RAND_ALPHABET:
                        for r1 in (0.0, 0.5):
                            cases.append(dict(active=[a0, a1], amp=af, fam=[f0, f1], r=[r0, r1]))
    return cases


def _draw_inputs(c, m):
    a = c["active"][m]
    n = 3
    amp = np.zeros((n, 3))
    if c["amp"] == "pure":
        amp[a, 0] = 1.0
    elif c["amp"] == "coherent":
        amp[:, 0] = [0.5, 0.6, 0.4]
        amp[:, 1] = [0.3, -0.2, 0.3]
        amp /= np.sqrt((amp[:, 0] ** 2 + amp[:, 1] ** 2).sum())
    else:
        amp[:, 0] = 0.7
        amp[a, 0] = 1e-6
        amp /= np.sqrt((amp[:, 0] ** 2 + amp[:, 1] ** 2).sum())
    pop = amp[a, 0] ** 2 + amp[a, 1] ** 2
    h = np.zeros((n, n))
    others = [s for s in range(n) if s != a]
    fam = c["fam"][m]
    if fam == "up_small":
        h[a, others[-1]] = 0.1 * pop
    elif fam == "down_half":
        h[a, others[0]] = 0.5 * pop
    elif fam == "both":
        h[a, others[0]] = 0.3 * pop
        h[a, others[1]] = 0.3 * pop
    elif fam == "sum_gt_1":
        h[a, others[0]] = 1.5 * pop
        h[a, others[1]] = 0.5 * pop
    elif fam == "negative":
        h[a, others[0]] = -0.4 * pop
        h[a, others[1]] = 0.2 * pop
    elif fam == "to_top_only":
        h[a, others[1]] = 0.6 * pop
    h = h - h.T
    return amp, h


def draw_case(c):
    dyn, mol, env = FS.make_dyn([FS.trajectory_world(0), FS.trajectory_world(1)], 0.5, 8, False, c["active"])
    amps, hs = zip(*[_draw_inputs(c, m) for m in range(2)])
    dyn._amp_phase = torch.as_tensor(np.stack(amps))
    dyn._hop_integral = torch.as_tensor(np.stack(hs))
    with FS.scripted_rand(c["r"]):
        t = dyn._attempt_hop().numpy()
    prob = []
    exp = []
    for m in range(2):
        a = c["active"][m]
        pop = amps[m][a, 0] ** 2 + amps[m][a, 1] ** 2
        g = FM.hop_probabilities(hs[m][a], pop)
        if g.min() < 0 or g.max() > 1 or g.sum() > 1 + 1e-12:
            prob.append(dict(cls="model", msg="reference probabilities out of range"))
        e = FM.choose_target(g, c["r"][m])
        exp.append(e)
        if int(t[m]) not in FM.admissible_targets(g, c["r"][m]):
            pg = float(g[int(t[m])]) if t[m] >= 0 else None
            prob.append(dict(cls="wrong_target", row=m, target=int(t[m]), expected=e, prob_of_target=pg, self_hop=bool(int(t[m]) == a), draw=c["r"][m],
                             msg=f"trajectory {m} (active {a}, probabilities {np.round(g, 4).tolist()}, draw {c['r'][m]!r}): hop target {int(t[m])}, "
                                 f"reference {e}" + (f" - a state of probability {pg:g} was chosen" if pg is not None else "")))  # fmt: skip
    return dict(targets=t.tolist(), expected=exp, problems=prob)


# =========================================================================================== (b1) hop machine BFS

DT_B = 0.5
SUB_B = 8


def _do_step(dyn, mol, env, rec, events, i):
    ans = env.plan(dyn, events)
    pre = [FS.state_of(dyn, mol, m) for m in range(len(events))]
    rec.clear()
    err = None
    nlog = len(dyn.hop_log)
    with FS.scripted_rand([a["r"] for a in ans]) as sr:
        try:
            dyn._do_integrator_step(i, mol, {})
        except Exception as e:  # noqa: BLE001
            err = f"{type(e).__name__}: {e}"
    if err is None:
        env.commit()
    post = [FS.state_of(dyn, mol, m) for m in range(len(events))]
    return ans, pre, post, err, dyn.hop_log[nlog:], sr.calls


def check_transition(dyn, mol, rec, ans, pre, post, err, newlog, decohere, label):
    """oracle on one executed transition (all trajectories)."""
    prob = []
    ks = _kscale()
    real = []
    if err is not None:
        r0 = [m for m, a in enumerate(ans) if a["r"] == 0.0]
        prob.append(dict(cls="crash", draw_zero=bool(r0), msg=f"{label}: the step raised {err}"))
        return prob, ["crash"] * len(ans)
    for m, a in enumerate(ans):
        n = len(a["E"])
        # --- crossing detection result vs script
        sw = rec.swap_to[m] if rec.swap_to is not None else -np.ones(n, dtype=int)
        # --- couplings of a relabelled pair zeroed before use
        for i, j in a["swaps"]:
            if sw[i] == j and abs(rec.nd_used[m, i, j]) > 0:
                prob.append(dict(cls="crossing_coupling_not_zeroed", row=m, msg=f"{label}: trajectory {m}: coupling of the relabelled pair ({i},{j}) not zeroed"))
        c = (rec.amp_prop[m, :, 0] + 1j * rec.amp_prop[m, :, 1]) * np.exp(1j * rec.amp_prop[m, :, 2])
        hm = FM.hop_integral(c, rec.nd_used[m], DT_B)
        if np.abs(hm - rec.hopint[m]).max() > 1e-12 * max(1.0, np.abs(hm).max()):
            prob.append(dict(cls="hop_integral", row=m, msg=f"{label}: trajectory {m}: hop integral differs from the reference by {np.abs(hm - rec.hopint[m]).max():.2e}"))
        if abs((np.abs(c) ** 2).sum() - 1.0) > 1e-4:
            prob.append(dict(cls="norm", row=m, msg=f"{label}: trajectory {m}: population {(np.abs(c) ** 2).sum():.6f}"))
        obs = dict(amp_prop=rec.amp_prop[m], hopint=rec.hopint[m], v_hop=rec.v_at_hop[m], target=int(rec.targets[m]))
        mod = FM.step_model(pre[m], dict(r=a["r"], swaps=a["swaps"], E=a["E"], nacvec=a["nacvec"], minv=a["minv"]), obs, ks, decohere)
        g = mod["g"]
        if g.min() < 0 or g.max() > 1 or g.sum() > 1 + 1e-12:
            prob.append(dict(cls="probabilities", row=m, msg=f"{label}: trajectory {m}: probabilities {g}"))
        # relabelling: a permutation of amplitudes and active index
        perm = mod["relabel"]
        exp_sw = -np.ones(n, dtype=int)
        for i in range(n):
            if perm[i] != i:
                exp_sw[i] = perm[i]
        if not np.array_equal(sw, exp_sw):
            prob.append(dict(cls="crossing_relabel", row=m, hold=int(pre[m]["hold"]), msg=f"{label}: trajectory {m}: relabelling {sw.tolist()} but the scripted crossing gives {exp_sw.tolist()} (hold-off {pre[m]['hold']})"))
        else:
            expect_amp = rec.amp_prop[m].copy()
            for i in range(n):
                expect_amp[perm[i]] = rec.amp_prop[m][i]
            if not np.array_equal(rec.amp_at_hop[m], expect_amp):
                prob.append(dict(cls="crossing_amplitudes", row=m, msg=f"{label}: trajectory {m}: amplitudes after relabelling are not the permutation {perm} of the propagated amplitudes"))
            if int(rec.active_at_hop[m]) != perm[pre[m]["active"]]:
                prob.append(dict(cls="crossing_active_index", row=m, msg=f"{label}: trajectory {m}: active index {rec.active_at_hop[m]} after relabelling, permutation {perm} of {pre[m]['active']} expected"))
            p0 = np.sort(rec.amp_prop[m][:, 0] ** 2 + rec.amp_prop[m][:, 1] ** 2)
            p1 = np.sort(rec.amp_at_hop[m][:, 0] ** 2 + rec.amp_at_hop[m][:, 1] ** 2)
            if not np.array_equal(p0, p1):
                prob.append(dict(cls="crossing_populations", row=m, msg=f"{label}: trajectory {m}: populations are not permuted by the relabelling"))
        # hop target
        tgt = int(rec.targets[m])
        if tgt != mod["target"]:
            pg = float(g[tgt]) if tgt >= 0 else None
            prob.append(dict(cls="wrong_target", row=m, draw=a["r"], draw_zero=bool(a["r"] == 0.0), prob_of_target=pg, self_hop=bool(tgt == int(rec.active_at_hop[m])),
                             msg=f"{label}: trajectory {m}: hop target {tgt} for draw {a['r']!r} and probabilities {np.round(g, 4).tolist()}; reference {mod['target']}"))  # fmt: skip
            # everything downstream of a wrong target is a consequence of it: do not report it again
            real.append("wrong_target")
            continue
        mine = [x for x in rec.rescales if x["mol"] == m]
        kind = "none"
        if mod["skipped"] or mod["target"] < 0:
            if mine and tgt == mod["target"]:
                prob.append(dict(cls="hop_during_holdoff", row=m, msg=f"{label}: trajectory {m}: a hop was attempted although hops are suspended / no target"))
        if mine:
            x = mine[0]
            vb, va = x["v_before"], x["v_after"]
            for o in range(len(ans)):
                if o != m and not np.array_equal(vb[o], va[o]):
                    prob.append(dict(cls="other_row_touched", row=m, msg=f"{label}: rescaling trajectory {m} changed the velocities of trajectory {o}"))
            minv = a["minv"]
            ke0, ke1 = FM.kinetic(vb[m], minv, ks), FM.kinetic(va[m], minv, ks)
            if x["ok"]:
                kind = "up_ok" if x["dE"] > 0 else "down"
                dirn = None
                if mod.get("d") is not None:
                    dirn = mod["d"] * minv[:, None]
                    dv = va[m] - vb[m]
                    a_fit = float(np.sum(dv * dirn) / np.sum(dirn * dirn))
                    if np.abs(dv - a_fit * dirn).max() > 1e-13:
                        prob.append(dict(cls="not_parallel", row=m, msg=f"{label}: trajectory {m}: velocity change not along M^-1 d"))
                    if abs(abs(a_fit) - abs(mod["alpha"])) > 1e-10 * max(abs(mod["alpha"]), 1e-12) and abs(abs(mod["alpha"]) - abs(mod["other_root"])) > 1e-12:
                        prob.append(dict(cls="larger_root", row=m, msg=f"{label}: trajectory {m}: |alpha| {abs(a_fit):.6e}, smaller root {abs(mod['alpha']):.6e}"))
                if abs((ke1 - ke0) + x["dE"]) > 1e-12 * max(abs(x["dE"]), ke0):
                    prob.append(dict(cls="energy_not_conserved", row=m, value=float(ke1 - ke0 + x["dE"]), msg=f"{label}: trajectory {m}: kinetic-energy change {ke1 - ke0:.6e} != -dE {-x['dE']:.6e}"))
            else:
                kind = "up_frus"
                if not np.array_equal(vb[m], va[m]):
                    prob.append(dict(cls="frustrated_velocities_touched", row=m, msg=f"{label}: trajectory {m}: velocities changed by a frustrated hop"))
                if post[m]["active"] != int(rec.active_at_hop[m]):
                    prob.append(dict(cls="frustrated_state_changed", row=m, msg=f"{label}: trajectory {m}: active state changed by a frustrated hop"))
                if not decohere and not np.array_equal(post[m]["amp"], rec.amp_at_hop[m]):
                    prob.append(dict(cls="frustrated_amplitudes_touched", row=m, msg=f"{label}: trajectory {m}: amplitudes changed by a frustrated hop"))
        if perm != list(range(n)):
            kind = "cross_active" if perm[pre[m]["active"]] != pre[m]["active"] else ("cross_other" if kind == "none" else kind + "+cross_other")
        real.append(kind)
        # full post-state vs the reference machine
        if mod["hop"] != "either":
            for fld in ("active", "hold", "prev"):
                if post[m][fld] != mod[fld]:
                    prob.append(dict(cls=f"post_{fld}", row=m, msg=f"{label}: trajectory {m}: {fld} = {post[m][fld]} after the step, reference machine {mod[fld]} (event {a['event']}, before {pre[m]['active']}/{pre[m]['hold']}/{pre[m]['prev']})"))
            if np.abs(post[m]["amp"] - mod["amp"]).max() > 1e-14:
                prob.append(dict(cls="post_amplitudes", row=m, msg=f"{label}: trajectory {m}: amplitudes differ from the reference machine by {np.abs(post[m]['amp'] - mod['amp']).max():.2e}"))
            if np.abs(post[m]["v"] - mod["v"]).max() > 1e-12 * max(1.0, np.abs(mod["v"]).max()):
                prob.append(dict(cls="post_velocities", row=m, msg=f"{label}: trajectory {m}: velocities differ from the reference machine by {np.abs(post[m]['v'] - mod['v']).max():.2e}"))
        # hop log
        for ev in newlog:
            if ev.mol_index == m and ev.reason is None and not ev.accepted:
                prob.append(dict(cls="log", row=m, msg=f"{label}: rejected hop without reason in the log"))
    return prob, real


def _fp(st):
    return (st["active"], st["hold"], st["prev"], st["amp"].tobytes(), st["v"].tobytes())


def bfs_task(task):
    """Depth-first enumeration below a prefix of joint events.  task: dict(tids, init, prefix [[ev..]..], depth,
    alphabet, decohere, seed).  Returns one record per executed transition."""
    tids = task["tids"]
    worlds = [FS.trajectory_world(t, task.get("seed", 0)) for t in tids]
    dyn, mol, env = FS.make_dyn(worlds, DT_B, SUB_B, task["decohere"], task["init"])
    rec = FS.Recorder(dyn, mol)
    out = []
    nt = len(tids)
    joint = list(itertools.product(task["alphabet"], repeat=nt))

    def execute(path, events, report):
        label = "/".join("+".join(e) for e in path + [list(events)])
        ans, pre, post, err, newlog, _calls = _do_step(dyn, mol, env, rec, events, len(path))
        prob, real = check_transition(dyn, mol, rec, ans, pre, post, err, newlog, task["decohere"], label)
        if report:
            out.append(dict(path=[list(e) for e in path] + [list(events)], problems=prob, real=real, fp=[_fp(s) for s in post], ok=err is None,
                            feasible=[a["feasible"] for a in ans]))  # fmt: skip
        return err is None and not prob

    path = []
    for events in task["prefix"]:
        ok = execute(path, events, report=task.get("report_prefix", False))
        path.append(list(events))
        if not ok:
            return out  # the prefix itself is reported by the task that owns it

    def dfs(path, depth):
        if depth == 0:
            return
        snap = FS.snapshot(dyn, mol, env)
        for events in joint:
            ok = execute(path, events, report=True)
            if ok and depth > 1:
                dfs(path + [list(events)], depth - 1)
            FS.restore(dyn, mol, env, snap)

    dfs(path, task["depth"])
    return out


# =========================================================================================== (c) Tully models

TULLY_MODELS = ["single_crossing", "double_crossing", "extended_coupling"]


def tully_gradient_case(name):
    TM = FS.load_tully()
    model = getattr(TM.TullyModel, name)()
    x = torch.tensor([-3.0, -1.7, -0.7, -0.31, -0.05, 0.13, 0.5, 0.9, 1.7, 3.1], dtype=torch.float64)
    h = 1e-5
    E, dE, nac = model.pot(x)
    Ep, _, _ = model.pot(x + h)
    Em, _, _ = model.pot(x - h)
    fd = (Ep - Em) / (2 * h)
    err = (dE - fd).abs()
    k = int(err.max(dim=1).values.argmax())
    # derivative coupling vs finite difference of the mixing angle
    return dict(max_err=float(err.max()), x=float(x[k]), dE=dE[k].tolist(), fd=fd[k].tolist(), scale=float(fd.abs().max()))


def _tully_run(TM, model, x0, v0, init, steps, dt, draws):
    from seqm.MolecularDynamics import CONSTANTS

    class Obs(TM.TullyFSSH):
        def _after_electronic_update(self, molecule, excitation_energies, step=None):
            act0 = self._active_states.clone()
            ke0 = (0.5 * molecule.mass * molecule.velocities**2).sum(dim=(1, 2)) * CONSTANTS.KINETIC_ENERGY_SCALE
            idx = torch.arange(act0.shape[0])
            v0_ = excitation_energies[idx, act0].clone()
            super()._after_electronic_update(molecule, excitation_energies, step=step)
            ke = (0.5 * molecule.mass * molecule.velocities**2).sum(dim=(1, 2)) * CONSTANTS.KINETIC_ENERGY_SCALE
            act = self._active_states.clone()
            V = excitation_energies[idx, act]
            x = molecule.coordinates[:, 0, 0]
            E, dE, _nac = self.model.pot(x)
            f_expected = -dE[idx, act]
            self.obs.append(dict(
                ke_before=ke0.numpy().copy(), v_before=v0_.numpy().copy(), ke=ke.numpy().copy(), V=V.numpy().copy(),
                act=act.numpy().copy(), act_before=act0.numpy().copy(), pop=self.populations.sum(1).numpy().copy(),
                x=x.numpy().copy(), vel=molecule.velocities[:, 0, 0].numpy().copy(), force=molecule.force[:, 0, 0].detach().numpy().copy(),
                f_expected=f_expected.numpy().copy(), amp=self._amp_phase.numpy().copy(),
                cur_pot=self._current_potential.detach().numpy().copy(),
            ))  # fmt: skip

    dyn = Obs(model, timestep=dt)
    dyn.obs = []
    mol = TM.TullyMolecule(x0=list(x0), v0=list(v0), mass=2000.0)
    dyn.initial_state = torch.tensor(list(init))
    dyn._setup_states(mol)
    dyn._init_coeffs(mol)
    it = iter(draws)
    orig = torch.rand

    def fake(n, **k):
        return torch.as_tensor(np.asarray(next(it), dtype=float))

    torch.rand = fake
    err = None
    try:
        with contextlib.redirect_stdout(io.StringIO()):
            dyn.run(mol, steps=steps, reuse_P=True, remove_com=None)
    except Exception as e:  # noqa: BLE001
        err = f"{type(e).__name__}: {e}"
    finally:
        torch.rand = orig
    return dyn, err


def tully_case(c):
    TM = FS.load_tully()
    model = getattr(TM.TullyModel, c["model"])()
    nt = len(c["x0"])
    steps, dt = c["steps"], c["dt"]
    sched = c["schedule"]  # per trajectory: list of steps at which the draw is LOW_DRAW; 1-1e-12 otherwise
    draws = [[(LOW_DRAW if s in sched[m] else 1.0 - 1e-12) for m in range(nt)] for s in range(steps)]
    dyn, err = _tully_run(TM, model, c["x0"], c["v0"], c["init"], steps, dt, draws)
    prob = []
    if err:
        return dict(problems=[dict(cls="crash", msg=f"run raised {err}")], hops=0, sig="crash")
    obs = dyn.obs
    hops = 0
    for s, o in enumerate(obs):
        for m in range(nt):
            if abs(o["pop"][m] - 1.0) > AUTO_BOUND:
                prob.append(dict(cls="norm", row=m, step=s, msg=f"trajectory {m} step {s}: total population {o['pop'][m]:.8f}"))
            hopped = o["act"][m] != o["act_before"][m]
            if hopped:
                hops += 1
                jump = (o["ke"][m] + o["V"][m]) - (o["ke_before"][m] + o["v_before"][m])
                if abs(jump) > 1e-10 * max(1.0, o["ke"][m]):
                    prob.append(dict(cls="energy_jump_at_hop", row=m, step=s, value=float(jump), msg=f"trajectory {m} step {s}: total energy jumps by {jump:.3e} at a hop"))
                if abs(o["cur_pot"][m] - o["V"][m]) > 1e-10:
                    prob.append(dict(cls="potential_bookkeeping_at_hop", row=m, step=s, value=float(o["cur_pot"][m] - o["V"][m]),
                                     msg=f"trajectory {m} step {s}: potential energy reported after the hop {o['cur_pot'][m]:.6f} is not the energy of the new active state {o['V'][m]:.6f}"))  # fmt: skip
            elif o["ke"][m] != o["ke_before"][m]:
                prob.append(dict(cls="velocities_touched_without_hop", row=m, step=s, msg=f"trajectory {m} step {s}: kinetic energy changed without a hop"))
            # the force driving the trajectory must be the force of ITS active state
            if abs(o["force"][m] - o["f_expected"][m]) > 1e-12 * max(1.0, abs(o["f_expected"][m])):
                prob.append(dict(cls="force_of_wrong_state", row=m, step=s, active=int(o["act"][m]), active_row0=int(o["act"][0]), mixed=bool(len(set(o["act"].tolist())) > 1),
                                 msg=f"trajectory {m} step {s}: force {o['force'][m]:.6f} is not the force of its active state {int(o['act'][m]) + 1} "
                                     f"({o['f_expected'][m]:.6f}); trajectory 0 is on state {int(o['act'][0]) + 1}"))  # fmt: skip
                break
        if prob and prob[-1]["cls"] == "force_of_wrong_state":
            break
    # isolation: each row equals its own single-trajectory run under the same draws
    if nt > 1 and not any(p["cls"] == "crash" for p in prob):
        for m in range(nt):
            d1, e1 = _tully_run(TM, model, [c["x0"][m]], [c["v0"][m]], [c["init"][m]], steps, dt, [[dr[m]] for dr in draws])
            if e1:
                prob.append(dict(cls="crash", row=m, msg=f"single run raised {e1}"))
                continue
            for s, (ob, o1) in enumerate(zip(obs, d1.obs)):
                dx = abs(ob["x"][m] - o1["x"][0])
                dv = abs(ob["vel"][m] - o1["vel"][0])
                da = float(np.abs(ob["amp"][m] - o1["amp"][0]).max())
                if ob["act"][m] != o1["act"][0] or dx > 1e-9 or dv > 1e-9 or da > 1e-6:
                    ever_mixed = len(set(c["init"])) > 1 or any(len(set(o_["act"].tolist())) > 1 or len(set(o_["act_before"].tolist())) > 1 for o_ in obs[: s + 1])
                    prob.append(dict(cls="batch_row_differs_from_single", row=m, step=s, mixed=bool(ever_mixed),
                                     msg=f"trajectory {m} of the batch differs from its single run at step {s}: dx {dx:.2e} dv {dv:.2e} damp {da:.2e} "
                                         f"active {int(ob['act'][m]) + 1} vs {int(o1['act'][0]) + 1}"))  # fmt: skip
                    break
    # energy conservation along the trajectory (velocity Verlet, consistent force): drift bound from dt halving is
    # not available here; use a loose absolute bound relative to the potential range
    e_tot = np.array([[o["ke"][m] + o["V"][m] for m in range(nt)] for o in obs])
    drift = np.abs(e_tot - e_tot[0]).max(axis=0)
    vrange = np.array([max(np.ptp([o["V"][m] for o in obs]), 1e-6) for m in range(nt)])
    return dict(problems=prob, hops=hops, drift=drift.tolist(), vrange=vrange.tolist(), sig=f"{hops}|{[int(a) for a in obs[-1]['act']]}")


LOW_DRAW = 1e-9  # a scheduled 'low' draw: the trajectory hops as soon as its hop probability exceeds it


def tully_lattice(tier):
    cases = []
    fast, slow = [0.020, 0.024, 0.017], [0.0016, 0.0019, 0.0014]
    xs = [-0.35, -0.30, -0.40]
    comps = []
    for vel, tag in ((fast, "fast"), (slow, "slow")):
        for init in ([1], [2], [1, 1], [1, 2], [2, 1], [1, 2, 1], [2, 2, 1], [2, 1, 2]):
            nt = len(init)
            if tier == "quick" and tag == "slow" and init not in ([1], [1, 2], [2, 1, 2]):
                continue
            comps.append(dict(x0=xs[:nt], v0=vel[:nt], init=init, speed=tag))
    steps = 120 if tier == "quick" else 200
    scheds = [[], [30, 31, 32], [70], list(range(20, 110, 9)), list(range(10, 120))]
    for model in TULLY_MODELS if tier != "quick" else TULLY_MODELS[:1]:
        for comp in comps:
            nt = len(comp["x0"])
            for si, sc in enumerate(scheds):
                if tier == "quick" and si in (2,):
                    continue
                for who in range(nt + 1):
                    # trajectory `who` draws low on schedule sc, the others never; who == nt: everybody
                    if (sc == [] and who > 0) or (nt == 1 and who == 1):
                        continue
                    if tier == "quick" and nt == 3 and who == 1:
                        continue
                    schedule = [sc if (who == nt or m == who) else [] for m in range(nt)]
                    for dt in (0.25,) if (tier == "quick" or si != 3 or who != nt) else (0.25, 0.5):
                        cases.append(dict(model=model, steps=steps, dt=dt, schedule=schedule, sched_id=f"{si}.{who}", **comp))
    return cases


def _tkey(c):
    return f"tully|{c['model']}|{c['speed']}|n={len(c['x0'])}|init={c['init']}|sched={c['sched_id']}|dt={c['dt']:g}"


# =========================================================================================== run

ALPHABET = ["none", "up_ok", "up_frus", "down", "cross_active", "cross_other"]


def bfs_tasks(tier, seed):
    tasks = []
    quick = tier == "quick"
    for decohere in (False, True) if not quick else (False,):
        for init in ([0, 1], [2, 0]) if not quick else ([0, 1],):
            joint = list(itertools.product(ALPHABET, repeat=2))
            # depth 1 and 2 transitions are reported by the prefix owners below
            tasks.append(dict(tids=[0, 1], init=init, prefix=[], depth=1, alphabet=ALPHABET, decohere=decohere, seed=seed, owner="d1"))
            for e1 in joint:
                tasks.append(dict(tids=[0, 1], init=init, prefix=[list(e1)], depth=1, alphabet=ALPHABET, decohere=decohere, seed=seed, owner="d2"))
            sub = joint if not quick else [e for e in joint if e[0] in ("none", "up_ok", "down", "cross_active") and e[1] in ("up_frus", "down", "cross_other", "up_ok")]
            for e1 in sub:
                for e2 in joint:
                    tasks.append(dict(tids=[0, 1], init=init, prefix=[list(e1), list(e2)], depth=1, alphabet=ALPHABET, decohere=decohere, seed=seed, owner="d3"))
            # singles: the same events on one trajectory alone
            for t in (0, 1):
                tasks.append(dict(tids=[t], init=[init[t]], prefix=[], depth=3, alphabet=ALPHABET, decohere=decohere, seed=seed, owner="single"))
            # the zero draw in the machine (depth 2): coupling-free step with torch.rand() == 0.0
            tasks.append(dict(tids=[0, 1], init=init, prefix=[], depth=2, alphabet=["none_r0", "up_ok", "cross_active"], decohere=decohere, seed=seed, owner="r0"))
    return tasks


def run(chk, tier, seed):
    global _SEED
    _SEED = int(seed)
    _kscale()
    import os

    parts = set(os.environ.get("VP_C17_PARTS", "a,b1,b2,b3,c").split(","))  # development aid: restrict the parts run
    if parts != {"a", "b1", "b2", "b3", "c"}:
        chk.cap(f"only parts {sorted(parts)} were run (VP_C17_PARTS)")
    # ---------------- (a)
    pc = prop_lattice(tier) if "a" in parts else []
    for c in pc:
        c["seed"] = int(seed)
    res = pmap(prop_case, pc, chunk=8, timeout=900, progress="C17 propagator")
    account_prop(chk, pc, res)
    # ---------------- (b2)
    rc = rescale_lattice() if "b2" in parts else []
    res = pmap(rescale_case, rc, chunk=200, timeout=600)
    for c, r in zip(rc, res):
        k = f"rescale|dE={c['dE']:g}|v={c['v']}|d={c['d']}|m={c['masses']}|{c['orient']}|row={c['row']}"
        if is_timeout(r) or is_error(r):
            chk.violation(dict(part="rescale", problem_class="crash", dE=c["dE"], v=c["v"], d=c["d"]), f"{k}: {str(r)[:300]}", replay=dict(part="rescale", case=c))
            continue
        chk.case(k, nontrivial=True, outcome=f"{r['status']}|{r['ok']}")
        chk.transitions += 1
        chk.traces += 1
        for pr in r["problems"]:
            chk.violation(dict(part="rescale", problem_class=pr["cls"], dE=c["dE"], dE_negative=bool(c["dE"] < 0), v=c["v"], d=c["d"], masses=c["masses"],
                               v_dot_d_zero=bool(r["v_dot_d"] == 0.0), row=c["row"]), f"{k}: {pr['msg']}", replay=dict(part="rescale", case=c))  # fmt: skip
    # ---------------- (b3)
    dc = draw_lattice() if "b3" in parts else []
    res = pmap(draw_case, dc, chunk=300, timeout=600)
    for c, r in zip(dc, res):
        k = f"draw|act={c['active']}|amp={c['amp']}|fam={c['fam']}|r={c['r']}"
        if is_timeout(r) or is_error(r):
            chk.violation(dict(part="draw", problem_class="crash"), f"{k}: {str(r)[:300]}", replay=dict(part="draw", case=c))
            continue
        chk.case(k, nontrivial=True, outcome=str(r["targets"]))
        chk.transitions += 1
        chk.traces += 1
        for pr in r["problems"]:
            chk.violation(dict(part="draw", problem_class=pr["cls"], draw=pr.get("draw"), draw_zero=bool(pr.get("draw") == 0.0), prob_of_target=pr.get("prob_of_target"),
                               self_hop=bool(pr.get("self_hop")), row=pr.get("row")), f"{k}: {pr['msg']}", replay=dict(part="draw", case=c))  # fmt: skip
    # ---------------- (b1)
    tasks = bfs_tasks(tier, int(seed)) if "b1" in parts else []
    res = pmap(bfs_task, tasks, chunk=4, timeout=900, progress="C17 hop machine")
    states = set()
    singles = {}
    batch_rows = []
    realised = {}
    for t, r in zip(tasks, res):
        if is_timeout(r) or is_error(r):
            chk.violation(dict(part="machine", problem_class="did_not_complete"), f"bfs task {t['prefix']}: {str(r)[:400]}", replay=dict(part="bfs", task=t))
            continue
        for tr in r:
            path = tr["path"]
            k = f"machine|{t['owner']}|dec={int(t['decohere'])}|init={t['init']}|tids={t['tids']}|" + "/".join("+".join(e) for e in path)
            chk.case(k, nontrivial=True, outcome="|".join(tr["real"]))
            chk.transitions += 1
            chk.traces += 1
            for m, fp in enumerate(tr["fp"]):
                states.add(fp)
            for kind in tr["real"]:
                realised[kind] = realised.get(kind, 0) + 1
            for pr in tr["problems"]:
                d = dict(part="machine", problem_class=pr["cls"], depth=len(path), decohere=t["decohere"], batch=len(t["tids"]), draw_zero=bool(pr.get("draw_zero", False)),
                         self_hop=bool(pr.get("self_hop", False)), events="/".join("+".join(e) for e in path), row=pr.get("row", -1))  # fmt: skip
                if pr.get("prob_of_target") is not None:
                    d["prob_of_target"] = pr["prob_of_target"]
                chk.violation(d, pr["msg"], replay=dict(part="bfs", task=dict(t, prefix=path[:-1], depth=1, only=path[-1])))
            if t["owner"] == "single":
                singles[(t["decohere"], t["tids"][0], t["init"][0], tuple(e[0] for e in path))] = (tr["fp"][0], tr["ok"] and not tr["problems"])
            elif t["owner"] in ("d1", "d2", "d3"):
                batch_rows.append((t, path, tr))
    # isolation: row m of the batch == the single-trajectory run under the same events
    ncmp = 0
    for t, path, tr in batch_rows:
        for m, tid in enumerate(t["tids"]):
            key = (t["decohere"], tid, t["init"][m], tuple(e[m] for e in path))
            if key not in singles:
                continue
            fp1, ok1 = singles[key]
            ncmp += 1
            if fp1 != tr["fp"][m]:
                chk.violation(dict(part="machine", problem_class="batch_row_differs_from_single", depth=len(path), row=m, decohere=t["decohere"],
                                   events="/".join("+".join(e) for e in path)),
                              f"trajectory {m} of the batch after {'/'.join('+'.join(e) for e in path)} differs from its single-trajectory run under {[e[m] for e in path]}",
                              replay=dict(part="bfs", task=dict(t, prefix=path[:-1], depth=1, only=path[-1])))  # fmt: skip
    chk.states = len(states)
    chk.extra["machine_events_realised"] = realised
    chk.extra["machine_batch_vs_single_comparisons"] = ncmp
    for ev in ("none", "up_ok", "up_frus", "down", "cross_active", "cross_other") if "b1" in parts else ():
        if not any(k.startswith(ev) for k in realised):
            chk.harness_error(f"hop-machine event '{ev}' was never realised: the scripted environment is vacuous")
    # ---------------- (c)
    for name in TULLY_MODELS if "c" in parts else []:
        r = tully_gradient_case(name)
        k = f"tully_gradient|{name}"
        chk.case(k, nontrivial=True, outcome=f"{r['max_err']:.1e}")
        chk.traces += 1
        if r["max_err"] > 1e-6 * max(1.0, r["scale"]):
            chk.violation(dict(part="tully", problem_class="model_gradient", model=name, value=r["max_err"]),
                          f"{k}: analytic dE/dx of the model differs from the finite difference of its own energy by {r['max_err']:.3e} "
                          f"(x = {r['x']}: analytic {np.round(r['dE'], 6).tolist()}, finite difference {np.round(r['fd'], 6).tolist()})",
                          replay=dict(part="tully_gradient", model=name))  # fmt: skip
    tl = tully_lattice(tier) if "c" in parts else []
    res = pmap(tully_case, tl, chunk=2, timeout=900, progress="C17 Tully")
    drift_max = 0.0
    for c, r in zip(tl, res):
        k = _tkey(c)
        if is_timeout(r) or is_error(r):
            chk.violation(dict(part="tully", problem_class="did_not_complete", model=c["model"]), f"{k}: {str(r)[:400]}", replay=dict(part="tully", case=c))
            continue
        chk.case(k, nontrivial=True, outcome=r["sig"])
        chk.transitions += c["steps"]
        chk.traces += 1
        if "drift" in r:
            drift_max = max(drift_max, max(d / v for d, v in zip(r["drift"], r["vrange"])))
        seen = set()
        for pr in r["problems"]:
            if pr["cls"] in seen:
                continue
            seen.add(pr["cls"])
            chk.violation(dict(part="tully", problem_class=pr["cls"], model=c["model"], batch=len(c["x0"]), mixed_active=bool(pr.get("mixed", len(set(c["init"])) > 1)),
                               row=pr.get("row", -1), init=str(c["init"])), f"{k}: {pr['msg']}", replay=dict(part="tully", case=c))  # fmt: skip
    chk.extra["tully_energy_drift_over_potential_range_max_informational"] = drift_max
    chk.planned = chk.evaluations


def replay(payload):
    rp = payload["replay"]
    _kscale()
    part = rp["part"]
    ok = True
    if part == "prop":
        r = prop_case(rp["case"])
        print("   norm", r["norm"], "\n   amp", r["amp"], "\n   resolved", r["resolved"], "auto", r["nauto"])
        for p in r["problems"]:
            print("   PROBLEM", p["msg"])
        ok = not r["problems"]
    elif part == "rescale":
        r = rescale_case(rp["case"])
        for p in r["problems"]:
            print("   PROBLEM", p["msg"])
        ok = not r["problems"]
    elif part == "draw":
        r = draw_case(rp["case"])
        for p in r["problems"]:
            print("   PROBLEM", p["msg"])
        ok = not r["problems"]
    elif part == "bfs":
        t = dict(rp["task"])
        only = t.pop("only", None)
        if only is not None:
            t["prefix"] = t["prefix"] + [only]
            t["depth"] = 0
            t["report_prefix"] = True
        for tr in bfs_task(t):
            for p in tr["problems"]:
                ok = False
                print("   PROBLEM", p["msg"])
    elif part == "tully_gradient":
        r = tully_gradient_case(rp["model"])
        print("  ", r)
        ok = r["max_err"] <= 1e-6 * max(1.0, r["scale"])
    elif part == "tully":
        r = tully_case(rp["case"])
        for p in r["problems"][:10]:
            print("   PROBLEM", p["msg"])
        ok = not r["problems"]
    return ok
