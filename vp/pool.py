"""Process pool: every chunk of tasks runs in a child forked from the warmed parent.

* the parent has imported torch/seqm with one intra-op thread and never spawns
  torch worker threads, so fork() is safe;
* chunk=1 gives one fresh process per execution (used where process history is part
  of the property, e.g. C15);
* each chunk has a wall-clock backstop; a child that exceeds it is killed and its
  unfinished tasks come back as {"__timeout__": True} (the deterministic iteration
  horizon of vp.budget is the primary hang detector, this is only the backstop).
"""
import io
import os
import pickle
import select
import signal
import sys
import time
import traceback

NWORKERS = int(os.environ.get("VP_WORKERS", str(min(16, os.cpu_count() or 1))))


class TaskError(Exception):
    pass


def _child(fn, chunk, wfd, quiet):
    # child: run tasks, stream one pickle per task to the pipe
    try:
        if quiet:
            devnull = os.open(os.devnull, os.O_WRONLY)
            os.dup2(devnull, 1)
            sys.stdout = io.TextIOWrapper(os.fdopen(os.dup(devnull), "wb"))
        with os.fdopen(wfd, "wb") as w:
            for idx, item in chunk:
                try:
                    res = fn(item)
                except BaseException as e:  # noqa: BLE001 - report everything to the parent
                    res = {"__error__": f"{type(e).__name__}: {e}", "__trace__": traceback.format_exc()}
                data = pickle.dumps((idx, res), protocol=pickle.HIGHEST_PROTOCOL)
                w.write(len(data).to_bytes(8, "little"))
                w.write(data)
                w.flush()
    finally:
        os._exit(0)


def pmap(fn, items, chunk=1, timeout=600.0, workers=None, quiet=True, progress=None):
    """Apply fn to every item in forked children; returns results in order.

    timeout is per chunk (seconds).  Results of tasks whose child was killed are
    {"__timeout__": True}; tasks that raised are {"__error__": ..., "__trace__": ...}.
    """
    items = list(items)
    n = len(items)
    results = [None] * n
    done = [False] * n
    workers = workers or NWORKERS
    chunks = [[(i, items[i]) for i in range(s, min(s + chunk, n))] for s in range(0, n, chunk)]
    pending = list(reversed(chunks))
    running = {}  # rfd -> dict(pid, chunk, buf, t0)
    ndone = 0
    last_report = time.time()
    while pending or running:
        while pending and len(running) < workers:
            ch = pending.pop()
            rfd, wfd = os.pipe()
            sys.stdout.flush()
            sys.stderr.flush()
            pid = os.fork()
            if pid == 0:
                os.close(rfd)
                for other in running:
                    try:
                        os.close(other)
                    except OSError:
                        pass
                _child(fn, ch, wfd, quiet)
            os.close(wfd)
            os.set_blocking(rfd, False)
            running[rfd] = {"pid": pid, "chunk": ch, "buf": bytearray(), "t0": time.time()}
        if not running:
            continue
        ready, _, _ = select.select(list(running), [], [], 0.2)
        now = time.time()
        for rfd in list(running):
            st = running[rfd]
            eof = False
            if rfd in ready:
                while True:
                    try:
                        data = os.read(rfd, 1 << 20)
                    except BlockingIOError:
                        break
                    if not data:
                        eof = True
                        break
                    st["buf"] += data
                buf = st["buf"]
                while len(buf) >= 8:
                    ln = int.from_bytes(buf[:8], "little")
                    if len(buf) < 8 + ln:
                        break
                    idx, res = pickle.loads(bytes(buf[8 : 8 + ln]))
                    del buf[: 8 + ln]
                    results[idx] = res
                    done[idx] = True
                    ndone += 1
            timed_out = (now - st["t0"]) > timeout
            if eof or timed_out:
                if timed_out and not eof:
                    try:
                        os.kill(st["pid"], signal.SIGKILL)
                    except ProcessLookupError:
                        pass
                try:
                    os.waitpid(st["pid"], 0)
                except ChildProcessError:
                    pass
                os.close(rfd)
                first = True
                for idx, _item in st["chunk"]:
                    if not done[idx]:
                        if timed_out:
                            # only the task that was running is blamed; the rest are re-queued
                            if first:
                                results[idx] = {"__timeout__": True}
                                done[idx] = True
                                ndone += 1
                                first = False
                        else:
                            if first:
                                results[idx] = {"__error__": "child died without result", "__trace__": ""}
                                done[idx] = True
                                ndone += 1
                                first = False
                rest = [(idx, it) for idx, it in st["chunk"] if not done[idx]]
                if rest:
                    pending.append(rest)
                del running[rfd]
        if progress and now - last_report > 15:
            last_report = now
            print(f"  [{progress}] {ndone}/{n}", flush=True)
    return results


def is_timeout(r):
    return isinstance(r, dict) and r.get("__timeout__") is True


def is_error(r):
    return isinstance(r, dict) and "__error__" in r
