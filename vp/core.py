"""Check context: counters, violations, known findings, replay files, evidence."""
import hashlib
import json
import os
import subprocess
import sys
import time

from . import VERIF_ROOT

# evidence/ is only ever written by runs against /repo itself; a run against a scratch worktree (VP_REPO, seeded
# changes) writes its evidence under scratch/ (git-ignored) so that it can never replace a committed evidence file
_REPO = os.path.realpath(os.environ.get("VP_REPO", "/repo"))
EVIDENCE_DIR = os.environ.get("VP_EVIDENCE_DIR") or (
    os.path.join(VERIF_ROOT, "evidence") if _REPO == "/repo" else os.path.join(VERIF_ROOT, "scratch", "evidence_" + os.path.basename(_REPO))
)
REPLAY_DIR = os.path.join(VERIF_ROOT, "replays")
FINDINGS_FILE = os.path.join(VERIF_ROOT, "known_findings.json")


def canon(obj):
    return json.dumps(obj, sort_keys=True, default=_json_default, separators=(",", ":"))


def _json_default(o):
    try:
        import numpy as np

        if isinstance(o, np.ndarray):
            return o.tolist()
        if isinstance(o, (np.integer,)):
            return int(o)
        if isinstance(o, (np.floating,)):
            return float(o)
        if isinstance(o, (np.bool_,)):
            return bool(o)
    except ImportError:
        pass
    if isinstance(o, (set, frozenset, tuple)):
        return list(o)
    return repr(o)


def _match_value(pat, val):
    if isinstance(pat, dict):
        if "in" in pat:
            return val in pat["in"]
        if "not_in" in pat:
            return val not in pat["not_in"]
        if "ge" in pat or "le" in pat or "lt" in pat or "gt" in pat:
            try:
                ok = True
                if "ge" in pat:
                    ok = ok and val >= pat["ge"]
                if "le" in pat:
                    ok = ok and val <= pat["le"]
                if "gt" in pat:
                    ok = ok and val > pat["gt"]
                if "lt" in pat:
                    ok = ok and val < pat["lt"]
                return ok
            except TypeError:
                return False
        if "contains" in pat:
            try:
                return pat["contains"] in val
            except TypeError:
                return False
        return False
    return pat == val


def load_findings(pid):
    if not os.path.exists(FINDINGS_FILE):
        return []
    with open(FINDINGS_FILE) as f:
        data = json.load(f)
    return [e for e in data.get("findings", []) if e.get("property") == pid]


class Check:
    """One run of one property's check.

    case(key, ...)      registers an executed case (evaluation) with its canonical key
    violation(desc,...) registers a failed oracle; matched against known_findings.json
    finish()            writes evidence/<id>.json, prints the verdict, returns exit code
    """

    def __init__(self, pid, level, tier, seed, rule, assumptions=None):
        self.pid = pid
        self.level = level
        self.tier = tier
        self.seed = int(seed)
        self.rule = rule
        self.assumptions = list(assumptions or [])
        self.t0 = time.time()
        self.evaluations = 0
        self._keys = set()
        self._nontrivial = set()
        self._outcomes = set()
        self.samples = []
        self.states = 0
        self.transitions = 0
        self.traces = 0
        self.caps_hit = []
        self.planned = None
        self.extra = {}
        self.rejected = 0
        self.excluded = 0
        self._viol = []  # new violations
        self._known_hit = {}  # finding id -> count
        self._findings = load_findings(pid)
        self.harness_errors = []
        self.exhaustive = True
        self.max_samples = 6

    # -- bookkeeping -----------------------------------------------------------
    def case(self, key, nontrivial=True, outcome=None, sample=None):
        self.evaluations += 1
        k = key if isinstance(key, str) else canon(key)
        self._keys.add(k)
        if nontrivial:
            self._nontrivial.add(k)
        if outcome is not None:
            self._outcomes.add(outcome if isinstance(outcome, str) else canon(outcome))
        if sample is not None and len(self.samples) < self.max_samples:
            self.samples.append(sample)
        elif len(self.samples) < self.max_samples and nontrivial:
            self.samples.append(key)

    def cap(self, what):
        self.caps_hit.append(what)
        self.exhaustive = False

    def harness_error(self, msg):
        self.harness_errors.append(msg)
        print(f"HARNESS-ERROR property={self.pid} {msg}", flush=True)

    # -- violations ------------------------------------------------------------
    def violation(self, desc, detail, replay=None):
        """desc: flat dict describing the failing case (what known-finding predicates match on)."""
        for f in self._findings:
            if f.get("status", "open") != "open":
                continue
            m = f.get("match", {})
            if all((k in desc) and _match_value(v, desc[k]) for k, v in m.items()):
                self._known_hit.setdefault(f["id"], {"what": f["what"], "n": 0, "example": desc, "detail": detail})
                self._known_hit[f["id"]]["n"] += 1
                return False
        payload = {"property": self.pid, "desc": desc, "detail": detail, "replay": replay or desc}
        h = hashlib.sha1(canon(payload["replay"]).encode()).hexdigest()[:12]
        d = os.path.join(REPLAY_DIR, self.pid)
        os.makedirs(d, exist_ok=True)
        path = os.path.join(d, f"{h}.json")
        with open(path, "w") as fh:
            json.dump(payload, fh, indent=1, sort_keys=True, default=_json_default)
        if len(self._viol) < 50:
            print(f"VIOLATION property={self.pid} replay={path}", flush=True)
            print(f"  detail: {detail}", flush=True)
        self._viol.append(path)
        return True

    # -- finish ----------------------------------------------------------------
    def finish(self):
        wall = time.time() - self.t0
        for fid, info in self._known_hit.items():
            print(
                f"KNOWN-FINDING: property={self.pid} {info['what']} [{fid}; {info['n']} case(s); e.g. {info['detail']}]",
                flush=True,
            )
        cov = {
            "evaluations": int(self.evaluations),
            "distinct_cases": len(self._keys),
            "distinct_nontrivial": len(self._nontrivial),
            "distinct_outcomes": len(self._outcomes),
            "rule": self.rule,
            "samples": self.samples[: self.max_samples] or ["<none>"],
            "exhaustive": bool(self.exhaustive and not self.caps_hit),
            "caps_hit": self.caps_hit,
            "planned": self.planned if self.planned is not None else int(self.evaluations),
            "rejected_by_package": int(self.rejected),
            "excluded_by_oracle": int(self.excluded),
            "known_findings_matched": {k: v["n"] for k, v in self._known_hit.items()},
        }
        if self.level == "model_checking":
            cov["states"] = int(self.states)
            cov["transitions"] = int(self.transitions)
            cov["traces_validated_against_impl"] = int(self.traces)
        if self.level == "other":
            cov["explanation"] = self.extra.pop("explanation", self.rule)
        cov.update(self.extra)
        ev = {
            "property_id": self.pid,
            "tier": self.tier,
            "seed": self.seed,
            "level": self.level,
            "coverage": cov,
            "assumptions": self.assumptions,
            "wall_s": round(wall, 2),
            "violations": len(self._viol),
        }
        os.makedirs(EVIDENCE_DIR, exist_ok=True)
        path = os.path.join(EVIDENCE_DIR, f"{self.pid}.json")
        with open(path, "w") as fh:
            json.dump(ev, fh, indent=1, default=_json_default)
        _validate(path)
        vac = len(self._nontrivial) < 2
        if vac:
            self.harness_error("vacuous run: fewer than 2 distinct non-trivial cases")
        print(
            f"[{self.pid}] tier={self.tier} seed={self.seed} evaluations={self.evaluations} "
            f"distinct_nontrivial={len(self._nontrivial)} outcomes={len(self._outcomes)} "
            f"states={self.states} transitions={self.transitions} traces={self.traces} "
            f"rejected={self.rejected} excluded={self.excluded} caps={len(self.caps_hit)} "
            f"known={sum(v['n'] for v in self._known_hit.values())} violations={len(self._viol)} "
            f"wall={wall:.1f}s",
            flush=True,
        )
        if self._viol:
            return 1
        if self.harness_errors:
            return 2
        return 0


def _validate(path):
    schema = "/root/.vp/EVIDENCE.schema.json"
    if not os.path.exists(schema):
        return
    code = (
        "import json,sys,jsonschema;"
        "jsonschema.validate(json.load(open(sys.argv[1])),json.load(open(sys.argv[2])))"
    )
    for py in ("python3-vt", "/opt/veriftools/pyvenv/bin/python"):
        try:
            r = subprocess.run([py, "-c", code, path, schema], capture_output=True, text=True, timeout=60)
        except (FileNotFoundError, subprocess.TimeoutExpired):
            continue
        if r.returncode != 0:
            print(f"HARNESS-ERROR evidence file {path} does not validate:\n{r.stderr[-800:]}", file=sys.stderr)
        return
