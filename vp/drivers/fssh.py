"""Surface-hopping harness: the REAL SurfaceHoppingDynamics step (`_do_integrator_step`, `_detect_crossings`,
`_propagate_electronic`, `_after_electronic_update`, `_attempt_hop`, `_rescale_velocity_along_nac`) driven by a
scripted environment.  Only the providers of electronic-structure data are synthetic (state energies, CIS
amplitudes, time-derivative couplings, NAC vectors, per-state forces) - the same cut the repository's own
DummyFSSH tests make, except that nothing of the hop logic is stubbed.

Imported only after vp.bootstrap().
"""
import copy
import importlib.util
import os
from types import SimpleNamespace

import numpy as np
import torch

from .. import REPO_ROOT

EVENTS = ["none", "up_ok", "up_frus", "down", "cross_active", "cross_other"]
RAND = {"none": 1.0 - 1e-12, "up_ok": 0.25, "up_frus": 0.5, "down": 0.75, "cross_active": 0.5, "cross_other": 1.0 - 1e-12, "none_r0": 0.0}


def load_tully():
    path = os.path.join(REPO_ROOT, "scripts", "tully_surface_hopping", "TullyModels.py")
    spec = importlib.util.spec_from_file_location("vp_TullyModels", path)
    mod = importlib.util.module_from_spec(spec)
    spec.loader.exec_module(mod)
    return mod


# ------------------------------------------------------------------------------------------------ trajectories

NSTATES = 3
NCOEF = 5
NATOMS = 2


def trajectory_world(tid, seed=0):
    """Fixed per-trajectory world (masses, velocities, NAC vector field, per-state forces, amplitude basis).
    tid 0 is planar (all z components exactly zero), tid 1 is generic; seed selects a member of a fixed family."""
    s = 0.31 * (seed % 5)
    if tid == 0:
        mass = np.array([12.0, 1.0])
        v0 = np.array([[0.030 + 0.002 * s, -0.012, 0.0], [-0.055, 0.041 + 0.003 * s, 0.0]])
        z = 0.0
    else:
        mass = np.array([1.0, 16.0])
        v0 = np.array([[0.047, 0.020 - 0.002 * s, -0.033], [0.018 + 0.001 * s, -0.026, 0.011]])
        z = 1.0
    nac = {}
    for i in range(NSTATES):
        for j in range(i + 1, NSTATES):
            k = i * NSTATES + j + tid
            d = np.array(
                [[np.sin(1.1 * k + 0.3 + s), np.cos(0.7 * k + 1.0), z * np.sin(2.1 * k + 0.2)],
                 [np.cos(1.9 * k + 0.5), np.sin(0.4 * k + 2.0 + s), z * np.cos(1.3 * k + 0.9)]]
            )  # fmt: skip
            nac[(i, j)] = 0.8 * d
    force = np.array(
        [[[0.3 * np.sin(st + a + tid + s), 0.2 * np.cos(2 * st + a), z * 0.25 * np.sin(st - a)] for a in range(NATOMS)] for st in range(NSTATES)]
    )
    # orthonormal amplitude basis (rows)
    rng = np.array([[np.sin(1.0 + 1.7 * r + 0.9 * c + tid + s) for c in range(NCOEF)] for r in range(NSTATES)])
    q, _ = np.linalg.qr(rng.T)
    basis = q.T[:NSTATES]
    return dict(tid=tid, mass=mass, v0=v0, nac=nac, force=force, basis=basis, ladder=np.array([2.0, 2.3, 2.9]) + 0.05 * tid)


class Env:
    """Scripted environment.  All answers for trajectory m depend only on (event of m, observable state of m)."""

    def __init__(self, worlds, dt):
        self.worlds = worlds
        self.dt = dt
        self.step = 0
        self.events = None
        self.basis = [w["basis"].copy() for w in worlds]  # current CIS amplitude rows per trajectory
        self.answers = None

    def plan(self, dyn, events):
        """answers for the coming step, from the pre-step state."""
        self.events = list(events)
        out = []
        for m, (w, ev) in enumerate(zip(self.worlds, events)):
            a = int(dyn._active_states[m])
            n = NSTATES
            k = self.step
            E = w["ladder"] + 0.01 * np.sin(0.8 * k + np.arange(n) + w["tid"])
            nd = np.zeros((n, n))
            swaps = []
            target = None
            if ev in ("none", "none_r0"):
                if ev == "none":
                    for i in range(n):
                        for j in range(i + 1, n):
                            nd[i, j] = 0.05 * (1 + 0.3 * i + 0.2 * j)
            elif ev in ("up_ok", "up_frus"):
                if a + 1 < n:
                    target = a + 1
                    if ev == "up_frus":
                        E = E.copy()
                        E[target:] += 5.0
            elif ev == "down":
                if a - 1 >= 0:
                    target = a - 1
            elif ev == "cross_active":
                p = a + 1 if a + 1 < n else a - 1
                swaps = [(min(a, p), max(a, p))]
            elif ev == "cross_other":
                o = [s for s in range(n) if s != a]
                swaps = [(o[0], o[1])]
            feasible = not (ev in ("up_ok", "up_frus", "down") and target is None)
            if target is not None:
                D = 1.0 / self.dt  # D dt = 1: the fewest-switches sum exceeds one and is renormalised to one
                i, j = min(a, target), max(a, target)
                nd[i, j] = D
            for i, j in swaps:
                nd[i, j] = 1.0 / self.dt  # coupling peak of the crossing pair: must be zeroed by the crossing handler
                for p_ in range(n):
                    for q_ in range(p_ + 1, n):
                        if (p_, q_) != (i, j):
                            nd[p_, q_] = 0.04
            nd = nd - nd.T
            # new CIS amplitudes: small rotation of the previous rows, then the scripted swap of rows
            th = 0.05 * np.cos(0.6 * k + w["tid"])
            R = np.eye(n)
            R[0, 0] = R[1, 1] = np.cos(th)
            R[0, 1] = -np.sin(th)
            R[1, 0] = np.sin(th)
            rows = R @ self.basis[m]
            perm = list(range(n))
            for i, j in swaps:
                perm[i], perm[j] = j, i
            newrows = rows[perm]
            if swaps:
                E = np.sort(E)
            out.append(dict(event=ev, feasible=feasible, E=E, nd=nd, swaps=swaps, amp=newrows, r=RAND[ev], target=target,
                            nacvec=w["nac"], minv=1.0 / w["mass"], force=w["force"]))  # fmt: skip
        self.answers = out
        return out

    def commit(self):
        for m, ans in enumerate(self.answers):
            self.basis[m] = ans["amp"]
        self.step += 1


def make_dyn(worlds, dt, substeps, decohere, init_active):
    from seqm.NonadiabaticDynamics import SurfaceHoppingDynamics

    class ScriptedFSSH(SurfaceHoppingDynamics):
        def __init__(self):  # skip the heavy parent constructor, as the repository's DummyFSSH does
            pass

        def _compute_electronic_structure(self, molecule, learned_parameters, **kwargs):
            ans = self.env.answers
            nmol = len(ans)
            energies = torch.as_tensor(np.stack([a["E"] for a in ans]))
            cache = {
                "energies": energies,
                "cis_amp": torch.as_tensor(np.stack([a["amp"] for a in ans])),
                "nac_dot": torch.as_tensor(np.stack([a["nd"] for a in ans])),
            }
            act = self._active_states
            idx = torch.arange(nmol)
            molecule.force = torch.as_tensor(np.stack([a["force"] for a in ans]))[idx, act]
            molecule.Etot = energies[idx, act] - 40.0
            self._cache_new = cache
            return energies

        def _compute_NACR_for_hop(self, molecule, nac_pairs):
            ans = self.env.answers
            out = {}
            for s1, s2 in nac_pairs:
                key = (s1 - 1, s2 - 1)
                if key[0] == key[1]:
                    continue  # no coupling vector exists between a state and itself
                out[key] = torch.as_tensor(np.stack([a["nacvec"][key] for a in ans]))
            self.nacr_requests.append(list(nac_pairs))
            return out

        def _recompute_active_force(self, molecule):
            ans = self.env.answers
            idx = torch.arange(len(ans))
            molecule.force = torch.as_tensor(np.stack([a["force"] for a in ans]))[idx, self._active_states]
            self.force_recomputes += 1

    nmol = len(worlds)
    dyn = ScriptedFSSH()
    dyn.timestep = dt
    dyn.damp = None
    dyn._nstates = NSTATES
    dyn._electronic_substeps = substeps
    dyn._amp_phase = torch.zeros((nmol, NSTATES, 3), dtype=torch.float64)
    for m, a in enumerate(init_active):
        # a slightly coherent start (norm one) so that hop integrals are non-trivial from the first step
        dyn._amp_phase[m, :, 0] = 0.08
        dyn._amp_phase[m, :, 1] = -0.05
        dyn._amp_phase[m, a, 0] = np.sqrt(1.0 - (NSTATES - 1) * (0.08**2 + 0.05**2) - 0.05**2)
    dyn._current_potential = None
    dyn._hop_integral = None
    dyn._detect_crossings_flag = True
    dyn._eye_cache, dyn._arange_cache = {}, {}
    dyn._perm_cost_buffers, dyn._trivial_zero_buffers, dyn._trivial_swap_buffers = {}, {}, {}
    dyn._active_states = torch.as_tensor(list(init_active), dtype=torch.long)
    dyn.post_hop_holdoff = torch.zeros((nmol,), dtype=torch.long)
    dyn.prev_state = torch.full((nmol,), -1, dtype=torch.long)
    dyn._decohere_on_hop = bool(decohere)
    dyn._trivial_crossing_mask = None
    dyn.hop_log = []
    dyn._tdc_method = "hamiltonian_fd"
    dyn._cache_prev_cis_amp = True
    dyn._h5_writer = None
    dyn.step_offset = 0
    dyn._cache_new = None
    dyn.nacr_requests = []
    dyn.force_recomputes = 0
    env = Env(worlds, dt)
    dyn.env = env
    n = NSTATES
    dyn._cache_old = {
        "energies": torch.as_tensor(np.stack([w["ladder"] for w in worlds])),
        "cis_amp": torch.as_tensor(np.stack([w["basis"] for w in worlds])),
        "nac_dot": torch.zeros((nmol, n, n), dtype=torch.float64),
    }
    mass = torch.as_tensor(np.stack([w["mass"] for w in worlds])).reshape(nmol, NATOMS, 1)
    mol = SimpleNamespace(
        coordinates=torch.zeros((nmol, NATOMS, 3), dtype=torch.float64),
        velocities=torch.as_tensor(np.stack([w["v0"] for w in worlds])).clone(),
        force=torch.as_tensor(np.stack([w["force"][a] for w, a in zip(worlds, init_active)])).clone(),
        mass=mass,
        mass_inverse=1.0 / mass,
        Etot=torch.zeros(nmol, dtype=torch.float64),
        w=None,
    )
    from seqm.MolecularDynamics import CONSTANTS

    mol.acc = mol.force * mol.mass_inverse * CONSTANTS.ACC_SCALE
    return dyn, mol, env


class Recorder:
    """observation-only wrappers (they call the real bound methods)."""

    def __init__(self, dyn, mol):
        self.dyn, self.mol = dyn, mol
        self.clear()
        for name in ("_detect_crossings", "_propagate_electronic", "_attempt_hop", "_rescale_velocity_along_nac"):
            setattr(self, "_orig" + name, getattr(dyn, name))
        dyn._detect_crossings = self._detect
        dyn._propagate_electronic = self._prop
        dyn._attempt_hop = self._attempt
        dyn._rescale_velocity_along_nac = self._rescale

    def clear(self):
        self.swap_to = None
        self.hold_after_detect = None
        self.amp_prop = None
        self.hopint = None
        self.nd_used = None
        self.targets = None
        self.amp_at_hop = None
        self.active_at_hop = None
        self.v_at_hop = None
        self.rescales = []

    def _detect(self, cache_old, cache_new):
        out = self._orig_detect_crossings(cache_old, cache_new)
        self.swap_to = None if out is None else out.clone().numpy()
        self.hold_after_detect = self.dyn.post_hop_holdoff.clone().numpy()
        self.nd_used = cache_new["nac_dot"].clone().numpy()
        return out

    def _prop(self, cache_old, cache_new, substeps=None):
        out = self._orig_propagate_electronic(cache_old, cache_new, substeps=substeps)
        self.amp_prop = self.dyn._amp_phase.clone().numpy()
        self.hopint = self.dyn._hop_integral.clone().numpy()
        return out

    def _attempt(self):
        self.amp_at_hop = self.dyn._amp_phase.clone().numpy()
        self.active_at_hop = self.dyn._active_states.clone().numpy()
        self.v_at_hop = self.mol.velocities.clone().numpy()
        out = self._orig_attempt_hop()
        self.targets = out.clone().numpy()
        return out

    def _rescale(self, nac_vec, i_state, j_state, molecule, dE, mol_index):
        vb = molecule.velocities.clone().numpy()
        ok = self._orig_rescale_velocity_along_nac(nac_vec, i_state, j_state, molecule, dE, mol_index=mol_index)
        self.rescales.append(dict(i=int(i_state), j=int(j_state), dE=float(dE), mol=int(mol_index), ok=bool(ok), v_before=vb, v_after=molecule.velocities.clone().numpy()))
        return ok


class scripted_rand:
    """torch.rand answers scripted by the harness for the duration of one step."""

    def __init__(self, values):
        self.values = values
        self.calls = 0

    def __enter__(self):
        self._orig = torch.rand
        outer = self

        def fake(*size, **kw):
            outer.calls += 1
            n = size[0] if size else 1
            v = torch.as_tensor(np.asarray(outer.values, dtype=float))
            assert v.numel() == n, (v, size)
            return v.clone()

        torch.rand = fake
        return self

    def __exit__(self, *exc):
        torch.rand = self._orig
        return False


def snapshot(dyn, mol, env):
    d = {k: v for k, v in dyn.__dict__.items() if k not in ("env",) and not callable(v)}
    return copy.deepcopy((d, mol.__dict__, dict(step=env.step, basis=env.basis)))


def restore(dyn, mol, env, snap):
    d, m, e = copy.deepcopy(snap)
    for k, v in d.items():
        dyn.__dict__[k] = v
    mol.__dict__.update(m)
    env.step = e["step"]
    env.basis = e["basis"]
    env.answers = None


def state_of(dyn, mol, m):
    return dict(
        active=int(dyn._active_states[m]), hold=int(dyn.post_hop_holdoff[m]), prev=int(dyn.prev_state[m]),
        amp=dyn._amp_phase[m].clone().numpy(), v=mol.velocities[m].clone().numpy(),
    )  # fmt: skip
