"""Stand-ins owned by the harness for the two things the Langevin analysis of C12 must control:

* `harmonic_class(K, x0)` — an `Electronic_Structure` subclass whose forward() sets a *linear* force
  F = -K (x - x0) (and the handful of attributes the MD classes read), so that the REAL `one_step`
  of every engine becomes an exactly affine map of the phase-space point;
* `scripted_noise()` — replaces the name `torch` *as seen by seqm.MolecularDynamics* by a proxy that
  forwards everything to the real torch except `randn_like`, which is answered from a script
  (zeros / one-hot tensors) while `proxy.scripted` is on, and counted.

Nothing in the package is edited; both are installed by rebinding module globals and restored afterwards.
"""
import contextlib

import numpy as np
import torch


def harmonic_class(K, x0):
    """K: (nmol, 3n, 3n) symmetric (rows/cols of padding atoms zero), x0: (nmol, n, 3)."""
    from seqm.ElectronicStructure import Electronic_Structure

    Kt = torch.as_tensor(np.asarray(K, float))
    X0 = torch.as_tensor(np.asarray(x0, float))

    class HarmonicES(Electronic_Structure):
        calls = 0

        def __init__(self, seqm_parameters, *a, **kw):
            torch.nn.Module.__init__(self)
            self.seqm_parameters = seqm_parameters

            class _E:  # the attributes MD.initialize touches
                md = False
                excited_states = seqm_parameters.get("excited_states") or {}

            class _F:
                energy = _E()

            self.conservative_force = _F()
            self.device = torch.device("cpu")

        def forward(self, molecule, *a, **kw):
            type(self).calls += 1
            nmol, n = molecule.coordinates.shape[:2]
            d = (molecule.coordinates.detach() - X0).reshape(nmol, 3 * n)
            Kd = torch.einsum("mij,mj->mi", Kt, d)
            molecule.force = (-Kd).reshape(nmol, n, 3)
            molecule.Etot = 0.5 * (d * Kd).sum(1)
            z = torch.zeros(nmol, dtype=d.dtype)
            molecule.Hf = molecule.Etot.clone()
            molecule.Eelec = molecule.Etot.clone()
            molecule.Enuc = z.clone()
            molecule.Eiso = z.clone()
            molecule.e_gap = z.clone()
            molecule.e_mo = torch.zeros(nmol, 4 * n, dtype=d.dtype)
            molecule.dipole = torch.zeros(nmol, 3, dtype=d.dtype)
            molecule.dm = torch.zeros(nmol, 4 * n, 4 * n, dtype=d.dtype)
            molecule.Electronic_entropy = z.clone()
            molecule.dP2dt2 = torch.zeros_like(molecule.dm)
            molecule.Krylov_Error = z.clone()
            molecule.Fermi_occ = torch.zeros(nmol, 4 * n, dtype=d.dtype)
            molecule.q = torch.zeros(nmol, n, dtype=d.dtype)

    return HarmonicES


@contextlib.contextmanager
def installed_driver(cls):
    from seqm import MolecularDynamics as MDm

    saved = MDm.esdriver
    MDm.esdriver = cls
    try:
        yield cls
    finally:
        MDm.esdriver = saved


class TorchProxy:
    """forwards to the real torch; `randn_like` is scripted while .scripted is True"""

    def __init__(self):
        self.__dict__["_real"] = torch
        self.__dict__["scripted"] = False
        self.__dict__["script"] = []  # list of tensors or None (= zeros), consumed front to back
        self.__dict__["draws"] = 0
        self.__dict__["unscripted"] = 0

    def __getattr__(self, name):
        return getattr(self.__dict__["_real"], name)

    def __setattr__(self, name, value):
        self.__dict__[name] = value

    def randn_like(self, t, *a, **kw):
        if not self.scripted:
            return torch.randn_like(t, *a, **kw)
        self.draws += 1
        if self.script:
            ans = self.script.pop(0)
        else:
            ans = None
            self.unscripted += 1
        if ans is None:
            return torch.zeros_like(t)
        ans = torch.as_tensor(ans, dtype=t.dtype)
        if ans.shape != t.shape:
            raise RuntimeError(f"scripted noise has shape {tuple(ans.shape)}, the package asked for {tuple(t.shape)}")
        return ans.clone()


@contextlib.contextmanager
def scripted_noise():
    from seqm import MolecularDynamics as MDm

    proxy = TorchProxy()
    saved = MDm.torch
    MDm.torch = proxy
    try:
        yield proxy
    finally:
        MDm.torch = saved


def spd_matrix(n_real, n_total, kdiag, coupling):
    """deterministic symmetric positive definite force-constant matrix (eV/A^2) on the first 3*n_real
    coordinates (tethered + fully coupled); zero on padding rows/cols."""
    m = 3 * n_real
    i = np.arange(m)
    off = coupling * np.cos(0.7 * (i[:, None] + 1) * (i[None, :] + 2) + 0.3) / m
    off = 0.5 * (off + off.T)
    np.fill_diagonal(off, 0.0)
    d = kdiag * (1.0 + 0.35 * np.sin(1.3 * i + 0.4))
    Kr = np.diag(d) + off * kdiag
    # diagonal dominance => SPD
    assert np.all(np.linalg.eigvalsh(Kr) > 0)
    K = np.zeros((3 * n_total, 3 * n_total))
    K[:m, :m] = Kr
    return K
