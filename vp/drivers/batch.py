"""Batch assembler with per-slot padding coordinates, per-row views of batch results and
same-element atom transpositions (used by C05 and C20).

`M.batch` pads every slot with one value; the C05 lattice needs the value to differ per slot
and per row (e.g. "coincident with atom 0 of the same row"), so this module builds the arrays
itself and then constructs the real Molecule / Electronic_Structure exactly like `sp.build`.
"""
import contextlib
import copy
import itertools

import numpy as np
import torch

from . import sp

FAR = (7.7, -3.3, 1.1)
HUGE = 1.0e4

# the finite alphabet of padding-slot coordinate patterns
PAD_PATTERNS = ("zero", "atom0", "far", "huge", "mixed")


def pad_coordinate(pattern, mol, slot):
    """coordinate stored in padding slot number `slot` (0 = first slot after the real atoms) of a row
    holding molecule `mol`."""
    if pattern == "mixed":  # a different member of the alphabet in every slot
        pattern = ("atom0", "huge", "far", "zero")[slot % 4]
    if pattern == "zero":
        return np.zeros(3)
    if pattern == "atom0":
        return np.array(mol["coords"][0], float)
    if pattern == "far":
        return np.array(FAR)
    if pattern == "huge":
        return np.full(3, HUGE)
    raise ValueError(pattern)


def assemble(mols, pad_extra=0, pattern="zero"):
    """species (nmol, n), coordinates (nmol, n, 3), charges, multiplicities as numpy arrays."""
    n = max(len(m["species"]) for m in mols) + int(pad_extra)
    species = np.zeros((len(mols), n), dtype=np.int64)
    xyz = np.zeros((len(mols), n, 3))
    for i, m in enumerate(mols):
        k = len(m["species"])
        species[i, :k] = m["species"]
        xyz[i, :k] = m["coords"]
        for s in range(k, n):
            xyz[i, s] = pad_coordinate(pattern, m, s - k)
    ch = np.array([m.get("charge", 0) for m in mols], dtype=np.int64)
    mu = np.array([m.get("mult", 1) for m in mols], dtype=np.int64)
    return species, xyz, ch, mu


def n_pad_slots(mols, pad_extra=0):
    n = max(len(m["species"]) for m in mols) + int(pad_extra)
    return sum(n - len(m["species"]) for m in mols)


def build(mols, params, pad_extra=0, pattern="zero", **molkw):
    """real Molecule + Electronic_Structure for the assembled batch (params is mutated by the package)."""
    from seqm.ElectronicStructure import Electronic_Structure
    from seqm.Molecule import Molecule
    from seqm.seqm_functions.constants import Constants

    if isinstance(mols, dict):
        mols = [mols]
    species, xyz, ch, mu = assemble(mols, pad_extra, pattern)
    kw = dict(molkw)
    if np.any(ch != 0) or np.any(mu != 1) or params.get("UHF"):
        kw["charges"] = torch.as_tensor(ch, dtype=torch.int64)
        kw["mult"] = torch.as_tensor(mu, dtype=torch.int64)
    molecule = Molecule(
        Constants(), params, torch.as_tensor(xyz, dtype=torch.float64), torch.as_tensor(species, dtype=torch.int64), **kw
    )
    return molecule, Electronic_Structure(params)


OBS = [
    "Etot", "Hf", "Eelec", "Enuc", "Eiso", "force", "q", "e_mo", "e_gap", "dm", "dipole", "cis_energies",
    "oscillator_strength", "transition_dipole",
]  # fmt: skip


def single_point(mols, params, pad_extra=0, pattern="zero", active_state=None, names=None):
    """one call of the real driver on the assembled batch; dict of numpy observations (+ pad_xyz_after)."""
    params = copy.deepcopy(params)
    molecule, es = build(mols, params, pad_extra, pattern)
    if active_state is not None:
        molecule.active_state = active_state
    molecule.verbose = False
    es(molecule)
    out = sp.observe(molecule, es, names or OBS)
    out["coordinates_after"] = sp.to_np(molecule.coordinates)
    return out


def row(obs, k, mol):
    """observations of batch row k trimmed to the real atoms / orbitals of `mol` plus what the row holds in
    its padding region (`pad.*`, must all be zero)."""
    n = len(mol["species"])
    nheavy = sum(1 for z in mol["species"] if z > 1)
    norb = 4 * nheavy + (n - nheavy)
    out = {}
    for name, v in obs.items():
        if v is None or name in ("coordinates_after",):
            continue
        r = np.asarray(v[k])
        if name in ("force",):
            out[name] = r[:n]
            out["pad.force"] = r[n:]
        elif name == "q":
            out[name] = r[:n]
            out["pad.q"] = r[n:]
        elif name == "e_mo":
            if r.ndim == 1:
                out[name] = r[:norb]
                out["pad.e_mo"] = r[norb:]
            else:  # UHF: (2, norb)
                out[name] = r[..., :norb]
                out["pad.e_mo"] = r[..., norb:]
        elif name == "dm":
            m = 4 * n
            out[name] = r[..., :m, :m]
            pad = r.copy()
            pad[..., :m, :m] = 0.0
            out["pad.dm"] = pad
        else:
            out[name] = r
    return out


# ----------------------------------------------------------------------------- relabelling


def transpositions(mol):
    """every pair (i, j), i < j, of atoms of the same element."""
    s = mol["species"]
    return [(i, j) for i, j in itertools.combinations(range(len(s)), 2) if s[i] == s[j]]


def transpose(mol, i, j):
    """the same molecule with atoms i and j (same element) exchanged in the input arrays."""
    assert mol["species"][i] == mol["species"][j]
    m = dict(mol)
    c = mol["coords"].copy()
    c[[i, j]] = c[[j, i]]
    m["coords"] = c
    return m


def permute_row(rowobs, i, j):
    """apply the atom transposition (i, j) to the per-atom outputs of a trimmed row (see `row`), so that it
    can be compared with the row of the untransposed molecule."""
    out = dict(rowobs)
    for name in ("force", "q"):
        if name in out:
            a = out[name].copy()
            a[[i, j]] = a[[j, i]]
            out[name] = a
    if "dm" in out:
        d = out["dm"].copy()
        idx = np.arange(d.shape[-1])
        bi, bj = idx[4 * i : 4 * i + 4].copy(), idx[4 * j : 4 * j + 4].copy()
        idx[4 * i : 4 * i + 4], idx[4 * j : 4 * j + 4] = bj, bi
        out["dm"] = d[..., idx, :][..., :, idx]
    return out


# ----------------------------------------------------------------------------- MD with per-slot padding


def run_md(engine, mols, params, steps, dt=0.5, temp=0.0, velocities=None, pad_extra=0, pattern="zero", k=3,
           xl_extra=None, seed=0, horizon=None, remove_com=None, molid=None):  # fmt: skip
    """Like drivers.md.run_md but the batch is assembled by `assemble` (per-slot padding coordinates).
    `velocities`: list of per-molecule (n_atoms, 3) arrays (padding slots get zero velocity).
    Returns h5.<k> dataset dicts, stdout, error, the assembled input coordinates and the final coordinates."""
    import contextlib
    import io
    import os

    from . import md as MD

    params = copy.deepcopy(params)
    wd = MD.scratch_dir("vpb")
    cwd = os.getcwd()
    os.chdir(wd)
    try:
        species, xyz, _, _ = assemble(mols, pad_extra, pattern)
        molecule, _ = build(mols, params, pad_extra, pattern)
        nmol = len(mols)
        o = MD.output_cfg("md", list(molid) if molid is not None else list(range(nmol)))  # order of the output request
        md = MD.make_engine(engine, params, dt, temp, o, k=k, xl_extra=xl_extra)
        if velocities is not None:
            v = np.zeros_like(xyz)
            for i, vi in enumerate(velocities):
                v[i, : len(vi)] = vi
            molecule.velocities = torch.as_tensor(v).clone()
        buf = io.StringIO()
        err = None
        with contextlib.redirect_stdout(buf):
            try:
                if horizon is not None:
                    with horizon:
                        md.run(molecule, steps=steps, reuse_P=True, remove_com=(tuple(remove_com) if remove_com else None), seed=seed)
                else:
                    md.run(molecule, steps=steps, reuse_P=True, remove_com=(tuple(remove_com) if remove_com else None), seed=seed)
            except Exception as e:  # noqa: BLE001
                err = f"{type(e).__name__}: {e}"
        res = MD.collect("md", range(nmol))
        res["stdout"] = buf.getvalue()
        res["error"] = err
        res["input_coordinates"] = xyz
        res["species"] = species
        res["final_coordinates"] = sp.to_np(molecule.coordinates)
        return res
    finally:
        os.chdir(cwd)
        MD.rm(wd)


# ----------------------------------------------------------------------------- uninitialised memory


@contextlib.contextmanager
def uninitialised(answer="zero"):
    """The harness owns the content of `torch.empty` / `torch.empty_like` tensors created by Python-level
    callers: it is unspecified by torch, so every value is a legal answer of the environment.  `zero` is the
    benign answer (runs become deterministic), `nan` is the adversarial one (any read of a never-written
    element poisons the result), None leaves torch alone."""
    if answer is None:
        yield
        return
    fill = {"zero": 0.0, "nan": float("nan")}[answer]
    e, el = torch.empty, torch.empty_like

    def empty(*a, **k):
        t = e(*a, **k)
        if t.is_floating_point():
            t.fill_(fill)
        return t

    def empty_like(*a, **k):
        t = el(*a, **k)
        if t.is_floating_point():
            t.fill_(fill)
        return t

    torch.empty, torch.empty_like = empty, empty_like
    try:
        yield
    finally:
        torch.empty, torch.empty_like = e, el


def freeze_code():
    """Import every module of the package under test in the parent before workers are forked: several are
    imported lazily at first use, so a tree that changes while a run is in progress (another commit) would
    otherwise give different code to different workers (seen: references and batches disagreeing by 0.31 eV/A
    because the analytical-gradient module was re-read after a commit)."""
    import importlib
    import pkgutil

    import seqm

    for m in pkgutil.walk_packages(seqm.__path__, "seqm."):
        try:
            importlib.import_module(m.name)
        except Exception:  # noqa: BLE001 - optional dependencies
            pass
