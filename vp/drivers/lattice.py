"""Shared pieces of the single-point lattices (C01, C14): molecule specifications that are plain JSON
(so they can be case keys and replay payloads), orientation axes, geometry-derived facts for violation
descriptors, the batched finite-difference stencil, and the classification of loud rejections.

Imported only after vp.bootstrap().
"""
import math

import numpy as np

from . import molecules as M
from . import sp

# ------------------------------------------------------------------ extra molecules (documentation layout)
# low-symmetry closed-shell ions (no degenerate excited states), used where the ion x excited-state corner
# of the configuration lattice needs a molecule whose CIS states are non-degenerate
EXTRA = {
    # protonated formaldehyde, Cs
    "H2COH+": M._mol(
        [8, 6, 1, 1, 1],
        [[0, 0, 0], [1.25, 0, 0], list(0.98 * M._dir2(115.0)), [1.25 + 0.62, 0.93, 0.0], [1.25 + 0.60, -0.94, 0.0]],
        charge=1,
    ),
    # first geometry of the repository's own force/excited-state tests (tests/data/methanal.1.xyz), as given there:
    # its C=O bond makes an angle of 2e-4 rad with the x axis, i.e. it lies INSIDE the package's frozen-frame cone
    # without being exactly on the axis
    "H2CO_repo_test": M._mol(
        [8, 6, 1, 1],
        [[-0.00104, -0.00028, 0.0], [1.20966, -0.00003, 0.0], [1.63293, 0.95572, 0.0], [1.82758, -0.85100, 0.0]],
    ),
    # formate, C2v
    "HCOO-": M._mol(
        [8, 8, 6, 1],
        [[0, 0, 0], [2.24, 0, 0], [1.12, 0.56, 0.0], [1.12, 1.68, 0.0]],
        charge=-1,
    ),
}

HYDRIDES = {
    1: None, 3: "LiH", 4: "BeH2", 5: "BH3", 6: "CH4", 7: "NH3", 8: "H2O", 9: "HF",
    11: "NaH", 12: "MgH2", 13: "AlH3", 14: "SiH4", 15: "PH3", 16: "H2S", 17: "HCl",
}  # fmt: skip
HEAVY = [3, 4, 5, 6, 7, 8, 9, 11, 12, 13, 14, 15, 16, 17]

# rotation that takes every axis-aligned unit vector 0.02 rad (about 1 degree) away from its axis: far outside
# the frozen-frame cone of the package (4.5e-4 rad) and outside the reach of the FD stencil (<= 5e-3 rad)
TILT = M.rot_axis([0.0, 0.6, 0.8], 0.02) @ M.rot_axis([1.0, 0.0, 0.0], 0.013)


def get_named(name):
    if name in M.MOLS:
        return M.get(name)
    m = EXTRA[name]
    return {"species": list(m["species"]), "coords": m["coords"].copy(), "charge": m["charge"], "mult": m["mult"], "name": name}


def spec_name(spec):
    if "pair" in spec:
        a, b, s = spec["pair"]
        return f"pair:{a}-{b}@{s}"
    return spec["mol"]


def build(spec, seed=0):
    """spec: {"mol": name} | {"pair": [ZA, ZB, scale]}, plus "orient": "doc" | "generic" | "tilted".
    Returns a molecule dict (documentation layout rotated as requested)."""
    if "pair" in spec:
        a, b, s = spec["pair"]
        mol = M.pair_molecule(int(a), int(b), float(s))
        mol["name"] = spec_name(spec)
    else:
        mol = get_named(spec["mol"])
    o = spec.get("orient", "generic")
    if o == "generic":
        mol = M.apply(mol, M.generic_rot(seed))
    elif o == "tilted":
        mol = M.apply(mol, TILT)
    elif o != "doc":
        raise ValueError(o)
    if spec.get("shift") is not None:
        mol = M.apply(mol, None, spec["shift"])
    return mol


def axis_facts(mol, tol=1e-6):
    """has_axis_aligned_pair_{x,y,z}: some atom pair's unit vector is within tol (in 1-|cos|) of +-axis.
    Computed from the geometry alone (numpy), independent of the package's pair list."""
    c = np.asarray(mol["coords"], float)
    n = len(c)
    out = {"x": False, "y": False, "z": False}
    for i in range(n):
        for j in range(i + 1, n):
            d = c[j] - c[i]
            r = np.linalg.norm(d)
            if r == 0:
                continue
            u = d / r
            for k, ax in enumerate("xyz"):
                if 1.0 - abs(u[k]) < tol:
                    out[ax] = True
    return {f"has_axis_aligned_pair_{k}": bool(v) for k, v in out.items()}


def stencil(mol, h):
    """base geometry followed by the 12N displaced geometries (atom, component, k in -2,-1,1,2)."""
    n = len(mol["species"])
    out = [dict(mol, coords=mol["coords"].copy())]
    for a in range(n):
        for c in range(3):
            for k in (-2, -1, 1, 2):
                x = mol["coords"].copy()
                x[a, c] += k * h
                out.append(dict(mol, coords=x))
    return out


def fd_from_energies(E, n, h):
    """E: energies of stencil(mol, h) -> (force estimate (n,3), roughness (n,3), curvature mismatch (n,3)).
    4-point central difference.  Two internal smoothness estimates that need no expected value:
      roughness = |D(h) - D(2h)| of the two 2-point first differences (h^2 E(3)/2 on a smooth surface);
      curvature mismatch = |S(h) - S(2h)/4| of the two second differences around the base point
        (h^4 E(4)/4 ~ 1e-8 eV on a smooth surface; a jump J of the energy between the base point and its
        neighbours gives 1.5 J, a kink of the slope by k gives h k / 2): this is how an SCF that lands on a
        different solution at the base geometry than at the displaced ones is recognised."""
    e0 = float(E[0])
    e = np.asarray(E[1:], float).reshape(n, 3, 4)
    g = (e[..., 0] - 8 * e[..., 1] + 8 * e[..., 2] - e[..., 3]) / (12 * h)
    d1 = (e[..., 2] - e[..., 1]) / (2 * h)
    d2 = (e[..., 3] - e[..., 0]) / (4 * h)
    s1 = e[..., 2] + e[..., 1] - 2 * e0
    s2 = e[..., 3] + e[..., 0] - 2 * e0
    return -g, np.abs(d1 - d2), np.abs(s1 - s2 / 4.0)


def fd_force(mol, params, h, active_state=None):
    """All 12N+1 geometries through the package as ONE homogeneous batch, energies only (do_force=False)."""
    geoms = stencil(mol, h)
    r = sp.single_point(geoms, params, names=["Etot", "cis_energies"], do_force=False, active_state=active_state)
    n = len(mol["species"])
    F, rough, curv = fd_from_energies(r["Etot"], n, h)
    return {
        "F": F, "rough": rough, "curv": curv, "E0": float(r["Etot"][0]), "notconverged": r["notconverged"],
        "cis0": None if r["cis_energies"] is None else r["cis_energies"][0],
    }  # fmt: skip


def fd_component_singles(mol, params, h, a, c, active_state=None):
    """one force component from four single-molecule calls (confirmation of a batched stencil)."""
    e = []
    for k in (-2, -1, 1, 2):
        x = mol["coords"].copy()
        x[a, c] += k * h
        r = sp.single_point(dict(mol, coords=x), params, names=["Etot"], do_force=False, active_state=active_state)
        e.append(float(r["Etot"][0]))
    return -(e[0] - 8 * e[1] + 8 * e[2] - e[3]) / (12 * h)


# ------------------------------------------------------------------ per-invocation iteration horizon for SP2


class SP2Horizon:
    """Deterministic horizon for the one loop of the single-point path that has no iteration cap: the
    `while notconverged.any()` loop of SP2.  Unlike vp.budget.Horizon the count is PER INVOCATION of SP2 (a healthy
    purification takes < 100 passes, but an SCF calls SP2 once per iteration, so a cumulative count would trip on
    healthy slow SCF runs).  Raises vp.budget.IterationHorizon inside the spinning call."""

    def __init__(self, limit=2000):
        self.limit = limit
        self.tripped = None

    def _global(self, frame, event, arg):
        from ..budget import IterationHorizon, _loop_headers

        if event != "call":
            return None
        code = frame.f_code
        if code.co_name != "SP2" or not code.co_filename.endswith("SP2.py"):
            return None
        heads = _loop_headers(code.co_filename)
        counts = {}

        def local(frame, event, arg):
            if event == "line" and frame.f_lineno in heads:
                n = counts.get(frame.f_lineno, 0) + 1
                counts[frame.f_lineno] = n
                if n > self.limit:
                    self.tripped = ("SP2.py", "SP2", frame.f_lineno)
                    raise IterationHorizon(f"loop header {self.tripped} executed {n} times in one call (horizon {self.limit})")
            return local

        return local

    def __enter__(self):
        import sys

        self._old = sys.gettrace()
        sys.settrace(self._global)
        return self

    def __exit__(self, *exc):
        import sys

        sys.settrace(self._old)
        return False


# ------------------------------------------------------------------ harness-side attribution probe


class hpp_floor_in_w_der:
    """Context manager: wraps the package's analytical two-centre-integral derivative routine `w_der` so that it
    sees g_pp raised to g_p2 + 2 max(h_pp, 0.1 eV), i.e. the same 0.1 eV floor on h_pp = (g_pp - g_p2)/2 that
    `two_elec_two_center_int` applies when it builds the integrals the ENERGY is made of.  Nothing in the
    repository is changed; the probe only serves to say, in a violation descriptor, whether a disagreement of the
    analytical evaluator disappears when energy and derivative use the same floor."""

    def __enter__(self):
        import seqm.seqm_functions.anal_grad as AG
        import seqm.seqm_functions.rcis_grad_batch as RG

        self.mods = [AG, RG]
        orig = AG.w_der
        self.orig = [m.w_der for m in self.mods]

        def wrapped(const, Z, tore, ni, nj, w_x, rij, xij, Xij, idxi, idxj, gss, gpp, gp2, hsp, *rest):
            gpp2 = gp2 + 2.0 * (0.5 * (gpp - gp2)).clamp_min(0.1)
            return orig(const, Z, tore, ni, nj, w_x, rij, xij, Xij, idxi, idxj, gss, gpp2, gp2, hsp, *rest)

        for m in self.mods:
            m.w_der = wrapped
        return self

    def __exit__(self, *exc):
        for m, o in zip(self.mods, self.orig):
            m.w_der = o
        return False


# ------------------------------------------------------------------ loud rejections


def expected_rejection(method, mols, uhf, solver, sp2, excited, mixed, want_force=True):
    """The combinations the package documents as unsupported (their loud refusal is C18's business).
    Returns a reason string or None."""
    for m in mols:
        for z in set(m["species"]):
            if z and z not in M.ELEMENTS.get(method, ()):
                return f"element {z} absent from the {method} table"
    if uhf and solver == "pulay":
        return "UHF + Pulay"
    if uhf and sp2:
        return "UHF + SP2"
    if uhf and excited:
        return "UHF + excited states"
    if excited and mixed and (excited[0] == "rpa" or want_force):
        return "excited-state gradient / RPA on a mixed batch"
    return None


def nelec_occ(mol, tore, uhf):
    """number of valence electrons and occupied orbital counts (RHF: nocc; UHF: (nalpha, nbeta)) from first principles."""
    ne = int(round(sum(tore[z] for z in mol["species"]))) - int(mol.get("charge", 0))
    if not uhf:
        return ne, ne // 2
    na = (ne + int(mol.get("mult", 1)) - 1) // 2
    return ne, (na, ne - na)


def finite(x):
    return x is not None and bool(np.all(np.isfinite(np.asarray(x, float))))


def fmt_err(e):
    """outcome bucket for the vacuity detector"""
    if e is None or not math.isfinite(e):
        return "nan"
    if e <= 0:
        return "0"
    return f"1e{int(math.floor(math.log10(e)))}"
