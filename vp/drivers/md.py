"""MD harness: run the real engines on alphabet molecules in a scratch directory and read
every output back as plain numpy / text.  Also the record/replay electronic-structure
driver used to explore the writer / step-loop logic at 20 ms per run."""
import contextlib
import copy
import io
import os
import re
import shutil
import tempfile

import h5py
import numpy as np
import torch

from . import molecules as M
from . import sp


def scratch_dir(tag="vp"):
    base = os.environ.get("VP_SCRATCH") or tempfile.gettempdir()
    return tempfile.mkdtemp(prefix=f"{tag}_", dir=base)


def rm(path):
    shutil.rmtree(path, ignore_errors=True)


def output_cfg(prefix, molid, data=1, coordinates=1, velocities=1, forces=1, xyz=0, print_every=0,
               checkpoint_every=0, **h5extra):  # fmt: skip
    h5 = {"data": data, "coordinates": coordinates, "velocities": velocities, "forces": forces}
    h5.update(h5extra)
    return {
        "molid": list(molid),
        "prefix": prefix,
        "print every": print_every,
        "checkpoint every": checkpoint_every,
        "xyz": xyz,
        "h5": h5,
    }


def make_engine(engine, params, dt, temp, output, k=3, damp=10.0, xl_extra=None, **kw):
    from seqm import MolecularDynamics as MD

    if engine == "bomd":
        return MD.Molecular_Dynamics_Basic(seqm_parameters=params, timestep=dt, Temp=temp, output=output, **kw)
    if engine == "langevin":
        return MD.Molecular_Dynamics_Langevin(
            damp=damp, seqm_parameters=params, timestep=dt, Temp=temp, output=output, **kw
        )
    if engine in ("xl", "xl_damped"):
        xp = {"k": k}
        xp.update(xl_extra or {})
        return MD.XL_BOMD(
            xl_bomd_params=xp, damp=(damp if engine == "xl_damped" else None), seqm_parameters=params,
            timestep=dt, Temp=temp, output=output, **kw,
        )  # fmt: skip
    if engine in ("ksa", "ksa_damped"):
        xp = {"k": k, "max_rank": 3, "err_threshold": 0.0, "T_el": 1500}
        xp.update(xl_extra or {})
        return MD.KSA_XL_BOMD(
            xl_bomd_params=xp, damp=(damp if engine == "ksa_damped" else None), seqm_parameters=params,
            timestep=dt, Temp=temp, output=output, **kw,
        )  # fmt: skip
    raise ValueError(engine)


def read_h5(path):
    """every dataset and attribute of an HDF5 file -> {name: ndarray}"""
    out = {}
    with h5py.File(path, "r") as h5:
        for k, v in h5.attrs.items():
            out[f"@{k}"] = np.asarray(v)

        def visit(name, obj):
            if isinstance(obj, h5py.Dataset):
                out[name] = np.asarray(obj[...])

        h5.visititems(visit)
    return out


_XYZ_HDR = re.compile(r"step:\s*(-?\d+)\s+E_total\s*=\s*(\S+)")


def read_xyz_frames(path):
    """[(step_label, E_total_text, [atom lines])]"""
    if not os.path.exists(path):
        return None
    with open(path) as fh:
        lines = fh.read().splitlines()
    frames = []
    i = 0
    while i < len(lines):
        try:
            n = int(lines[i].strip())
        except ValueError:
            frames.append(("garbage", lines[i], []))
            i += 1
            continue
        hdr = lines[i + 1] if i + 1 < len(lines) else ""
        m = _XYZ_HDR.search(hdr)
        body = lines[i + 2 : i + 2 + n]
        frames.append((int(m.group(1)) if m else None, m.group(2) if m else hdr, body))
        i += 2 + n
    return frames


def collect(prefix, nmol_range):
    out = {}
    for mol in nmol_range:
        p = f"{prefix}.{mol}.h5"
        out[f"h5.{mol}"] = read_h5(p) if os.path.exists(p) else None
        out[f"xyz.{mol}"] = read_xyz_frames(f"{prefix}.{mol}.xyz")
    return out


def screen_steps(stdout):
    """step labels printed by _output_to_screen"""
    labs = []
    for line in stdout.splitlines():
        m = re.match(r"^\s*(\d+)\s+\d+\.\d\d\s", line)
        if m and "||" in line:
            labs.append(int(m.group(1)))
    return labs


def run_md(engine, mols, params, steps, dt=0.5, temp=300.0, seed=0, remove_com=None, reuse_P=True,
           out=None, workdir=None, velocities=None, k=3, damp=10.0, xl_extra=None, active_state=None,
           pad_extra=0, hook=None, keep=False, nmol_out=None, copy_params=True, engine_obj=None):  # fmt: skip
    """One real MD run in a scratch dir. Returns dict: h5.<mol>, xyz.<mol>, stdout, final state.
    copy_params=False hands the caller's settings dictionary itself to the package (history checks)."""
    if copy_params:
        params = copy.deepcopy(params)
    own = workdir is None
    wd = workdir or scratch_dir("vpmd")
    cwd = os.getcwd()
    os.chdir(wd)
    try:
        molecule, _ = sp.build(mols, params, pad_extra=pad_extra)
        if active_state is not None:
            molecule.active_state = active_state
        nmol = molecule.species.shape[0]
        cfg = dict(out or {})
        cfg.setdefault("molid", list(range(nmol)))
        o = output_cfg("md", **cfg)
        # engine_obj: an engine object that has served an earlier run (history checks); it is returned as res["engine"]
        md = engine_obj if engine_obj is not None else make_engine(engine, params, dt, temp, o, k=k, damp=damp, xl_extra=xl_extra)
        if velocities is not None:
            molecule.velocities = torch.as_tensor(np.asarray(velocities, float)).clone()
        if hook is not None:
            hook(md, molecule)
        buf = io.StringIO()
        err = None
        with contextlib.redirect_stdout(buf):
            try:
                md.run(molecule, steps=steps, reuse_P=reuse_P, remove_com=remove_com, seed=seed)
            except Exception as e:  # noqa: BLE001
                err = f"{type(e).__name__}: {e}"
        res = collect("md", nmol_out if nmol_out is not None else cfg["molid"])
        res["stdout"] = buf.getvalue()
        res["error"] = err
        res["engine"] = md
        res["final"] = {
            "coordinates": sp.to_np(molecule.coordinates),
            "velocities": sp.to_np(molecule.velocities) if torch.is_tensor(molecule.velocities) else None,
        }
        res["workdir"] = wd
        return res
    finally:
        os.chdir(cwd)
        if own and not keep:
            rm(wd)


# --------------------------------------------------------------------------- record / replay


def _snapshot(molecule):
    snap = {}
    for k, v in molecule.__dict__.items():
        if k.startswith("_") and k not in ("_parnuc", "_gam"):
            continue
        if torch.is_tensor(v) and not isinstance(v, torch.nn.Parameter):
            snap[k] = v
    return snap


_NOT_REPLAYED = {"velocities", "acc", "species", "mass", "mass_inverse", "tot_charge", "mult"}


class Recorder:
    """Wraps a real Electronic_Structure: after each forward, stores every tensor attribute of
    the molecule that the call (re)bound, plus the driver attributes."""

    def __init__(self):
        self.calls = []

    def install(self, md):
        real = md.esdriver
        rec = self
        orig_forward = real.forward

        def forward(molecule, *a, **kw):
            before = {k: (id(v), v.detach().clone()) for k, v in _snapshot(molecule).items()}
            orig_forward(molecule, *a, **kw)
            after = _snapshot(molecule)
            changed = {}
            for k, v in after.items():
                if k in _NOT_REPLAYED:
                    continue
                b = before.get(k)
                if b is None or b[0] != id(v) or b[1].shape != v.shape or not torch.equal(b[1], v.detach()):
                    changed[k] = v.detach().clone()
            rec.calls.append(changed)

        real.forward = forward
        return self


def make_replay_class(calls):
    """A subclass of the real Electronic_Structure whose forward re-applies recorded attributes.
    Class attribute `cursor` is the index of the next call to replay (0 = initialisation,
    j = integrator step j); the harness sets it before a resume."""
    from seqm.ElectronicStructure import Electronic_Structure

    class ReplayES(Electronic_Structure):
        cursor = 0
        tape = calls

        def __init__(self, seqm_parameters, *a, **kw):
            torch.nn.Module.__init__(self)
            self.seqm_parameters = seqm_parameters

            class _E:  # the attributes MD.initialize touches
                md = False
                excited_states = seqm_parameters.get("excited_states") or {}

            class _F:
                energy = _E()

            self.conservative_force = _F()
            self.device = torch.device("cpu")

        def forward(self, molecule, *a, **kw):
            j = type(self).cursor
            if j >= len(self.tape):
                raise RuntimeError(f"replay tape exhausted at call {j}")
            for k, v in self.tape[j].items():
                setattr(molecule, k, v.clone())
            type(self).cursor = j + 1

    return ReplayES


@contextlib.contextmanager
def replay_installed(calls):
    from seqm import MolecularDynamics as MD

    cls = make_replay_class(calls)
    saved = MD.esdriver
    MD.esdriver = cls
    try:
        yield cls
    finally:
        MD.esdriver = saved


def record_run(engine, mols, params, steps, **kw):
    """Real run with all cadences 1 that also returns the tape."""
    rec = Recorder()
    res = run_md(engine, mols, params, steps, hook=lambda md, mol: rec.install(md), **kw)
    return res, rec.calls


# --------------------------------------------------------------------------- crash + resume (soft, after a checkpoint)


class SimulatedCrash(RuntimeError):
    pass


def resume(workdir, replay_cls=None, nmol_out=(0,)):
    """run_from_checkpoint in workdir; returns collected outputs + stdout/error."""
    from seqm.MolecularDynamics import Molecular_Dynamics_Basic

    cwd = os.getcwd()
    os.chdir(workdir)
    buf = io.StringIO()
    err = None
    try:
        if replay_cls is not None:
            ck = torch.load("md.restart.pt", map_location="cpu", weights_only=False)
            replay_cls.cursor = int(ck["step_done"]) + 1
        with contextlib.redirect_stdout(buf):
            try:
                Molecular_Dynamics_Basic.run_from_checkpoint("md.restart.pt")
            except SimulatedCrash:
                err = "crash"
            except Exception as e:  # noqa: BLE001
                err = f"{type(e).__name__}: {e}"
        res = collect("md", nmol_out)
        res["stdout"] = buf.getvalue()
        res["error"] = err
        return res
    finally:
        os.chdir(cwd)


def crash_after_checkpoint_hook(at_step):
    """hook for run_md: the run dies (Python exception, as in the repository's own resume test)
    immediately after the checkpoint for step `at_step` has been written."""

    def hook(md, molecule):
        orig = md.save_checkpoint

        def wrapped(*a, **kw):
            orig(*a, **kw)
            if kw.get("step_done") == at_step:
                raise SimulatedCrash(f"after checkpoint {at_step}")

        md.save_checkpoint = wrapped

    return hook
