"""Supersystems of well separated fragments (C19): builders, pair-list reference, observation splitting.

Every fragment is put in a generic orientation (never the documentation layout) and the separation
direction is a generic unit vector, so no interatomic vector comes near the singular sets of the frame
rotations (asserted with rigid.pair_axis_facts) and the frozen-frame defect of C02 cannot leak in.
Plain numpy; the package is imported lazily in `pair_list` / `evaluate`.
"""
import copy
import math

import numpy as np

from . import molecules as M
from . import rigid as RG

# generic separation directions (unit vectors, irrational components, far from every axis and axis plane)
DIRECTIONS = [
    np.array([0.48, -0.62, 0.62]) / np.linalg.norm([0.48, -0.62, 0.62]),
    np.array([-0.37, 0.71, 0.59]) / np.linalg.norm([-0.37, 0.71, 0.59]),
    np.array([0.66, 0.53, -0.54]) / np.linalg.norm([0.66, 0.53, -0.54]),
]
# relative orientations: which generic rotation each fragment gets (index into M.GENERIC_ROTS, shifted by the seed)
ORIENTATIONS = [(0, 1), (2, 3), (4, 1)]


def fragment(name, rot_index):
    """named molecule, centred at its centroid, in generic orientation number rot_index."""
    m = M.get(name)
    R = M.GENERIC_ROTS[rot_index % len(M.GENERIC_ROTS)]
    c = m["coords"] - m["coords"].mean(axis=0)
    m["coords"] = c @ R.T
    return m


def place(frags, centres):
    """Supersystem of fragments translated to the given centres.  Atoms are sorted by atomic number
    (non-increasing, stable) as the package requires.  Returns (mol dict, frag_of_atom, index lists per fragment
    into the sorted atom order that reproduce each fragment's own atom order)."""
    Z, X, F, K = [], [], [], []
    for fi, (f, c) in enumerate(zip(frags, centres)):
        for k, (z, x) in enumerate(zip(f["species"], f["coords"])):
            Z.append(z)
            X.append(x + np.asarray(c, float))
            F.append(fi)
            K.append(k)
    order = sorted(range(len(Z)), key=lambda i: -Z[i])
    species = [Z[i] for i in order]
    coords = np.array([X[i] for i in order])
    frag_of = np.array([F[i] for i in order])
    rows = []
    for fi, f in enumerate(frags):
        pos = {K[i]: p for p, i in enumerate(order) if F[i] == fi}
        rows.append([pos[k] for k in range(len(f["species"]))])
    mol = dict(species=species, coords=coords, charge=0, mult=1, name="+".join(f["name"] for f in frags))
    return mol, frag_of, rows


def dimer(nameA, nameB, R, orient, direction, seed=0):
    ia, ib = ORIENTATIONS[orient % len(ORIENTATIONS)]
    A, B = fragment(nameA, ia + seed), fragment(nameB, ib + seed)
    u = DIRECTIONS[direction % len(DIRECTIONS)]
    mol, frag_of, rows = place([A, B], [np.zeros(3), R * u])
    return mol, frag_of, rows, [A, B]


def trimer(names, R, orient, seed=0):
    frs = [fragment(n, ORIENTATIONS[orient % 3][k % 2] + k + seed) for k, n in enumerate(names)]
    # a scalene triangle with generic directions: B at R u0, C at 1.3 R u1
    centres = [np.zeros(3), R * DIRECTIONS[0], 1.3 * R * DIRECTIONS[1]]
    mol, frag_of, rows = place(frs, centres)
    return mol, frag_of, rows, frs


def exact_contact(nameA, nameB, a, b, k, orient=0, seed=0):
    """Dimer in which atom a of A sits exactly at the origin and atom b of B exactly at k*(3,4,0), so that this one
    cross pair has pairdist_sq == (5k)**2 exactly in floating point (boundary of the cutoff comparison)."""
    ia, ib = ORIENTATIONS[orient % len(ORIENTATIONS)]
    A, B = fragment(nameA, ia + seed), fragment(nameB, ib + seed)
    A["coords"] = A["coords"] - A["coords"][a]
    B["coords"] = (B["coords"] - B["coords"][b]) + np.array([3.0 * k, 4.0 * k, 0.0])
    mol, frag_of, rows = place([A, B], [np.zeros(3), np.zeros(3)])
    return mol, frag_of, rows, (rows[0][a], rows[1][b])


def assert_generic(mol):
    f = RG.pair_axis_facts(mol["coords"])
    if f["frozen_x"] or f["min_angle_z"] < 1e-3 or f["min_angle_x"] < 1e-3:
        raise AssertionError(f"fragment geometry too close to an axis: {f}")
    return f


# ------------------------------------------------------------------ reference pair list


def reference_pairs(coords, cutoff):
    """{(i, j), i < j : |x_i - x_j| < cutoff}, distances computed in plain float64 like the statement reads
    (squared distance against squared cutoff, so that exactly representable boundary cases are exact)."""
    c = np.asarray(coords, float)
    n = len(c)
    out = []
    for i in range(n):
        for j in range(i + 1, n):
            d = c[j] - c[i]
            d2 = d[0] * d[0] + d[1] * d[1] + d[2] * d[2]
            if cutoff is None or d2 < cutoff * cutoff:
                out.append((i, j))
    return out


def boundary_margin(coords, cutoff):
    """smallest | r_ij - cutoff | over all pairs (to know when a rounding-level difference between the package's
    and the reference's distance could change the list)."""
    c = np.asarray(coords, float)
    best = math.inf
    for i in range(len(c)):
        for j in range(i + 1, len(c)):
            best = min(best, abs(float(np.linalg.norm(c[j] - c[i])) - cutoff))
    return best


def package_pairs(mol, params):
    """(idxi, idxj) pair list the package builds for this molecule (Molecule construction only, no SCF)."""
    from . import sp

    p = copy.deepcopy(params)
    molecule, _ = sp.build(mol, p)
    return sorted(zip(molecule.idxi.tolist(), molecule.idxj.tolist()))


# ------------------------------------------------------------------ observations


def norb_of(species):
    return sum(4 if z > 1 else 1 for z in species)


def evaluate(mol, params):
    from . import sp

    o = sp.single_point(mol, params, names=["Etot", "force", "q", "e_mo", "Eelec", "Enuc"])
    n = norb_of(mol["species"])
    return dict(
        E=float(o["Etot"][0]), force=o["force"][0], q=o["q"][0], e_mo=np.sort(o["e_mo"][0][:n]),
        notconverged=bool(o["notconverged"][0]), Eelec=float(o["Eelec"][0]), Enuc=float(o["Enuc"][0]),
    )  # fmt: skip
