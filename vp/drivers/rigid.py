"""Rigid-motion helpers shared by C02 (and usable by other orientation-aware checks).

* the state space: Cayley graph of the octahedral rotation group O (24 states, 48 generator
  edges) acting on a base geometry, the cone alphabet around the six Cartesian axis directions,
  and a translation alphabet;
* derived facts of a geometry that known-finding predicates need (how close an interatomic
  vector is to the +-x / +-z axis, i.e. to the singular sets of the two frame rotations);
* one batched execution of the real driver for a list of geometries of one molecule, and the
  single-molecule re-evaluation used before anything is reported;
* the group-theoretic prediction (scalars invariant, vectors rotated) and its comparison.

Plain numpy except `evaluate`, which imports the package lazily (after vp.bootstrap()).
"""
import copy
import math

import numpy as np

from . import molecules as M

# ------------------------------------------------------------------ the group and the alphabets

AXES = {
    "+x": np.array([1.0, 0.0, 0.0]), "-x": np.array([-1.0, 0.0, 0.0]),
    "+y": np.array([0.0, 1.0, 0.0]), "-y": np.array([0.0, -1.0, 0.0]),
    "+z": np.array([0.0, 0.0, 1.0]), "-z": np.array([0.0, 0.0, -1.0]),
}  # fmt: skip
CONE_EPS = [0.0, 1e-9, 1e-8, 1e-7, 1e-6, 1e-5, 1e-4, 1e-3]
TRANSLATIONS = {"t0": np.zeros(3), "t1": np.array([10.0, -7.0, 3.0]), "t2": np.array([1.0e3, 0.0, 0.0])}

# singular sets of the package's two local->molecular frame rotations (read off the source):
#   rotate_with_quaternion: |1 + v_x| < 1e-7  <=>  angle(pair vector, +-x) < acos(1 - 1e-7)
#   RotationMatrixD / diat_overlapD: norm(v_xy) < 1e-10  <=>  angle(pair vector, +-z) < 1e-10
FROZEN_X_ANGLE = math.acos(1.0 - 1.0e-7)  # 4.4721e-4 rad
FROZEN_Z_ANGLE = 1.0e-10


class Cayley:
    """Cayley graph of O with generators a = C4(z), b = C3(111) (from M.octahedral_group)."""

    def __init__(self):
        elems, edges = M.octahedral_group()
        self.words = [w for w, _ in elems]
        self.mats = {w: m for w, m in elems}
        key2word = {tuple(int(round(v)) for v in m.flatten()): w for w, m in elems}
        self.gens = {"a": np.array([[0, -1, 0], [1, 0, 0], [0, 0, 1.0]]), "b": np.array([[0, 0, 1], [1, 0, 0], [0, 1, 0.0]])}
        self.edges = [(key2word[s], g, key2word[t]) for s, g, t in edges]
        assert len(self.words) == 24 and len(self.edges) == 48
        # BFS order: a word's parent is the word without its last letter (words are built by appending)
        self.order = sorted(self.words, key=lambda w: (len(w), w))

    def bfs_geometries(self, base_coords):
        """Breadth-first exploration: the geometry of every state is produced by applying one generator to the
        geometry of an already explored state (never from the closed-form matrix); every one of the 48 edges
        is followed and the geometry it produces is compared bitwise with the one stored for its target
        (path independence of the explorer's own state; the generators are signed permutations, so this is exact).
        Returns ({word: coords}, number_of_edges_followed, list_of_inconsistent_edges)."""
        geo = {"": np.array(base_coords, dtype=float)}
        frontier = [""]
        followed = 0
        bad = []
        while frontier:
            nxt = []
            for s in frontier:
                for (src, g, tgt) in self.edges:
                    if src != s:
                        continue
                    followed += 1
                    c = geo[src] @ self.gens[g].T
                    if tgt not in geo:
                        geo[tgt] = c
                        nxt.append(tgt)
                    elif not np.array_equal(geo[tgt], c):
                        bad.append((src, g, tgt))
            frontier = nxt
        assert len(geo) == 24
        return geo, followed, bad


def axis_element(cay, d):
    """first (BFS order) group element that maps +x onto axis direction d."""
    for w in cay.order:
        if np.array_equal(cay.mats[w] @ AXES["+x"], AXES[d]):
            return w
    raise AssertionError(d)


def cone_rotations(cay):
    """[(label, R)]: +x is mapped to each of the six axis directions and then tilted by eps towards each of the
    two perpendicular axes.  eps = 0 appears once per axis (6 + 6*7*2 = 90 rotations)."""
    out = []
    for d, dv in AXES.items():
        g = cay.mats[axis_element(cay, d)]
        perps = [p for p in ("+x", "+y", "+z") if abs(AXES[p] @ dv) < 0.5]
        for eps in CONE_EPS:
            if eps == 0.0:
                out.append((f"cone{d}|0", g.copy()))
                continue
            for p in perps:
                T = M.rot_axis(np.cross(dv, AXES[p]), eps)
                out.append((f"cone{d}|{eps:g}>{p}", T @ g))
    return out


# ------------------------------------------------------------------ derived facts of a geometry


def pair_axis_facts(coords):
    """Smallest angle (rad) between any interatomic vector and the +-x, +-y, +-z axes, computed without acos
    cancellation; and the flags of the two singular sets."""
    c = np.asarray(coords, float)
    n = len(c)
    best = {"x": math.pi, "y": math.pi, "z": math.pi}
    for i in range(n):
        for j in range(i + 1, n):
            d = c[j] - c[i]
            for k, ax in enumerate("xyz"):
                perp = math.sqrt(sum(d[m] ** 2 for m in range(3) if m != k))
                ang = math.atan2(perp, abs(d[k]))
                if ang < best[ax]:
                    best[ax] = ang
    return {
        "min_angle_x": best["x"], "min_angle_y": best["y"], "min_angle_z": best["z"],
        "frozen_x": bool(best["x"] < FROZEN_X_ANGLE), "frozen_z": bool(best["z"] < FROZEN_Z_ANGLE),
        "near_z": bool(best["z"] < 1.0e-2),
    }  # fmt: skip


# ------------------------------------------------------------------ execution of the real code

SCALARS = ["Etot", "Eelec", "Enuc", "Hf", "e_gap", "e_mo", "q", "cis_energies", "oscillator_strength"]


def evaluate(mol, coords_list, params, active_state=None):
    """One call of the real driver on a homogeneous batch: the same molecule at len(coords_list) geometries.
    Returns a list of per-geometry observation dicts (numpy)."""
    from . import sp

    params = copy.deepcopy(params)
    mols = []
    for c in coords_list:
        m = dict(mol)
        m["coords"] = np.asarray(c, float)
        mols.append(m)
    molecule, es = sp.build(mols, params)
    if active_state is not None:
        molecule.active_state = active_state
    molecule.verbose = False
    es(molecule)
    obs = sp.observe(molecule, es)
    nac = getattr(molecule, "nac", None)
    nacs = {}
    if isinstance(nac, dict):
        for k, v in nac.items():
            nacs[f"nac{k[0]}{k[1]}"] = sp.to_np(v)
    out = []
    for i in range(len(coords_list)):
        o = {}
        for k, v in obs.items():
            o[k] = None if v is None else np.array(v[i])
        for k, v in nacs.items():
            o[k] = np.array(v[i])
        o["coords"] = np.asarray(coords_list[i], float)
        out.append(o)
    del molecule, es
    return out


# ------------------------------------------------------------------ the oracle


def _maxabs(a):
    a = np.asarray(a)
    return float(np.max(np.abs(a))) if a.size else 0.0


def rigid_invariants(o):
    """net force and net torque (about the centroid) of one observation."""
    F = o["force"]
    c = o["coords"] - o["coords"].mean(axis=0)
    return F.sum(axis=0), np.cross(c, F).sum(axis=0)


def compare(o, ref, Rrel, tol):
    """Discrepancies of observation `o` (geometry = Rrel . ref geometry + t) from the prediction derived from `ref`.
    Returns {kind: (error, observable_name)} with only the kinds whose error exceeds its tolerance.
    tol: dict(scalar, vector, rigid, exc_scalar, exc_vector)."""
    bad = {}

    def note(kind, err, name, lim):
        if not (err <= lim):  # NaN counts as a failure
            if kind not in bad or not (err <= bad[kind][0]):
                bad[kind] = (float(err), name)

    for name in SCALARS:
        a, b = o.get(name), ref.get(name)
        if a is None or b is None:
            if (a is None) != (b is None):
                note("scalar", float("inf"), name + ":missing", 0.0)
            continue
        if a.shape != b.shape:
            note("scalar", float("inf"), name + ":shape", 0.0)
            continue
        exc = name in ("cis_energies", "oscillator_strength")
        note("scalar", _maxabs(a - b), name, tol["exc_scalar"] if exc else tol["scalar"])
    # vectors
    note("force", _maxabs(o["force"] - ref["force"] @ Rrel.T), "force", tol["vector"])
    if o.get("dipole") is not None and ref.get("dipole") is not None:
        note("dipole", _maxabs(o["dipole"] - Rrel @ ref["dipole"]), "dipole", tol["vector"])
    elif (o.get("dipole") is None) != (ref.get("dipole") is None):
        note("dipole", float("inf"), "dipole:missing", 0.0)
    if o.get("transition_dipole") is not None and ref.get("transition_dipole") is not None:
        a, b = o["transition_dipole"], ref["transition_dipole"] @ Rrel.T
        err = max(min(_maxabs(a[s] - b[s]), _maxabs(a[s] + b[s])) for s in range(a.shape[0]))  # state sign is free
        note("tdipole", err, "transition_dipole", tol["exc_vector"])
    for k in o:
        if k.startswith("nac") and ref.get(k) is not None:
            b = ref[k] @ Rrel.T
            err = min(_maxabs(o[k] - b), _maxabs(o[k] + b))  # product of two state signs is free
            note("nac", err, k, tol["exc_vector"])
    fsum, tq = rigid_invariants(o)
    note("netforce", _maxabs(fsum), "sum F", tol["rigid"])
    note("torque", _maxabs(tq), "sum r x F", tol["rigid"])
    return bad


def edge_residual(o_src, o_tgt, gen):
    """local transition relation along one Cayley edge: obs(target) = generator . obs(source)."""
    e = {"force": _maxabs(o_tgt["force"] - o_src["force"] @ gen.T), "Etot": _maxabs(o_tgt["Etot"] - o_src["Etot"])}
    if o_src.get("dipole") is not None:
        e["dipole"] = _maxabs(o_tgt["dipole"] - gen @ o_src["dipole"])
    return e
