"""Molecule alphabet: named hard-coded geometries in the documentation layout
(first heavy atom at the origin, first bond along +x, second in the xy plane),
finite rotation groups, and a builder for saturated X-Y pair molecules.

Everything here is plain numpy; species rows are sorted non-increasing as the
package requires.
"""
import itertools
import math

import numpy as np

# ------------------------------------------------------------------ geometry helpers


def _dir2(angle_deg):
    a = math.radians(angle_deg)
    return np.array([math.cos(a), math.sin(a), 0.0])


def _third(angle_deg, sign=1.0):
    """unit vector making `angle` with +x and with _dir2(angle)."""
    c = math.cos(math.radians(angle_deg))
    s = math.sin(math.radians(angle_deg))
    y = c * (1 - c) / s
    z = math.sqrt(max(0.0, 1 - c * c - y * y))
    return np.array([c, y, sign * z])


def ax1(r):
    return [np.array([r, 0.0, 0.0])]


def ax2(r, angle):
    return [np.array([r, 0.0, 0.0]), r * _dir2(angle)]


def ax3(r, angle):
    return [np.array([r, 0.0, 0.0]), r * _dir2(angle), r * _third(angle)]


def ax4(r):
    t = math.degrees(math.acos(-1.0 / 3.0))
    return [np.array([r, 0.0, 0.0]), r * _dir2(t), r * _third(t), r * _third(t, -1.0)]


def planar3(r):
    return [np.array([r, 0.0, 0.0]), r * _dir2(120.0), r * _dir2(240.0)]


def _mol(species, coords, charge=0, mult=1):
    species = list(species)
    coords = np.array(coords, dtype=float)
    assert all(species[i] >= species[i + 1] for i in range(len(species) - 1)), species
    return {"species": species, "coords": coords, "charge": charge, "mult": mult}


def _hydride(Z, hs, charge=0, mult=1):
    return _mol([Z] + [1] * len(hs), [np.zeros(3)] + list(hs), charge, mult)


def _methyl_on(cx, r=1.09):
    """three H on a carbon at (cx,0,0) whose other bond points to -x; first H in xy plane."""
    out = []
    for phi in (0.0, 120.0, 240.0):
        p = math.radians(phi)
        u = np.array([1.0 / 3.0, 0.9428090415820634 * math.cos(p), 0.9428090415820634 * math.sin(p)])
        out.append(np.array([cx, 0.0, 0.0]) + r * u)
    return out


MOLS = {
    # closed-shell neutrals
    "H2O": _hydride(8, ax2(0.96, 104.5)),
    "NH3": _hydride(7, ax3(1.012, 106.7)),
    "CH4": _hydride(6, ax4(1.09)),
    "HF": _hydride(9, ax1(0.92)),
    "HCl": _hydride(17, ax1(1.27)),
    "H2S": _hydride(16, ax2(1.34, 92.1)),
    "PH3": _hydride(15, ax3(1.42, 93.5)),
    "SiH4": _hydride(14, ax4(1.48)),
    "AlH3": _hydride(13, planar3(1.58)),
    "MgH2": _hydride(12, [np.array([1.70, 0, 0]), np.array([-1.70, 0, 0])]),
    "NaH": _hydride(11, ax1(1.89)),
    "BH3": _hydride(5, planar3(1.19)),
    "BeH2": _hydride(4, [np.array([1.33, 0, 0]), np.array([-1.33, 0, 0])]),
    "LiH": _hydride(3, ax1(1.60)),
    "H2CO": _mol([8, 6, 1, 1], [[0, 0, 0], [1.22, 0, 0], [1.82, 0.94, 0], [1.82, -0.94, 0]]),
    "HCN": _mol([7, 6, 1], [[0, 0, 0], [1.16, 0, 0], [2.22, 0, 0]]),
    "C2H2": _mol([6, 6, 1, 1], [[0, 0, 0], [1.20, 0, 0], [-1.06, 0, 0], [2.26, 0, 0]]),
    "CO": _mol([8, 6], [[0, 0, 0], [1.13, 0, 0]]),
    "N2": _mol([7, 7], [[0, 0, 0], [1.10, 0, 0]]),
    "CH3F": _mol([9, 6, 1, 1, 1], [[0, 0, 0], [1.38, 0, 0]] + _methyl_on(1.38)),
    "CH3Cl": _mol([17, 6, 1, 1, 1], [[0, 0, 0], [1.78, 0, 0]] + _methyl_on(1.78)),
    "SO2": _mol([16, 8, 8], [[0, 0, 0], [1.43, 0, 0], list(1.43 * _dir2(119.5))]),
    "CH3OH": _mol(
        [8, 6, 1, 1, 1, 1],
        [[0, 0, 0], [1.42, 0, 0], list(0.96 * _dir2(108.5))]
        + [
            [1.42 + 1.09 / 3, -1.09 * 0.9428090415820634, 0.0],
            [1.42 + 1.09 / 3, 1.09 * 0.4714045207910317, 1.09 * 0.816496580927726],
            [1.42 + 1.09 / 3, 1.09 * 0.4714045207910317, -1.09 * 0.816496580927726],
        ],
    ),
    # ions
    "OH-": _hydride(8, ax1(0.97), charge=-1),
    "CN-": _mol([7, 6], [[0, 0, 0], [1.17, 0, 0]], charge=-1),
    "H3O+": _hydride(8, ax3(0.98, 111.0), charge=1),
    "NH4+": _hydride(7, ax4(1.02), charge=1),
    # open shells (UHF)
    "CH3": _hydride(6, planar3(1.08), mult=2),
    "NH2": _hydride(7, ax2(1.02, 103.0), mult=2),
    "OH": _hydride(8, ax1(0.97), mult=2),
    "O2": _mol([8, 8], [[0, 0, 0], [1.21, 0, 0]], mult=3),
    "CH2": _hydride(6, ax2(1.08, 134.0), mult=3),
    "NH": _hydride(7, ax1(1.04), mult=3),
}

SYMBOL = {1: "H", 3: "Li", 4: "Be", 5: "B", 6: "C", 7: "N", 8: "O", 9: "F", 11: "Na", 12: "Mg", 13: "Al", 14: "Si", 15: "P", 16: "S", 17: "Cl"}
VALENCE = {1: 1, 3: 1, 4: 2, 5: 3, 6: 4, 7: 3, 8: 2, 9: 1, 11: 1, 12: 2, 13: 3, 14: 4, 15: 3, 16: 2, 17: 1}
RCOV = {1: 0.31, 3: 1.28, 4: 0.96, 5: 0.84, 6: 0.76, 7: 0.71, 8: 0.66, 9: 0.57, 11: 1.66, 12: 1.41, 13: 1.21, 14: 1.11, 15: 1.07, 16: 1.05, 17: 1.02}

# elements with an s/sp basis per method table (measured from the shipped CSVs; H..Cl)
ELEMENTS = {
    "MNDO": [1, 3, 4, 5, 6, 7, 8, 9, 11, 13, 14, 15, 16, 17],
    "AM1": [1, 4, 5, 6, 7, 8, 9, 13, 14, 15, 16, 17],
    "PM3": [1, 3, 4, 6, 7, 8, 9, 12, 13, 14, 15, 16, 17],
    "PM6_SP": [1, 3, 4, 5, 6, 7, 8, 9, 11, 12, 13, 14, 15, 16, 17],
}


def _sub_h(Z, bond_dir):
    """hydrogens saturating atom Z that already has one bond along unit vector bond_dir
    (pointing from the atom to its partner).  Returned as offsets from the atom."""
    n = VALENCE[Z] - 1
    r = RCOV[Z] + RCOV[1]
    if n <= 0:
        return []
    # local frame: e1 = -bond_dir
    e1 = -np.asarray(bond_dir, float)
    # pick perpendiculars deterministically
    a = np.array([0.0, 1.0, 0.0]) if abs(e1[1]) < 0.9 else np.array([1.0, 0.0, 0.0])
    e2 = a - e1 * (a @ e1)
    e2 /= np.linalg.norm(e2)
    e3 = np.cross(e1, e2)
    tilt = {1: 70.0, 2: 60.0, 3: 70.5287793655}[n]  # angle between e1 and X-H
    ct, st = math.cos(math.radians(tilt)), math.sin(math.radians(tilt))
    phis = {1: [0.0], 2: [60.0, -60.0], 3: [0.0, 120.0, 240.0]}[n]
    out = []
    for p in phis:
        pr = math.radians(p)
        out.append(r * (ct * e1 + st * (math.cos(pr) * e2 + math.sin(pr) * e3)))
    return out


def pair_molecule(ZA, ZB, scale=1.0):
    """Saturated closed-shell H_n A - B H_m with the A-B bond on +x, |AB| = scale*(rcov sum).
    A is placed at the origin.  Returns a molecule dict with species sorted."""
    R = scale * (RCOV[ZA] + RCOV[ZB])
    if ZA == 1 and ZB == 1:
        raise ValueError("H2 alone is excluded from the alphabet (see DESIGN.md)")
    atoms = [(ZA, np.zeros(3)), (ZB, np.array([R, 0.0, 0.0]))]
    if ZA != 1:
        for h in _sub_h(ZA, [1, 0, 0]):
            atoms.append((1, h))
    if ZB != 1:
        for h in _sub_h(ZB, [-1, 0, 0]):
            atoms.append((1, np.array([R, 0.0, 0.0]) + h))
    # stable sort by Z descending keeps A before B when ZA == ZB and A first when ZA > ZB
    order = sorted(range(len(atoms)), key=lambda i: -atoms[i][0])
    species = [atoms[i][0] for i in order]
    coords = np.array([atoms[i][1] for i in order])
    return _mol(species, coords)


def get(name):
    m = MOLS[name]
    return {"species": list(m["species"]), "coords": m["coords"].copy(), "charge": m["charge"], "mult": m["mult"], "name": name}


# ------------------------------------------------------------------ rotations


def rot_axis(axis, angle):
    axis = np.asarray(axis, float)
    axis = axis / np.linalg.norm(axis)
    K = np.array([[0, -axis[2], axis[1]], [axis[2], 0, -axis[0]], [-axis[1], axis[0], 0]])
    return np.eye(3) + math.sin(angle) * K + (1 - math.cos(angle)) * (K @ K)


# fixed finite family of generic rotations (VERIF_SEED selects one); irrational angles
GENERIC_ROTS = [
    rot_axis([0.3, -0.5, 0.81], 1.234567),
    rot_axis([-0.72, 0.11, 0.45], 2.345678),
    rot_axis([0.19, 0.93, -0.31], 0.876543),
    rot_axis([0.58, 0.57, 0.59], 2.718281),
    rot_axis([-0.41, -0.83, 0.37], 1.618033),
]


def generic_rot(seed):
    return GENERIC_ROTS[int(seed) % len(GENERIC_ROTS)]


def octahedral_group():
    """The 24 proper rotations of the cube as exact integer matrices, with a BFS word for each
    in the generators a = C4(z), b = C3(111)."""
    a = np.array([[0, -1, 0], [1, 0, 0], [0, 0, 1]])
    b = np.array([[0, 0, 1], [1, 0, 0], [0, 1, 0]])
    gens = {"a": a, "b": b}
    seen = {tuple(np.eye(3, dtype=int).flatten()): ""}
    frontier = [np.eye(3, dtype=int)]
    edges = []
    while frontier:
        nxt = []
        for g in frontier:
            for name, h in gens.items():
                k = h @ g
                key = tuple(k.flatten())
                edges.append((tuple(g.flatten()), name, key))
                if key not in seen:
                    seen[key] = seen[tuple(g.flatten())] + name
                    nxt.append(k)
        frontier = nxt
    elems = [(w, np.array(k, dtype=float).reshape(3, 3)) for k, w in seen.items()]
    assert len(elems) == 24
    return elems, edges


def apply(mol, R=None, t=None):
    m = dict(mol)
    c = mol["coords"].copy()
    if R is not None:
        c = c @ np.asarray(R).T
    if t is not None:
        c = c + np.asarray(t, float)
    m["coords"] = c
    return m


def batch(mols, pad_extra=0, pad_value=0.0):
    """Zero-padded batch arrays from a list of molecule dicts."""
    n = max(len(m["species"]) for m in mols) + pad_extra
    sp = np.zeros((len(mols), n), dtype=np.int64)
    xyz = np.zeros((len(mols), n, 3)) + np.asarray(pad_value, float)
    for i, m in enumerate(mols):
        k = len(m["species"])
        sp[i, :k] = m["species"]
        xyz[i, :k] = m["coords"]
    ch = np.array([m.get("charge", 0) for m in mols], dtype=np.int64)
    mu = np.array([m.get("mult", 1) for m in mols], dtype=np.int64)
    return sp, xyz, ch, mu


def min_distance(mol):
    c = mol["coords"]
    d = [np.linalg.norm(c[i] - c[j]) for i, j in itertools.combinations(range(len(c)), 2)]
    return min(d) if d else 9.9
