"""Surface-hopping (SurfaceHoppingDynamics) runs on real molecules for the crash and cadence explorers."""
import contextlib
import io
import os

import torch

from . import md as MD
from . import sp


def run_sh(cfg, workdir, hook=None):
    from seqm.NonadiabaticDynamics import SurfaceHoppingDynamics

    from . import crash as CR

    params = CR.cfg_params(cfg)
    params.pop("active_state", None)
    mols = CR.cfg_mols(cfg)
    nmol = len(mols)
    cwd = os.getcwd()
    os.chdir(workdir)
    try:
        molecule, _ = sp.build(mols, params)
        out = dict(cfg["out"])
        out.setdefault("molid", list(range(nmol)))
        o = MD.output_cfg("md", **out)
        dyn = SurfaceHoppingDynamics(
            seqm_parameters=params, timestep=cfg["dt"], Temp=cfg["temp"], output=o, initial_state=cfg.get("active_state") or 1
        )
        if hook is not None:
            hook(dyn, molecule)
        buf = io.StringIO()
        err = None
        with contextlib.redirect_stdout(buf):
            try:
                dyn.run(molecule, steps=cfg["steps"], reuse_P=cfg["reuse_P"], remove_com=None, seed=cfg["seed"])
            except Exception as e:  # noqa: BLE001
                err = f"{type(e).__name__}: {e}"
        res = MD.collect("md", range(nmol))
        res["stdout"] = buf.getvalue()
        res["error"] = err
        res["hop_log"] = [repr(h) for h in getattr(dyn, "hop_log", [])]
        res["workdir"] = workdir
        return res
    finally:
        os.chdir(cwd)


def resume_sh(workdir, nmol, raw=False):
    from seqm.NonadiabaticDynamics import SurfaceHoppingDynamics

    cwd = os.getcwd()
    os.chdir(workdir)
    buf = io.StringIO()
    err = None
    try:
        if raw:
            SurfaceHoppingDynamics.run_from_checkpoint("md.restart.pt")
            return None
        with contextlib.redirect_stdout(buf):
            try:
                SurfaceHoppingDynamics.run_from_checkpoint("md.restart.pt")
            except Exception as e:  # noqa: BLE001
                if type(e).__name__ in ("SoftCrash", "SimulatedCrash"):
                    raise
                err = f"{type(e).__name__}: {e}"
        res = MD.collect("md", range(nmol))
        res["stdout"] = buf.getvalue()
        res["error"] = err
        return res
    finally:
        os.chdir(cwd)
