"""Subprocess entry point for journaled runs: python -m vp.drivers.crash_runner cfg.json (cwd = run dir)."""
import json
import os
import sys


def main():
    from vp import bootstrap

    bootstrap()
    from vp.drivers import crash

    with open(sys.argv[1]) as fh:
        cfg = json.load(fh)
    if "--resume" in sys.argv[2:]:
        r = crash.crash_child(cfg, os.getcwd(), None, True)
        if r["outcome"] != "completed":
            print(r["outcome"], file=sys.stderr)
            return 3
        return 0
    rng_log = crash.install_rng_logger()
    r = crash.run_cfg(cfg, os.getcwd())
    with open(os.path.join(os.path.dirname(sys.argv[1]), "rnglog.json"), "w") as fh:
        json.dump(rng_log, fh)
    if r["error"]:
        print(r["error"], file=sys.stderr)
        return 3
    return 0


if __name__ == "__main__":
    sys.exit(main())
