"""Crash-state machinery for C10 (and the resumed halves of C09/C11).

Three granularities (DESIGN.md, C10):
  1. physical write journal (LD_PRELOAD shim native/journal.so): every prefix of the journal
     (and every page split of a multi-page last write) is materialised as an on-disk state;
  2. instrumented program points: class-level wrappers that kill the process hard
     (os._exit: no finally, no flush) or soft (exception: finally-block flush/close)
     before/after the n-th call of a named function;
  3. sequences of such crashes (the resumed process is crashed again).
All runs use the relative prefix "md" inside their own directory (the checkpoint stores the
prefix, so an absolute prefix would make every recovery write into the original directory).
"""
import contextlib
import io
import json
import os
import shutil
import struct
import subprocess
import sys

import numpy as np

from .. import REPO_ROOT, VERIF_ROOT
from . import md as MD
from . import molecules as M
from . import sp

SHIM = os.path.join(VERIF_ROOT, "native", "journal.so")


# ----------------------------------------------------------------------------- configuration


def default_cfg(**kw):
    cfg = dict(
        engine="bomd", mols=["HF"], method="AM1", eps=1e-8, steps=6, dt=0.5, temp=300.0, seed=3,
        out=dict(data=1, coordinates=1, velocities=1, forces=1, xyz=1, print_every=0, checkpoint_every=2),
        reuse_P=True, k=3, damp=10.0, excited=None, active_state=None, remove_com=None, xl_extra=None,
        rot=0,
    )  # fmt: skip
    for k, v in kw.items():
        if k == "out":
            cfg["out"].update(v)
        else:
            cfg[k] = v
    return cfg


def cfg_mols(cfg):
    R = M.generic_rot(cfg.get("rot", 0))
    out = []
    for i, n in enumerate(cfg["mols"]):
        m = M.apply(M.get(n), R)
        if cfg.get("excited") and i > 0:
            m["coords"][1] += 0.02 * i  # homogeneous excited batches need distinct geometries
        out.append(m)
    return out


def cfg_params(cfg):
    p = sp.make_params(cfg["method"], eps=cfg["eps"])
    if cfg.get("excited"):
        p["excited_states"] = dict(cfg["excited"])
        p["active_state"] = cfg.get("active_state") or 1
    return p


def run_cfg(cfg, workdir, hook=None):
    """Run cfg's MD in workdir (cwd-relative prefix 'md'); returns run_md result."""
    nmol = len(cfg["mols"])
    out = dict(cfg["out"])
    out.setdefault("molid", list(range(nmol)))
    eng = cfg["engine"]
    if eng == "sh":
        from . import sh as SH

        return SH.run_sh(cfg, workdir, hook=hook)
    return MD.run_md(
        eng, cfg_mols(cfg), cfg_params(cfg), cfg["steps"], dt=cfg["dt"], temp=cfg["temp"], seed=cfg["seed"],
        remove_com=tuple(cfg["remove_com"]) if cfg.get("remove_com") else None, reuse_P=cfg["reuse_P"], out=out,
        workdir=workdir, k=cfg["k"], damp=cfg["damp"], xl_extra=cfg.get("xl_extra"), hook=hook,
        nmol_out=range(nmol),
    )  # fmt: skip


# ----------------------------------------------------------------------------- journal


def journaled_run(cfg, base):
    """Execute cfg in a subprocess under the write journal. Returns (ops, rundir)."""
    rundir = os.path.join(base, "run")
    os.makedirs(rundir, exist_ok=True)
    jpath = os.path.join(base, "journal.bin")
    cpath = os.path.join(base, "cfg.json")
    with open(cpath, "w") as fh:
        json.dump(cfg, fh)
    env = dict(os.environ)
    env.update(
        LD_PRELOAD=SHIM, VP_JOURNAL_ROOT=os.path.realpath(rundir), VP_JOURNAL=jpath,
        PYTHONPATH=VERIF_ROOT + os.pathsep + env.get("PYTHONPATH", ""), VP_REPO=REPO_ROOT,
    )  # fmt: skip
    r = subprocess.run(
        [sys.executable, "-m", "vp.drivers.crash_runner", cpath], cwd=rundir, env=env, capture_output=True, text=True,
        timeout=900,
    )  # fmt: skip
    if r.returncode != 0:
        raise RuntimeError(f"journaled run failed rc={r.returncode}: {r.stderr[-2000:]}")
    return parse_journal(jpath, os.path.realpath(rundir)), rundir


def journaled_resume(cfg, base, image_dir, tag):
    """Resume from a copy of the crash image in image_dir in a subprocess under the write journal.
    Returns (ops, rundir): the physical writes of the RESUMED process, relative to its directory."""
    top = os.path.join(base, f"resume_{tag}")
    rundir = os.path.join(top, "run")
    shutil.rmtree(top, ignore_errors=True)
    os.makedirs(top)
    shutil.copytree(image_dir, rundir)
    jpath = os.path.join(top, "journal.bin")
    cpath = os.path.join(top, "cfg.json")
    with open(cpath, "w") as fh:
        json.dump(cfg, fh)
    env = dict(os.environ)
    env.update(
        LD_PRELOAD=SHIM, VP_JOURNAL_ROOT=os.path.realpath(rundir), VP_JOURNAL=jpath,
        PYTHONPATH=VERIF_ROOT + os.pathsep + env.get("PYTHONPATH", ""), VP_REPO=REPO_ROOT,
    )  # fmt: skip
    r = subprocess.run(
        [sys.executable, "-m", "vp.drivers.crash_runner", cpath, "--resume"], cwd=rundir, env=env, capture_output=True,
        text=True, timeout=900,
    )  # fmt: skip
    if r.returncode != 0:
        raise RuntimeError(f"journaled resume failed rc={r.returncode}: {r.stderr[-2000:]}")
    ops = parse_journal(jpath, os.path.realpath(rundir)) if os.path.exists(jpath) else []
    return ops, rundir


def parse_journal(jpath, root):
    ops = []
    with open(jpath, "rb") as fh:
        data = fh.read()
    o = 0
    while o + 24 <= len(data):
        kind, pl, off, ln = struct.unpack_from("<IIQQ", data, o)
        o += 24
        path = data[o : o + pl].decode()
        o += pl
        nbytes = ln if kind in (1, 2, 3) else 0
        payload = data[o : o + nbytes]
        o += nbytes
        rel = os.path.relpath(path, root)
        if kind == 3:
            payload = os.path.relpath(payload.decode(), root)
        ops.append({"kind": kind, "path": rel, "off": off, "len": ln, "payload": payload})
    return ops


def apply_ops(ops, torn=None, base=None):
    """File system image {relpath: bytearray} after ops; `torn` = number of bytes of the LAST op's
    payload that reached the file (page-split torn write); `base` = image the ops start from (journal
    of a RESUMED run: its writes land on the files the crashed run left behind)."""
    files = {k: bytearray(v) for k, v in base.items()} if base else {}
    n = len(ops)
    for i, op in enumerate(ops):
        k, p = op["kind"], op["path"]
        if k in (1, 2):
            data = op["payload"]
            if torn is not None and i == n - 1:
                data = data[:torn]
            buf = files.setdefault(p, bytearray())
            off = op["off"] if k == 1 else len(buf)
            if len(buf) < off:
                buf.extend(b"\0" * (off - len(buf)))
            buf[off : off + len(data)] = data
        elif k == 3:
            if p in files:
                files[op["payload"]] = files.pop(p)
        elif k == 4:
            if op["off"] == 1 or p not in files:
                files[p] = bytearray()
        elif k == 5:
            buf = files.setdefault(p, bytearray())
            L = op["off"]
            if len(buf) > L:
                del buf[L:]
            else:
                buf.extend(b"\0" * (L - len(buf)))
        elif k == 6:
            files.pop(p, None)
    return files


def write_image(files, dest):
    os.makedirs(dest, exist_ok=True)
    for rel, buf in files.items():
        path = os.path.join(dest, rel)
        os.makedirs(os.path.dirname(path) or dest, exist_ok=True)
        with open(path, "wb") as fh:
            fh.write(bytes(buf))


def image_key(files):
    import hashlib

    h = hashlib.sha1()
    for rel in sorted(files):
        if rel.startswith(".tmp_ckpt_"):
            continue  # never read by recovery
        h.update(rel.encode() + b"\0" + hashlib.sha1(bytes(files[rel])).digest())
    return h.hexdigest()


# ----------------------------------------------------------------------------- recovery + oracle


def recover(dest, cfg, nmol):
    """What a user does after a crash: resume from the checkpoint if there is one, else rerun."""
    ck = os.path.join(dest, "md.restart.pt")
    info = {"had_checkpoint": os.path.exists(ck)}
    info["rng_log"] = install_rng_logger()
    if info["had_checkpoint"]:
        import torch

        try:
            c = torch.load(ck, map_location="cpu", weights_only=False)
            info["step_done"] = int(c["step_done"])
            missing = [k for k in ("step_done", "steps", "molecules", "rng", "output", "seqm_parameters") if k not in c]
            if missing:
                info["checkpoint_error"] = f"checkpoint lacks keys {missing}"
        except Exception as e:  # noqa: BLE001
            info["checkpoint_error"] = f"checkpoint not loadable: {type(e).__name__}: {e}"
            return info, None
        if cfg["engine"] == "sh":
            from . import sh as SH

            res = SH.resume_sh(dest, nmol)
        else:
            res = MD.resume(dest, None, nmol_out=range(nmol))
    else:
        res = run_cfg(cfg, dest)
    return info, res


def _close(a, b, rtol, atol):
    a = np.asarray(a)
    b = np.asarray(b)
    if a.shape != b.shape:
        return False
    if a.dtype.kind in "iub" or b.dtype.kind in "iub":
        return np.array_equal(a, b)
    return bool(np.allclose(a, b, rtol=rtol, atol=atol, equal_nan=True))


def compare_outputs(res, ref, nmol, rtol=1e-9, atol=1e-11, xyz_atol=2e-5):
    """recovered outputs vs the uninterrupted reference: every dataset, exact integer step logs,
    XYZ frames exactly once in order."""
    prob = []
    for mol in range(nmol):
        a, b = res.get(f"h5.{mol}"), ref.get(f"h5.{mol}")
        if (a is None) != (b is None):
            prob.append(f"h5.{mol}: {'missing' if a is None else 'unexpected'} file")
        elif a is not None:
            for k in sorted(set(a) | set(b)):
                if k not in a:
                    prob.append(f"h5.{mol}: dataset {k} missing")
                elif k not in b:
                    prob.append(f"h5.{mol}: unexpected dataset {k}")
                elif not _close(a[k], b[k], rtol, atol):
                    if k.endswith("steps"):
                        prob.append(f"h5.{mol}: {k} = {np.asarray(a[k]).tolist()} expected {np.asarray(b[k]).tolist()}")
                    else:
                        d = np.abs(np.asarray(a[k], float) - np.asarray(b[k], float)) if np.asarray(a[k]).shape == np.asarray(b[k]).shape else None
                        prob.append(f"h5.{mol}: {k} differs (max abs diff {None if d is None else float(np.nanmax(d)):.3g})")
        xa, xb = res.get(f"xyz.{mol}"), ref.get(f"xyz.{mol}")
        if (xa is None) != (xb is None):
            prob.append(f"xyz.{mol}: {'missing' if xa is None else 'unexpected'} file")
        elif xa is not None:
            la, lb = [f[0] for f in xa], [f[0] for f in xb]
            if la != lb:
                kind = "duplicated" if len(la) > len(set(la)) and set(la) == set(lb) else "wrong"
                prob.append(f"xyz.{mol}: frame labels {la} expected {lb} ({kind} frames)")
            else:
                for fa, fb in zip(xa, xb):
                    if fa[1:] != fb[1:]:
                        prob.append(f"xyz.{mol}: frame {fa[0]} content differs")
                        break
    return prob


# ----------------------------------------------------------------------------- program-point crashes


class SoftCrash(RuntimeError):
    pass


POINTS = [
    "step", "append_data", "append_vectors", "append_nonadiabatic", "xyz_write", "flush_all", "h5_flush",
    "save_checkpoint", "torch_save", "os_replace",
]  # fmt: skip


def install_crash(point, nth, when, kind):
    """Class-level instrumentation (survives run_from_checkpoint creating a new engine object).
    Dies at the nth (1-based) call of `point`, `when` in {"before","after"}, kind in {"hard","soft"}.
    Returns a dict whose 'fired' flag tells whether the crash point was reached."""
    import torch

    from seqm import MolecularDynamics as MDm

    state = {"n": 0, "fired": False}

    def die():
        state["fired"] = True
        if kind == "hard":
            sys.stdout.flush()
            os._exit(77)
        raise SoftCrash(f"{point}#{nth}:{when}")

    def wrap(orig):
        def w(*a, **kw):
            state["n"] += 1
            hit = state["n"] == nth
            if hit and when == "before":
                die()
            r = orig(*a, **kw)
            if hit and when == "after":
                die()
            return r

        return w

    def patch(obj, name):
        setattr(obj, name, wrap(getattr(obj, name)))

    if point == "step":
        classes = [MDm.Molecular_Dynamics_Basic, MDm.XL_BOMD]
        try:
            from seqm import NonadiabaticDynamics as NA

            for c in vars(NA).values():
                if isinstance(c, type) and "_do_integrator_step" in vars(c):
                    classes.append(c)
        except Exception:  # noqa: BLE001
            pass
        shared = wrap(lambda f, *a, **kw: f(*a, **kw))
        for c in classes:
            if "_do_integrator_step" in vars(c):
                orig = vars(c)["_do_integrator_step"]

                def mk(orig):
                    def w(self, *a, **kw):
                        return shared(orig, self, *a, **kw)

                    return w

                setattr(c, "_do_integrator_step", mk(orig))
    elif point == "append_data":
        patch(MDm.HDF5Writer, "append_data")
    elif point == "append_vectors":
        patch(MDm.HDF5Writer, "append_vectors")
    elif point == "append_nonadiabatic":
        patch(MDm.HDF5Writer, "append_nonadiabatic")
    elif point == "h5_flush":
        patch(MDm.HDF5Writer, "flush")
    elif point == "xyz_write":
        patch(MDm.XYZWriter, "write")
    elif point == "flush_all":
        patch(MDm.Molecular_Dynamics_Basic, "_flush_all")
    elif point == "save_checkpoint":
        patch(MDm.Molecular_Dynamics_Basic, "_save_checkpoint_and_report")
    elif point == "torch_save":
        MDm.torch.save = wrap(torch.save)  # same module object as torch; restored by process exit
    elif point == "os_replace":
        MDm.os.replace = wrap(os.replace)
    else:
        raise ValueError(point)
    return state


DRAWING_ENGINES = ("langevin", "xl_damped", "ksa_damped", "sh")


def install_rng_logger():
    """Class-level observer: records (absolute step index, hash of torch's CPU RNG state) at the start of every
    integrator step.  Used as an oracle on the state the property depends on for engines that draw random numbers
    in every step: a resumed step must start from the RNG state the uninterrupted run had at that step."""
    import hashlib

    import torch
    from seqm import MolecularDynamics as MDm

    log = []
    classes = [MDm.Molecular_Dynamics_Basic, MDm.XL_BOMD]
    try:
        from seqm import NonadiabaticDynamics as NA

        for c in vars(NA).values():
            if isinstance(c, type) and "_do_integrator_step" in vars(c):
                classes.append(c)
    except Exception:  # noqa: BLE001
        pass
    for c in classes:
        if "_do_integrator_step" in vars(c) and not getattr(vars(c)["_do_integrator_step"], "_vp_rnglog", False):
            orig = vars(c)["_do_integrator_step"]

            def mk(orig):
                def w(self, i, *a, **kw):
                    log.append((int(i), hashlib.sha1(torch.random.get_rng_state().numpy().tobytes()).hexdigest()[:12]))
                    return orig(self, i, *a, **kw)

                w._vp_rnglog = True
                return w

            setattr(c, "_do_integrator_step", mk(orig))
    return log


def crash_child(cfg, workdir, crash, resume):
    """Runs in a forked child: (resume or fresh run) with one crash point installed.
    crash = (point, nth, when, kind) or None."""
    st = install_crash(*crash) if crash else None
    buf = io.StringIO()
    outcome = "completed"
    try:
        with contextlib.redirect_stdout(buf):
            if resume:
                cwd = os.getcwd()
                os.chdir(workdir)
                try:
                    from seqm.MolecularDynamics import Molecular_Dynamics_Basic

                    if cfg["engine"] == "sh":
                        from . import sh as SH

                        SH.resume_sh(workdir, len(cfg["mols"]), raw=True)
                    else:
                        Molecular_Dynamics_Basic.run_from_checkpoint("md.restart.pt")
                finally:
                    os.chdir(cwd)
            else:
                r = run_cfg(cfg, workdir, hook=None)
                if r["error"]:
                    outcome = "soft-crashed" if r["error"].startswith("SoftCrash") else f"error: {r['error']}"
    except SoftCrash:
        outcome = "soft-crashed"
    except Exception as e:  # noqa: BLE001
        outcome = f"error: {type(e).__name__}: {e}"
    return {"outcome": outcome, "fired": bool(st and st["fired"])}


def copytree(src, dst):
    shutil.copytree(src, dst)


def in_fork(fn, *args, timeout=600):
    """Run fn(*args) in a forked grandchild; returns ("ok", result) or ("exit", code) when the
    grandchild died (e.g. the hard-crash os._exit) or ("timeout", None)."""
    import pickle
    import select
    import signal
    import time

    r, w = os.pipe()
    sys.stdout.flush()
    pid = os.fork()
    if pid == 0:
        os.close(r)
        try:
            res = fn(*args)
            with os.fdopen(w, "wb") as fh:
                pickle.dump(res, fh)
        except BaseException as e:  # noqa: BLE001
            try:
                with os.fdopen(w, "wb") as fh:
                    pickle.dump({"__error__": f"{type(e).__name__}: {e}"}, fh)
            except Exception:  # noqa: BLE001
                pass
        finally:
            os._exit(0)
    os.close(w)
    chunks = []
    t0 = time.time()
    timed_out = False
    with os.fdopen(r, "rb") as fh:
        fd = fh.fileno()
        while True:
            rd, _, _ = select.select([fd], [], [], 1.0)
            if rd:
                b = os.read(fd, 1 << 20)
                if not b:
                    break
                chunks.append(b)
            elif time.time() - t0 > timeout:
                timed_out = True
                os.kill(pid, signal.SIGKILL)
                break
    _, status = os.waitpid(pid, 0)
    if timed_out:
        return "timeout", None
    data = b"".join(chunks)
    if data:
        return "ok", pickle.loads(data)
    code = os.waitstatus_to_exitcode(status)
    return "exit", code
