"""Single-point driver: run the real Molecule + Electronic_Structure on numpy inputs and
return plain numpy observations.  Imported only after vp.bootstrap()."""
import copy

import numpy as np
import torch

from . import molecules as M

FORCE_MODES = {
    "autodiff": None,
    "analytical": [True],
    "semi_numerical": [True, "numerical"],
}

SOLVERS = {
    "fixed0": [0, 0.0],
    "fixed0.3": [0, 0.3],
    "fixed0.7": [0, 0.7],
    "adaptive": [1],
    "pulay": [2],
}


def make_params(method="AM1", solver="adaptive", eps=1e-10, sp2=None, force_mode="autodiff", uhf=False, **extra):
    p = {"method": method, "scf_eps": float(eps), "scf_converger": list(SOLVERS.get(solver, solver))}
    if sp2 is not None:
        p["sp2"] = [True, float(sp2)]
    fm = FORCE_MODES[force_mode]
    if fm is not None:
        p["analytical_gradient"] = list(fm)
    if uhf:
        p["UHF"] = True
    p.update(copy.deepcopy(extra))
    return p


def to_np(x):
    if x is None:
        return None
    if torch.is_tensor(x):
        return x.detach().cpu().numpy().copy()
    return x


def build(mols, params, pad_extra=0, pad_value=0.0, learned=None, const=None, es=None, **molkw):
    """Molecule + driver for a list of molecule dicts (or one dict).  `const` / `es`: a Constants object / driver
    that was used before (what user scripts do: one `const`, one driver, many molecules)."""
    from seqm.ElectronicStructure import Electronic_Structure
    from seqm.Molecule import Molecule
    from seqm.seqm_functions.constants import Constants

    if isinstance(mols, dict):
        mols = [mols]
    sp, xyz, ch, mu = M.batch(mols, pad_extra=pad_extra, pad_value=pad_value)
    const = Constants() if const is None else const
    species = torch.as_tensor(sp, dtype=torch.int64)
    coords = torch.as_tensor(xyz, dtype=molkw.pop("dtype", torch.float64))
    kw = dict(molkw)
    if np.any(ch != 0) or np.any(mu != 1) or params.get("UHF"):
        kw["charges"] = torch.as_tensor(ch, dtype=torch.int64)
        kw["mult"] = torch.as_tensor(mu, dtype=torch.int64)
    if learned is not None:
        kw["learned_parameters"] = learned
    molecule = Molecule(const, params, coords, species, **kw)
    es = Electronic_Structure(params) if es is None else es
    return molecule, es


OBS_MOL = [
    "Etot", "Hf", "Eelec", "Enuc", "Eiso", "force", "q", "e_mo", "e_gap", "dm", "dipole",
    "cis_energies", "oscillator_strength", "transition_dipole",
]  # fmt: skip


def observe(molecule, es, names=None):
    out = {}
    for n in names or OBS_MOL:
        v = getattr(molecule, n, None)
        out[n] = to_np(v) if torch.is_tensor(v) else None
    nc = getattr(es, "notconverged", None)
    out["notconverged"] = to_np(nc) if torch.is_tensor(nc) else None
    return out


def single_point(mols, params, pad_extra=0, pad_value=0.0, P0=None, names=None, active_state=None, **fwd):
    """Run one call of the real driver; returns dict of numpy observations."""
    params = copy.deepcopy(params)
    molecule, es = build(mols, params, pad_extra=pad_extra, pad_value=pad_value)
    if active_state is not None:
        molecule.active_state = active_state
    molecule.verbose = False
    if P0 is not None:
        fwd["P0"] = torch.as_tensor(P0)
    es(molecule, **fwd)
    return observe(molecule, es, names)
