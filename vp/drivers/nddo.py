"""Package-facing side of C06: run the real hcore / fock / fock_u_batch / G / CIS response build /
pair_nuclear_energy / overlap kernels on batches of diatomics and return plain numpy arrays in the
*compact* orbital layout of the reference model (1 function on H, 4 on heavy atoms).

Imported only after vp.bootstrap().
"""
import numpy as np
import torch

from . import sp

# packed index (mu >= nu) of the package's two-centre integral blocks: ss, xs, xx, ys, yx, yy, zs, zx, zy, zz
PACK = [(0, 0), (1, 0), (1, 1), (2, 0), (2, 1), (2, 2), (3, 0), (3, 1), (3, 2), (3, 3)]


def unpack_w(w10):
    """(..., 10, 10) packed -> (..., 4, 4, 4, 4) full (mu nu|la si), mu nu on the first atom."""
    w10 = np.asarray(w10)
    W = np.zeros(w10.shape[:-2] + (4, 4, 4, 4))
    for a, (k, l) in enumerate(PACK):
        for b, (m, n) in enumerate(PACK):
            v = w10[..., a, b]
            W[..., k, l, m, n] = v
            W[..., l, k, m, n] = v
            W[..., k, l, n, m] = v
            W[..., l, k, n, m] = v
    return W


def compact_index(species):
    """positions of the real orbitals in the package's padded 4-per-atom layout."""
    idx = []
    for i, Z in enumerate(species):
        idx.extend([4 * i + k for k in range(1 if Z == 1 else 4)])
    return np.array(idx, dtype=int)


class PairBatch:
    """a batch of diatomics A-B (same elements, different R / orientation) pushed through the real kernels."""

    def __init__(self, method, ZA, ZB, geoms, uhf=False):
        # geoms: list of (R_angstrom, unit vector from A to B)
        assert ZA >= ZB
        self.method, self.ZA, self.ZB = method, ZA, ZB
        self.species = [ZA, ZB]
        self.ci = compact_index(self.species)
        self.n = len(self.ci)
        from seqm.seqm_functions.constants import Constants

        nel = Constants().tore[[ZA, ZB]].sum().item()
        charge = int(nel) % 2  # the parser refuses odd electron counts in RHF mode; the kernels do not depend on it
        mols = []
        for R, d in geoms:
            d = np.asarray(d, float)
            mols.append(dict(species=[ZA, ZB], coords=np.array([[0.0, 0.0, 0.0], R * d]), charge=charge, mult=1))
        self.nmol = len(mols)
        self.params = sp.make_params(method, eps=1e-10)
        self.molecule, self.es = sp.build(mols, self.params)
        self.molecule.verbose = False
        m = self.molecule
        p = m.parameters
        self._tail = (
            p["g_ss"], p["g_pp"], p["g_sp"], p["g_p2"], p["h_sp"], m.method, p["zeta_s"], p["zeta_p"], p["zeta_d"],
            m.Z, p["F0SD"], p["G2SD"],
        )  # fmt: skip
        self.W0 = torch.tensor([0])

    # -- one-electron part and integrals ---------------------------------------------------------
    def hcore(self):
        from seqm.seqm_functions.hcore import hcore

        with torch.no_grad():
            M, w, rho0xi, rho0xj, riXH, ri = hcore(self.molecule)
        self.M, self.w = M, w
        self.rho0xi, self.rho0xj = rho0xi, rho0xj
        Mn = M.numpy().reshape(self.nmol, 2, 2, 4, 4)
        H = np.zeros((self.nmol, 8, 8))
        AA = np.triu(Mn[:, 0, 0])
        BB = np.triu(Mn[:, 1, 1])
        H[:, :4, :4] = AA + np.triu(AA, 1).transpose(0, 2, 1)
        H[:, 4:, 4:] = BB + np.triu(BB, 1).transpose(0, 2, 1)
        H[:, :4, 4:] = Mn[:, 0, 1]
        H[:, 4:, :4] = Mn[:, 0, 1].transpose(0, 2, 1)
        lower_filled = float(np.abs(Mn[:, 1, 0]).max())  # the package leaves the lower block empty
        pad = np.setdiff1d(np.arange(8), self.ci)
        padmax = float(np.abs(H[:, pad, :]).max()) if len(pad) else 0.0
        return dict(
            H=H[:, self.ci][:, :, self.ci], W=unpack_w(w.numpy()), lower_block_max=lower_filled, pad_max=padmax,
            ri=None if ri is None else ri.numpy(), riXH=None if riXH is None else riXH.numpy(),
        )  # fmt: skip

    def overlap(self):
        from seqm.seqm_functions.diat_overlap_PM6_SP import diatom_overlap_matrix_PM6_SP

        m = self.molecule
        zeta = torch.stack([m.parameters["zeta_s"], m.parameters["zeta_p"]], dim=1)
        with torch.no_grad():
            di = diatom_overlap_matrix_PM6_SP(m.ni, m.nj, m.xij, m.rij, zeta[m.idxi], zeta[m.idxj], m.const.qn_int)
        return di.numpy()

    def enuc(self):
        from seqm.seqm_functions.energy import pair_nuclear_energy

        m = self.molecule
        parnuc = self.es.conservative_force.energy._build_parnuc(m.parameters)
        with torch.no_grad():
            e = pair_nuclear_energy(
                m.Z, m.const, m.nmol, m.ni, m.nj, m.idxi, m.idxj, m.rij, self.rho0xi, self.rho0xj, m.alp, m.chi,
                gam=self.w[..., 0, 0], method=m.method, parameters=parnuc,
            )  # fmt: skip
        return e.numpy()

    # -- densities in / Fock matrices out, compact layout ------------------------------------------
    def _pad(self, P):
        """(nmol, n, n) or (n, n) compact -> (nmol, 8, 8) padded torch tensor."""
        P = np.asarray(P, float)
        if P.ndim == 2:
            P = np.broadcast_to(P, (self.nmol,) + P.shape)
        out = np.zeros((self.nmol, 8, 8))
        out[np.ix_(np.arange(self.nmol), self.ci, self.ci)] = P
        return torch.as_tensor(out)

    def _compact(self, F):
        F = F.numpy()
        return F[..., self.ci, :][..., :, self.ci]

    def _args(self, P):
        m = self.molecule
        return (m.nmol, m.molsize, P, self.M, m.maskd, m.mask, m.idxi, m.idxj, self.w, self.W0) + self._tail

    def fock(self, P):
        from seqm.seqm_functions.fock import fock

        with torch.no_grad():
            return self._compact(fock(*self._args(self._pad(P))))

    def fock_u(self, Pa, Pb):
        from seqm.seqm_functions.fock_u_batch import fock_u_batch

        P = torch.stack((self._pad(Pa), self._pad(Pb)), dim=1)
        with torch.no_grad():
            F = fock_u_batch(*self._args(P))
        F = self._compact(F)  # (nmol, 2, n, n)
        return F[:, 0], F[:, 1]

    def G(self, P):
        from seqm.seqm_functions.G_XL_LR import G

        with torch.no_grad():
            return self._compact(G(*self._args(self._pad(P))))

    def response(self, Pstack):
        """CIS/RPA response build  sum_jb (mu nu||jb) X_jb  for a stack (nroots, n, n) of general AO matrices,
        the same stack for every molecule of the batch."""
        from seqm.seqm_functions.rcis_batch import makeA_pi_batched

        Pstack = np.asarray(Pstack, float)
        P = torch.as_tensor(np.broadcast_to(Pstack, (self.nmol,) + Pstack.shape).copy())
        with torch.no_grad():
            F = makeA_pi_batched(self.molecule, P, self.w, allSymmetric=False)
        return F.numpy()


def scf_single(mol, method, uhf, eps=1e-10):
    """real SCF single point; returns numpy observations and the density in the compact layout."""
    p = sp.make_params(method, eps=eps, uhf=uhf)
    r = sp.single_point(mol, p, names=["Etot", "Hf", "Eelec", "Enuc", "Eiso", "dm"])
    ci = compact_index(mol["species"])
    dm = r["dm"][0]
    out = {k: float(r[k][0]) for k in ("Etot", "Hf", "Eelec", "Enuc", "Eiso")}
    out["notconverged"] = bool(np.any(r["notconverged"])) if r["notconverged"] is not None else False
    if dm.ndim == 3:
        out["P"] = (dm[0][np.ix_(ci, ci)], dm[1][np.ix_(ci, ci)])
        pad = np.setdiff1d(np.arange(dm.shape[-1]), ci)
        out["pad_density"] = float(np.abs(dm[:, pad, :]).max()) if len(pad) else 0.0
    else:
        out["P"] = dm[np.ix_(ci, ci)]
        pad = np.setdiff1d(np.arange(dm.shape[-1]), ci)
        out["pad_density"] = float(np.abs(dm[pad, :]).max()) if len(pad) else 0.0
    return out


class MolKernels:
    """one polyatomic molecule pushed through the real hcore / fock / fock_u_batch kernels (block-level view)."""

    def __init__(self, mol, method, uhf=False):
        self.species = list(mol["species"])
        self.ci = compact_index(self.species)
        self.n = len(self.ci)
        self.nat = len(self.species)
        self.params = sp.make_params(method, eps=1e-10, uhf=uhf)
        self.molecule, self.es = sp.build(mol, self.params)
        m = self.molecule
        p = m.parameters
        self._tail = (
            p["g_ss"], p["g_pp"], p["g_sp"], p["g_p2"], p["h_sp"], m.method, p["zeta_s"], p["zeta_p"], p["zeta_d"],
            m.Z, p["F0SD"], p["G2SD"],
        )  # fmt: skip
        self.W0 = torch.tensor([0])

    def hcore(self):
        from seqm.seqm_functions.hcore import hcore

        with torch.no_grad():
            M, w, rho0xi, rho0xj, riXH, ri = hcore(self.molecule)
        self.M, self.w = M, w
        na = self.nat
        Mn = M.numpy().reshape(na, na, 4, 4)
        H = np.zeros((4 * na, 4 * na))
        for i in range(na):
            D = np.triu(Mn[i, i])
            H[4 * i : 4 * i + 4, 4 * i : 4 * i + 4] = D + np.triu(D, 1).T
            for j in range(i + 1, na):
                H[4 * i : 4 * i + 4, 4 * j : 4 * j + 4] = Mn[i, j]
                H[4 * j : 4 * j + 4, 4 * i : 4 * i + 4] = Mn[i, j].T
        m = self.molecule
        W = {}
        wn = unpack_w(w.numpy())
        for p, (i, j) in enumerate(zip(m.idxi.tolist(), m.idxj.tolist())):
            W[(i, j)] = wn[p]
        return dict(H=H[np.ix_(self.ci, self.ci)], W=W)

    def _pad(self, P):
        out = np.zeros((1, 4 * self.nat, 4 * self.nat))
        out[0][np.ix_(self.ci, self.ci)] = np.asarray(P, float)
        return torch.as_tensor(out)

    def _args(self, P):
        m = self.molecule
        return (m.nmol, m.molsize, P, self.M, m.maskd, m.mask, m.idxi, m.idxj, self.w, self.W0) + self._tail

    def fock(self, P):
        from seqm.seqm_functions.fock import fock

        with torch.no_grad():
            F = fock(*self._args(self._pad(P))).numpy()[0]
        return F[np.ix_(self.ci, self.ci)]

    def fock_u(self, Pa, Pb):
        from seqm.seqm_functions.fock_u_batch import fock_u_batch

        P = torch.stack((self._pad(Pa), self._pad(Pb)), dim=1)
        with torch.no_grad():
            F = fock_u_batch(*self._args(P)).numpy()[0]
        return F[0][np.ix_(self.ci, self.ci)], F[1][np.ix_(self.ci, self.ci)]
