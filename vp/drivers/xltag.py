"""Tagged-density driver for the XL-BOMD recurrence (C09a).

The REAL XL_BOMD / KSA_XL_BOMD objects, the REAL run() loop, save_checkpoint and
run_from_checkpoint are executed; only the electronic structure is a stub that answers call j
with a one-hot "density" e_j (and a one-hot d2P/dt2 for KSA).  Because the propagation is linear,
the auxiliary density handed to the stub at each step (argument P0) IS the vector of effective
coefficients multiplying P(0), D(1), D(2), ...: the executed recurrence can be read off exactly.
"""
import contextlib
import io
import os

import numpy as np
import torch

from . import md as MD
from . import molecules as M
from . import sp

NT = 12  # orbital dimension of H2O: 3 atoms x 4 -> 144 tag slots


def _onehot(j, nmol=1):
    t = torch.zeros(nmol, NT, NT)
    t.view(nmol, -1)[:, j] = 1.0
    return t


def make_tag_class(mode):
    from seqm.ElectronicStructure import Electronic_Structure

    class TagES(Electronic_Structure):
        cursor = 0  # index of the next call: 0 = initialisation, j = end of integrator step j-1
        seen = []  # (call index, flattened P0 or None)

        def __init__(self, seqm_parameters, *a, **kw):
            torch.nn.Module.__init__(self)
            self.seqm_parameters = seqm_parameters

            class _E:
                md = False
                excited_states = {}

            class _F:
                energy = _E()

            self.conservative_force = _F()
            self.device = torch.device("cpu")

        def forward(self, molecule, learned_parameters=None, xl_bomd_params=None, P0=None, dm_prop="SCF", **kw):
            cls = type(self)
            j = cls.cursor
            cls.seen.append((j, None if P0 is None else P0.detach().reshape(-1).clone().numpy(), dm_prop))
            nmol = molecule.species.shape[0]
            z = torch.zeros(nmol)
            molecule.force = torch.zeros_like(molecule.coordinates)
            molecule.Etot = z.clone()
            molecule.Hf = z.clone()
            molecule.Eelec = z.clone()
            molecule.Enuc = z.clone()
            molecule.Eiso = z.clone()
            molecule.e_gap = z.clone()
            molecule.e_mo = torch.zeros(nmol, NT)
            molecule.dipole = torch.zeros(nmol, 3)
            molecule.Electronic_entropy = z.clone()
            molecule.q = torch.zeros_like(molecule.species, dtype=torch.float64)
            if mode == "ksa":
                # D is not used by the KSA propagation; the kernel-weighted residual is
                molecule.dm = _onehot(0, nmol) if j == 0 else _onehot(100 + j, nmol)
                if j > 0:
                    molecule.dP2dt2 = _onehot(j, nmol)
            else:
                molecule.dm = _onehot(j, nmol)
            cls.cursor = j + 1

    TagES.seen = []
    return TagES


@contextlib.contextmanager
def installed(mode):
    from seqm import MolecularDynamics as MDm

    cls = make_tag_class(mode)
    saved = MDm.esdriver
    MDm.esdriver = cls
    try:
        yield cls
    finally:
        MDm.esdriver = saved


def run_tagged(engine, k, nsteps, resume_at=None, checkpoint_every=0):
    """returns {n: coefficient vector of the auxiliary density used in integrator step n (n=0..nsteps-1)},
    i.e. P(n+1) of the recurrence, in the tag basis."""
    from seqm.MolecularDynamics import Molecular_Dynamics_Basic

    mode = "ksa" if engine.startswith("ksa") else "xl"
    wd = MD.scratch_dir("xltag")
    cwd = os.getcwd()
    try:
        with installed(mode) as cls:
            hook = MD.crash_after_checkpoint_hook(resume_at) if resume_at else None
            out = dict(data=0, coordinates=0, velocities=0, forces=0, xyz=0, print_every=0,
                       checkpoint_every=checkpoint_every)  # fmt: skip
            p = sp.make_params("AM1", eps=1e-8)
            r = MD.run_md(engine, [M.get("H2O")], p, nsteps, dt=0.5, temp=0.0, out=out, workdir=wd, hook=hook, k=k,
                          xl_extra=({"max_rank": 2, "err_threshold": 0.0, "T_el": 1500} if mode == "ksa" else None))  # fmt: skip
            if resume_at:
                if not (r["error"] or "").startswith("SimulatedCrash"):
                    raise RuntimeError(f"planned crash did not happen: {r['error']}")
                os.chdir(wd)
                cls.cursor = resume_at + 1
                with contextlib.redirect_stdout(io.StringIO()):
                    Molecular_Dynamics_Basic.run_from_checkpoint("md.restart.pt")
            elif r["error"]:
                raise RuntimeError(r["error"])
            got = {}
            for j, p0, prop in cls.seen:
                if j >= 1 and p0 is not None:
                    got[j - 1] = (p0, prop)
            return got
    finally:
        os.chdir(cwd)
        MD.rm(wd)
