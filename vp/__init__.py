"""Bounded exhaustive exploration (model checking) harness for lanl/PYSEQM.

Layout: see /verif/DESIGN.md section 3.
"""
import os
import sys

VERIF_ROOT = os.path.dirname(os.path.dirname(os.path.abspath(__file__)))
REPO_ROOT = os.environ.get("VP_REPO", "/repo")


def bootstrap():
    """Put the repository under test first on sys.path and make torch deterministic.

    Must be called before `import seqm`.  The editable install in /venv points at
    /repo anyway; VP_REPO lets the same checks run against a scratch worktree.
    """
    os.environ.setdefault("PYTHONHASHSEED", "0")
    os.environ.setdefault("OMP_NUM_THREADS", "1")
    os.environ.setdefault("MKL_NUM_THREADS", "1")
    os.environ.setdefault("LANL_PYSEQM_VERIF", "1")
    sys.dont_write_bytecode = True
    if REPO_ROOT not in sys.path[:1]:
        sys.path.insert(0, REPO_ROOT)
    import warnings

    warnings.filterwarnings("ignore", category=SyntaxWarning)
    warnings.filterwarnings("ignore", category=UserWarning)
    import torch

    torch.set_num_threads(1)
    try:
        torch.set_num_interop_threads(1)
    except RuntimeError:
        pass
    torch.set_default_dtype(torch.float64)
    return torch


def warm():
    """Pay torch's lazy initialisation (about 1 s) once in the parent before forking workers.
    Not used by checks where a pristine process is part of the property (C15)."""
    from .drivers import molecules as M
    from .drivers import sp

    sp.single_point(M.get("HF"), sp.make_params("AM1", eps=1e-6), names=["Etot"])
