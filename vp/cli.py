"""CLI: python -m vp.cli C11 --tier quick [--replay path]"""
import argparse
import importlib
import json
import os
import sys
import traceback

from . import bootstrap


def main(argv=None):
    ap = argparse.ArgumentParser()
    ap.add_argument("pid")
    ap.add_argument("--tier", default=os.environ.get("VERIF_TIER", "quick"), choices=["quick", "thorough"])
    ap.add_argument("--replay", default=None)
    ap.add_argument("--seed", type=int, default=int(os.environ.get("VERIF_SEED", "0") or 0))
    a = ap.parse_args(argv)
    bootstrap()
    mod = importlib.import_module(f"vp.checks.{a.pid.lower()}")
    if a.replay:
        with open(a.replay) as fh:
            payload = json.load(fh)
        ok = mod.replay(payload)
        print("REPLAY", "holds" if ok else "FAILS")
        return 0 if ok else 1
    from .core import Check

    chk = Check(mod.PID, mod.LEVEL, a.tier, a.seed, mod.RULE, getattr(mod, "ASSUMPTIONS", []))
    try:
        mod.run(chk, a.tier, a.seed)
    except Exception:  # noqa: BLE001
        traceback.print_exc()
        chk.harness_error("check crashed: see traceback")
    return chk.finish()


if __name__ == "__main__":
    sys.exit(main())
