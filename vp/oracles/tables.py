"""Independent reading of the shipped parameter tables and the published atomic constants.

Nothing here imports seqm: the CSV files are parsed with the csv module, the isolated-atom energy is
assembled from ground-state occupation numbers with the closed formulas of MOPAC's calpar (not from the
package's coefficient arrays), and the atomic heats of formation are an own copy of the published table
(MOPAC block.f, kcal/mol), so a changed constant on the package side shows up as a disagreement.
"""
import csv
import functools
import os

from .. import REPO_ROOT

EV_PER_KCALMOL = 1.0 / 23.061  # MOPAC's published conversion (1 eV = 23.061 kcal/mol)

# experimental heats of formation of the gaseous atoms, kcal/mol (MOPAC block.f / Dewar & Thiel 1977 and successors)
EHEAT_KCAL = {
    1: 52.102, 3: 38.410, 4: 76.960, 5: 135.700, 6: 170.890, 7: 113.000, 8: 59.559, 9: 18.890,
    11: 25.850, 12: 35.000, 13: 79.490, 14: 108.390, 15: 75.570, 16: 66.400, 17: 28.990,
}  # fmt: skip

# valence charge, ground-state s and p occupations, principal quantum number
TORE = {1: 1, 3: 1, 4: 2, 5: 3, 6: 4, 7: 5, 8: 6, 9: 7, 11: 1, 12: 2, 13: 3, 14: 4, 15: 5, 16: 6, 17: 7}
OCC_S = {1: 1, 3: 1, 4: 2, 5: 2, 6: 2, 7: 2, 8: 2, 9: 2, 11: 1, 12: 2, 13: 2, 14: 2, 15: 2, 16: 2, 17: 2}
OCC_P = {z: TORE[z] - OCC_S[z] for z in TORE}
QN = {z: (1 if z <= 2 else 2 if z <= 10 else 3) for z in TORE}

HPP_FLOOR = 0.1  # eV; MOPAC floors h_pp = (g_pp - g_p2)/2 at 0.1 eV before solving for the quadrupole additive term


@functools.lru_cache(maxsize=None)
def table(method):
    fn = os.path.join(REPO_ROOT, "seqm", "params", f"parameters_{method}_MOPAC.csv")
    out = {}
    with open(fn, newline="") as fh:
        rd = csv.reader(fh)
        header = [h.strip() for h in next(rd)]
        for row in rd:
            row = [c.strip() for c in row]
            if not row or not row[0]:
                continue
            z = int(row[0])
            d = {}
            for k, v in zip(header[2:], row[2:]):
                try:
                    d[k] = float(v)
                except ValueError:
                    d[k] = 0.0
            out[z] = d
    return out


def hpp(method, z):
    t = table(method)[z]
    return 0.5 * (t["g_pp"] - t["g_p2"])


def clamp_elements(method, species):
    """heavy elements of the molecule whose h_pp lies below the 0.1 eV floor in this method's table,
    i.e. for which the floor changes the two-centre integrals."""
    return sorted({int(z) for z in species if z > 2 and hpp(method, int(z)) < HPP_FLOOR})


def eisol_coefficients(z):
    """MOPAC calpar: EISOL = USS*IOS + UPP*IOP + GSS*GSSC + GSP*GSPC + GPP*GPPC + GP2*GP2C + HSP*HSPC."""
    ios, iop = OCC_S[z], OCC_P[z]
    k = iop
    l = min(k, 6 - k)
    return {
        "U_ss": ios,
        "U_pp": iop,
        "g_ss": max(ios - 1, 0),
        "g_sp": ios * k,
        "g_p2": k * (k - 1) / 2.0 + 0.5 * (l * (l - 1) / 2.0),
        "g_pp": -0.5 * (l * (l - 1) / 2.0),
        "h_sp": -0.5 * ios * k,
    }


def eisol(method, z):
    t = table(method)[z]
    return sum(c * t[name] for name, c in eisol_coefficients(z).items())


def eiso_sum(method, species):
    return sum(eisol(method, int(z)) for z in species if z > 0)


def eheat_sum_ev(species):
    return sum(EHEAT_KCAL[int(z)] for z in species if z > 0) * EV_PER_KCALMOL


def dd(method, z):
    """dipole charge separation D1 (bohr) of the sp hybrid, closed formula (Dewar-Thiel 1977)."""
    t = table(method)[z]
    zs, zp, n = t["zeta_s"], t["zeta_p"], QN[z]
    if z <= 2 or zs == 0.0 or zp == 0.0:
        return 0.0
    return (2 * n + 1) * (4 * zs * zp) ** (n + 0.5) / (zs + zp) ** (2 * n + 2) / 3.0**0.5
