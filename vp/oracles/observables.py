"""Cross-observable identities (property C14), recomputed with numpy from the arrays a call returned.

Every identity is evaluated independently of the package code that produced the observable:
  * energies: plain sums; isolated-atom energies and atomic heats from vp.oracles.tables (own CSV reader,
    own occupation-number formulas, own copy of the published heats and of the eV/kcal conversion);
  * orbital energies: numpy.linalg.eigvalsh of the Fock matrix REBUILT from the returned density with the
    package's own hcore/fock (that is the operator the statement refers to), restricted to the real orbitals
    by an index list built here from the species row;
  * charges: diagonal sub-blocks of the returned density summed here;
  * dipole: point charges + sp-hybrid term with the closed-formula charge separation D1 from the CSV exponents;
  * unit conversion of the dipole: the published MOPAC constants, cross-checked against CODATA.

Imported only after vp.bootstrap() (rebuild_fock imports seqm lazily).
"""
import numpy as np

from . import tables as T

A0_MOPAC = 0.529167  # Angstrom per bohr as published for MOPAC (used for the charge separation D1)
# e*Angstrom -> the package's dipole unit (atomic units), via Debye, with the constants MOPAC publishes
E_ANGSTROM_TO_DEBYE = 1.60217733e-19 * 1e-10 * 2.99792458e8 / 1e-21
DEBYE_TO_AU = 0.393456
K_DIPOLE = E_ANGSTROM_TO_DEBYE * DEBYE_TO_AU
# self-validation of the copied constants against CODATA (1 e*A = 1/0.529177210903 e*bohr); they agree to 7e-5
assert abs(K_DIPOLE * 0.529177210903 - 1.0) < 1e-4


def n_basis(z, nbf=4):
    """basis functions on an atom: H 1s; sp elements 4; with the 9-function layout (PM6) Al..Cl carry d functions"""
    if z == 0:
        return 0
    if z == 1:
        return 1
    if nbf == 9 and 13 <= z <= 17:
        return 9
    return 4


def orbital_index(species_row, nbf=4):
    """indices of the real basis functions inside the padded (nbf*molsize) orbital space"""
    idx = []
    for a, z in enumerate(species_row):
        idx.extend(range(nbf * a, nbf * a + n_basis(int(z), nbf)))
    return np.array(idx, dtype=int)


def total_density(dm_row):
    dm_row = np.asarray(dm_row)
    return dm_row[0] + dm_row[1] if dm_row.ndim == 3 else dm_row


def charges(dm_row, species_row, nbf=4):
    P = total_density(dm_row)
    n = len(species_row)
    pop = np.array([np.trace(P[nbf * a : nbf * a + nbf, nbf * a : nbf * a + nbf]) for a in range(n)])
    tore = np.array([T.TORE.get(int(z), 0) for z in species_row], float)
    return tore - pop


def dipole(method, species_row, coords_row, dm_row):
    """K * ( sum_A q_A r_A  -  2 sum_A D1_A a0 P_A[s, p_i] ), padding atoms ignored."""
    P = total_density(dm_row)
    q = charges(dm_row, species_row)
    d = np.zeros(3)
    for a, z in enumerate(species_row):
        if z == 0:
            continue
        d += q[a] * np.asarray(coords_row[a], float)
        if z > 2:
            dd = T.dd(method, int(z)) * A0_MOPAC
            for i in range(3):
                d[i] -= dd * (P[4 * a, 4 * a + 1 + i] + P[4 * a + 1 + i, 4 * a])
    return K_DIPOLE * d


def rebuild_fock(molecule, dm):
    """F(dm) and the symmetrised core Hamiltonian through the package's own hcore and fock routines."""
    import torch
    from seqm.seqm_functions.fock import fock
    from seqm.seqm_functions.fock_u_batch import fock_u_batch
    from seqm.seqm_functions.hcore import hcore

    with torch.no_grad():
        Mh, w = hcore(molecule)[:2]
        P = torch.as_tensor(np.asarray(dm))
        nmol, molsize = int(molecule.nmol), int(molecule.molsize)
        f = fock_u_batch if P.dim() == 4 else fock
        p = molecule.parameters
        W = torch.tensor([0])
        F = f(
            nmol, molsize, P, Mh, molecule.maskd, molecule.mask, molecule.idxi, molecule.idxj, w, W,
            p["g_ss"], p["g_pp"], p["g_sp"], p["g_p2"], p["h_sp"], molecule.method,
            p["s_orb_exp_tail"], p["p_orb_exp_tail"], p["d_orb_exp_tail"], molecule.Z, p["F0SD"], p["G2SD"],
        )  # fmt: skip
        Hc = Mh.reshape(nmol, molsize, molsize, 4, 4).transpose(2, 3).reshape(nmol, 4 * molsize, 4 * molsize)
        h = Hc.triu() + Hc.triu(1).transpose(1, 2)
    return F.numpy().copy(), h.numpy().copy()


def electronic_energy(dm_row, F_row, h_row):
    dm_row = np.asarray(dm_row)
    if dm_row.ndim == 3:
        return 0.5 * float(np.sum((dm_row[0] + dm_row[1]) * h_row + dm_row[0] * F_row[0] + dm_row[1] * F_row[1]))
    return 0.5 * float(np.sum(dm_row * (h_row + F_row)))


def identities(method, mol, obs, row, F=None, h=None, uhf=False, active=0, sp2_tol=None, nbf=4, has_dipole=True, exc_tol=1e-9,
               tracked=False):
    """Evaluate every identity for molecule `row` of a call.  mol: molecule dict (species, coords, charge, mult);
    obs: dict of numpy observations of the whole batch (padded).  Returns a list of (identity, error, tolerance)."""
    sp_row = list(mol["species"])
    natom_pad = obs["q"].shape[1]
    species_row = sp_row + [0] * (natom_pad - len(sp_row))
    out = []
    Etot, Eelec, Enuc = float(obs["Etot"][row]), float(obs["Eelec"][row]), float(obs["Enuc"][row])
    Eexc = 0.0
    if active:
        Eexc = float(obs["cis_energies"][row][active - 1])
    out.append(("Etot=Eelec+Enuc(+Eexc)", abs(Etot - (Eelec + Enuc + Eexc)), 1e-9 if not active else exc_tol))
    eiso_ref = T.eiso_sum(method, sp_row)
    out.append(("Eiso=sum(table)", abs(float(obs["Eiso"][row]) - eiso_ref), 1e-9 + 1e-12 * abs(eiso_ref)))
    hf_ref = Etot - eiso_ref + T.eheat_sum_ev(sp_row)
    out.append(("Hf=Etot-Eiso+eheat", abs(float(obs["Hf"][row]) - hf_ref), 1e-9))
    # orbitals
    idx = orbital_index(species_row, nbf)
    norb = len(idx)
    ne = int(round(sum(T.TORE[int(z)] for z in sp_row))) - int(mol.get("charge", 0))
    e = np.asarray(obs["e_mo"][row])
    dm = np.asarray(obs["dm"][row])
    if uhf:
        na = (ne + int(mol.get("mult", 1)) - 1) // 2
        occ = (na, ne - na)
        chans = [(e[s][:norb], occ[s], f"[{'ab'[s]}]") for s in (0, 1)]
        gap = np.asarray(obs["e_gap"][row]).reshape(-1)
    else:
        chans = [(e[:norb], ne // 2, "")]
        gap = np.asarray(obs["e_gap"][row]).reshape(-1)
    for s, (es, nocc, tag) in enumerate(chans):
        out.append((f"e_mo ascending{tag}", float(max(0.0, -(np.diff(es)).min())) if norb > 1 else 0.0, 1e-10))
        if tracked:
            # an object evaluated before: the ascending clause is reported as it is found; the other orbital identities
            # are evaluated on the ascending arrangement of the reported energies, so that they stay independent of it
            es = np.sort(es)
            chans[s] = (es, nocc, tag)
        if 0 < nocc < norb:
            out.append((f"gap=e[nocc]-e[nocc-1]{tag}", abs(float(gap[s]) - float(es[nocc] - es[nocc - 1])), 1e-9))
    if F is not None:
        Fr = np.asarray(F[row])
        Fs = [Fr[0], Fr[1]] if uhf else [Fr]
        for s, Fm in enumerate(Fs):
            sub = Fm[np.ix_(idx, idx)]
            ev = np.linalg.eigvalsh(0.5 * (sub + sub.T))
            out.append((f"e_mo=eig(F(dm)){chans[s][2]}", float(np.abs(ev - chans[s][0]).max()), 1e-7))
        out.append(("Eelec=tr P(H+F)/2", abs(Eelec - electronic_energy(dm, Fr, h[row])), 1e-8))
    # density and charges
    Pt = total_density(dm)
    out.append(("dm symmetric", float(np.abs(Pt - Pt.T).max()), 1e-10))
    q_ref = charges(dm, species_row, nbf)
    q = np.asarray(obs["q"][row])
    out.append(("q=tore-diag(dm)", float(np.abs(q - q_ref).max()), 1e-9))
    pad = np.array(species_row) == 0
    if pad.any():
        out.append(("q(padding)=0", float(np.abs(q[pad]).max()), 0.0))
    out.append(("sum q=charge", abs(float(q.sum()) - float(mol.get("charge", 0))), max(1e-8, 10 * (sp2_tol or 0.0))))
    if has_dipole and obs.get("dipole") is not None:
        coords_row = np.zeros((natom_pad, 3))
        coords_row[: len(sp_row)] = mol["coords"]
        d_ref = dipole(method, species_row, coords_row, dm)
        d = np.asarray(obs["dipole"][row])
        out.append(("dipole=charges+sp-hybrid", float(np.abs(d - d_ref).max()), 1e-9 * (1.0 + float(np.abs(d_ref).max()))))
    return out
