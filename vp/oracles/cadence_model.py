"""Reference model of the MD output streams (C11, C10).

A stream with cadence c > 0 over a run of `steps` steps holds the initial snapshot
(label 0) plus every step s in 1..steps with s % c == 0, in increasing order, labelled
with absolute step numbers.  c == 0 suppresses the stream (no group / no file).
The screen log prints the multiples only (the manual: "printed every N steps").
"""


def labels(c, steps, initial=True):
    if c <= 0:
        return None
    out = [0] if initial else []
    out += [s for s in range(1, steps + 1) if s % c == 0]
    return out


H5_VECTORS = ("coordinates", "velocities", "forces")


def expected_streams(cad, steps):
    """cad: dict with keys data, coordinates, velocities, forces, xyz, print.
    Returns dict stream -> list of labels or None (suppressed)."""
    exp = {k: labels(int(cad.get(k, 0)), steps) for k in ("data",) + H5_VECTORS}
    exp["xyz"] = labels(int(cad.get("xyz", 0)), steps)
    exp["print"] = labels(int(cad.get("print", 0)), steps, initial=False)
    exp["h5_file"] = any(exp[k] is not None for k in ("data",) + H5_VECTORS)
    return exp


def checkpoints(ck, steps):
    return [] if ck <= 0 else [s for s in range(1, steps + 1) if s % ck == 0]
