"""Dense reference model for singlet CIS / RPA (TDHF) in the NDDO approximation.

Plain numpy re-statement of the specification; nothing here calls the package's sigma build or its
Davidson code.  Inputs are *observations* of one converged SCF (numpy arrays): species row, the
orbital coefficients and orbital energies in the packed basis (4 functions s,px,py,pz per heavy
atom, then one s function per hydrogen), the two-centre integral blocks `w` (npairs,10,10) with
the pair list (idxi, idxj), and the five one-centre parameters per atom.

  (mu nu|la si) = 0 unless mu,nu on one atom A and la,si on one atom B            (NDDO)
  A == B :  (ss|ss)=g_ss (ss|pp)=g_sp (pp|pp)=g_pp (pp|p'p')=g_p2 (sp|sp)=h_sp (pp'|pp')=(g_pp-g_p2)/2
  A <  B :  w[pair(A,B), T(mu,nu), T(la,si)],  T = packed lower-triangle index
            (ss),(px s),(px px),(py s),(py px),(py py),(pz s),(pz px),(pz py),(pz pz)

  A_ia,jb = delta_ij delta_ab (e_a - e_i) + 2 (ia|jb) - (ij|ab)
  B_ia,jb = 2 (ia|jb) - (ib|ja)
  CIS:  A x = w x                  RPA:  (A-B)^1/2 (A+B) (A-B)^1/2 z = w^2 z

The AO tensor is validated by the caller against the package's own Fock matrix
(`fock_two_electron`):  F - Hcore = G[P],  G[P]_mn = sum_ls P_ls [ (mn|ls) - 1/2 (ml|ns) ].
"""
import numpy as np

TRI = np.array([[0, 1, 3, 6], [1, 2, 4, 7], [3, 4, 5, 8], [6, 7, 8, 9]])


def basis_of(species_row):
    """packed basis: list of (atom index in the row, l) with l in 0..3; heavy atoms first (the
    package requires species sorted non-increasing, hydrogens last, padding zeros after)."""
    bas = []
    for k, z in enumerate(species_row):
        if z > 1:
            bas += [(k, 0), (k, 1), (k, 2), (k, 3)]
    for k, z in enumerate(species_row):
        if z == 1:
            bas.append((k, 0))
    return bas


def unpacked_index(bas):
    """position of each packed basis function in the 4*molsize layout used by F, P, Hcore."""
    return np.array([4 * k + l for k, l in bas])


def one_centre_block(gss, gsp, gpp, gp2, hsp):
    g = np.zeros((4, 4, 4, 4))
    g[0, 0, 0, 0] = gss
    for p in (1, 2, 3):
        g[0, 0, p, p] = g[p, p, 0, 0] = gsp
        g[p, p, p, p] = gpp
        for a, b, c, d in ((0, p, 0, p), (0, p, p, 0), (p, 0, 0, p), (p, 0, p, 0)):
            g[a, b, c, d] = hsp
        for q in (1, 2, 3):
            if q != p:
                g[p, p, q, q] = gp2
                x = 0.5 * (gpp - gp2)
                g[p, q, p, q] = g[p, q, q, p] = x
    return g


def ao_eri(species_row, atom_params, pairs, w):
    """Full (norb,norb,norb,norb) NDDO tensor of one molecule in the packed basis.

    species_row : ints (padding zeros allowed)
    atom_params : dict name -> array over the REAL atoms of this molecule (row order)
    pairs       : list of (i, j, pair_index_into_w) with i<j positions among this molecule's real atoms
    w           : (npairs_total, 10, 10)
    """
    bas = basis_of(species_row)
    n = len(bas)
    real = [k for k, z in enumerate(species_row) if z > 0]
    pos = {k: r for r, k in enumerate(real)}  # row index -> real atom ordinal
    fun = {}  # real atom ordinal -> list of (packed index, l)
    for b, (k, l) in enumerate(bas):
        fun.setdefault(pos[k], []).append((b, l))
    G = np.zeros((n, n, n, n))
    for a, fl in fun.items():
        blk = one_centre_block(*(float(atom_params[nm][a]) for nm in ("g_ss", "g_sp", "g_pp", "g_p2", "h_sp")))
        for m, lm in fl:
            for nn, ln in fl:
                for la, ll in fl:
                    for s, ls in fl:
                        G[m, nn, la, s] = blk[lm, ln, ll, ls]
    for i, j, p in pairs:
        wi = w[p]
        for m, lm in fun[i]:
            for nn, ln in fun[i]:
                for la, ll in fun[j]:
                    for s, ls in fun[j]:
                        v = wi[TRI[lm, ln], TRI[ll, ls]]
                        G[m, nn, la, s] = v
                        G[la, s, m, nn] = v
    return G


def fock_two_electron(G, P):
    """closed-shell G[P] with P the total density in the packed basis (may be non-symmetric)."""
    return np.einsum("mnls,ls->mn", G, P) - 0.5 * np.einsum("mlns,ls->mn", G, P)


def dense_AB(G, C, e, nocc, occ=None, virt=None):
    """Dense singlet A and B in the (i,a) pair basis, pair index = i_local * nvirt + a_local."""
    norb = C.shape[1]
    occ = list(range(nocc)) if occ is None else list(occ)
    virt = list(range(nocc, norb)) if virt is None else list(virt)
    Co, Cv = C[:, occ], C[:, virt]
    no, nv = len(occ), len(virt)
    # (ia|jb)
    t = np.einsum("mnls,mi->inls", G, Co, optimize=True)
    t = np.einsum("inls,na->ials", t, Cv, optimize=True)
    iajb = np.einsum("ials,lj,sb->iajb", t, Co, Cv, optimize=True)
    # (ij|ab)
    t = np.einsum("mnls,mi,nj->ijls", G, Co, Co, optimize=True)
    ijab = np.einsum("ijls,la,sb->ijab", t, Cv, Cv, optimize=True)
    A = 2.0 * iajb - np.einsum("ijab->iajb", ijab)
    # (ib|ja) is the element [i,b,j,a] of the (ia|jb) tensor
    B = 2.0 * iajb - iajb.transpose(0, 3, 2, 1)
    d = (e[virt][None, :] - e[occ][:, None]).reshape(-1)
    A = A.reshape(no * nv, no * nv) + np.diag(d)
    B = B.reshape(no * nv, no * nv)
    return A, B, d


def cis_spectrum(A):
    w, X = np.linalg.eigh(0.5 * (A + A.T))
    return w, X


def rpa_spectrum(A, B):
    """ascending RPA excitation energies; raises if the reference is unstable."""
    amb = A - B
    apb = A + B
    s, U = np.linalg.eigh(0.5 * (amb + amb.T))
    if s.min() <= 0:
        raise ValueError(f"A-B not positive definite (min eig {s.min():.3e})")
    r = (U * np.sqrt(s)) @ U.T
    H = r @ (0.5 * (apb + apb.T)) @ r
    w2, Z = np.linalg.eigh(0.5 * (H + H.T))
    if w2.min() <= 0:
        raise ValueError(f"RPA stability matrix not positive definite (min w^2 {w2.min():.3e})")
    return np.sqrt(w2)


def match_lowest(returned, dense, tol):
    """`returned` (r values) must equal the r lowest dense eigenvalues, in order; returns max abs error.
    Degenerate clusters cut by r are fine (any member of the cluster has the same value)."""
    r = len(returned)
    return float(np.max(np.abs(np.asarray(returned) - np.asarray(dense[:r])))) if r else 0.0
