"""Independent copy of the dissipative XL-BOMD integration coefficients
(A. M. N. Niklasson et al., J. Chem. Phys. 130, 214109 (2009), Table I), and the reference
recurrence written as plain exact arithmetic on coefficient vectors.

    P(n+1) = 2 P(n) - P(n-1) + kappa' (D(n) - P(n)) + alpha * sum_{j=0..K} c_j P(n-j)

Structural identities every row must satisfy (checked by the C09 check so that a typo in this
copy cannot pass): sum_j c_j = 0 (a converged stationary density is a fixed point) and
sum_j j c_j = 0 (the dissipation term does not break time-reversal symmetry to first order).
"""
import numpy as np

TABLE = {
    # K: (kappa, alpha, [c_0 .. c_K])
    3: (1.69, 150e-3, [-2, 3, 0, -1]),
    4: (1.75, 57e-3, [-3, 6, -2, -2, 1]),
    5: (1.82, 18e-3, [-6, 14, -8, -3, 4, -1]),
    6: (1.84, 5.5e-3, [-14, 36, -27, -2, 12, -6, 1]),
    7: (1.86, 1.6e-3, [-36, 99, -88, 11, 32, -25, 8, -1]),
    8: (1.88, 0.44e-3, [-99, 286, -286, 78, 78, -90, 42, -10, 1]),
    9: (1.89, 0.12e-3, [-286, 858, -936, 364, 168, -300, 184, -63, 12, -1]),
}


def identities(K):
    _, _, c = TABLE[K]
    return sum(c), sum(j * cj for j, cj in enumerate(c))


def reference_sequence(K, kappa_eff, nsteps, ntags, mode="xl"):
    """Coefficient vectors of P(1..nsteps) over the tag basis
    [P(0)=D_init, X(0), X(1), ...] where X(n) is what the electronic structure returned at step n
    (mode "xl": the density D(n); mode "ksa": the kernel-weighted residual d2P/dt2(n)).
    The electronic-structure call at the END of integrator step n returns X(n+1); X(0) is the
    initial SCF density (= P(0)) resp. zero (KSA initialises d2P/dt2 = 0)."""
    _, alpha, c = TABLE[K]
    m = K + 1
    e = np.eye(ntags)
    P0 = e[0]
    hist = [P0.copy() for _ in range(m)]  # hist[j] = P(n-j)
    out = []
    for n in range(nsteps):
        Pn, Pn1 = hist[0], hist[1]
        if mode == "xl":
            X = e[0] if n == 0 else e[n]  # D(n): tag n for n >= 1 (tag index n), initial density for n = 0
            new = 2 * Pn - Pn1 + kappa_eff * (X - Pn)
        else:
            X = np.zeros(ntags) if n == 0 else e[n]
            new = 2 * Pn - Pn1 + kappa_eff * X
        new = new + alpha * sum(c[j] * hist[j] for j in range(m))
        hist = [new] + hist[:-1]
        out.append(new)
    return out


def companion_radius(K, resp):
    """spectral radius of the linearised recurrence x(n+1) = (2 - resp) x(n) - x(n-1) + alpha sum c_j x(n-j)
    where resp = kappa' (1 - gamma) is the effective response strength."""
    _, alpha, c = TABLE[K]
    return _radius(K, resp, alpha, c)


def _radius(K, resp, alpha, c):
    m = K + 1
    a = np.array([alpha * cj for cj in c], float)
    a[0] += 2 - resp
    a[1] -= 1
    A = np.zeros((m, m))
    A[0, :] = a
    for i in range(1, m):
        A[i, i - 1] = 1.0
    return float(np.max(np.abs(np.linalg.eigvals(A))))


def radius_from_coeffs(a_eff, resp_shift=0.0):
    """same, from effective coefficients a_j multiplying x(n-j) identified on the implementation
    at zero response; resp_shift is subtracted from a_0."""
    a = np.array(a_eff, float).copy()
    a[0] -= resp_shift
    m = len(a)
    A = np.zeros((m, m))
    A[0, :] = a
    for i in range(1, m):
        A[i, i - 1] = 1.0
    return float(np.max(np.abs(np.linalg.eigvals(A))))
