"""Self-consistency residuals of a returned SCF density, and the per-invocation iteration horizon.

Everything that decides is plain numpy on the *returned* `molecule.dm`; the only package code
reused is `hcore` + `fock` / `fock_u_batch` (to rebuild F(P) exactly as the package defines it)
-- the property is about the density being a fixed point of the package's own Fock map.

Orbital layout (read from seqm/seqm_functions/pack.py): a molecule row holds `molsize` atoms with
4 basis slots each; species are sorted non-increasing, so heavy atoms come first (4 real orbitals
each), then hydrogens (slot 0 of their block is the 1s orbital, slots 1-3 are empty), then padding
atoms (no orbital).  The real orbitals of molecule i are therefore
    [0 .. 4*nHeavy)  U  {4*nHeavy + 4*j : j < nHydro}.
"""
import os

import numpy as np

from ..budget import DEFAULT_TARGETS, Horizon, IterationHorizon, _loop_headers  # noqa: F401


class CallHorizon(Horizon):
    """vp.budget.Horizon with one counter set *per invocation* (frame) of a target function.

    A legitimate non-converging SCF executes the loop header of `SP2` (iterations per purification)
    x (SCF iterations) times in total, which is unbounded in the cap; what is bounded for a healthy
    solver is the count within ONE invocation: <= MAX_ITER+1 for scf_forwardN, a few dozen for SP2
    (quadratic convergence), 20 for the renormalisation loop of adaptive_mix.  `limit` applies per
    invocation; `total_limit` (optional) to the sum over the call.
    """

    def __init__(self, limit=3000, targets=None, total_limit=None, limits=None):
        super().__init__(limit, targets)
        self.total_limit = total_limit
        self.limits = dict(limits or {})  # function name -> per-invocation limit (default: limit)
        self.max_per_call = 0

    def _global(self, frame, event, arg):
        if event != "call":
            return None
        code = frame.f_code
        base = os.path.basename(code.co_filename)
        t = self.targets.get(base, False)
        if t is False:
            return None
        if t is not None and code.co_name not in t:
            return None
        heads = _loop_headers(code.co_filename)
        if not heads:
            return None
        key0 = (base, code.co_name)
        mine = {}
        lim = self.limits.get(code.co_name, self.limit)

        def local(frame, event, arg):
            if event == "line" and frame.f_lineno in heads:
                k = key0 + (frame.f_lineno,)
                n = mine.get(k, 0) + 1
                mine[k] = n
                tot = self.counts.get(k, 0) + 1
                self.counts[k] = tot
                if n > self.max_per_call:
                    self.max_per_call = n
                if n > lim or (self.total_limit is not None and tot > self.total_limit):
                    self.tripped = k
                    raise IterationHorizon(
                        f"loop header {k} executed {n} times in one invocation ({tot} in the call; horizon {lim})"
                    )
            return local

        return local


_TOP_CACHE = {}


def top_level_loops(filename, funcname):
    """line numbers of the loop headers of `funcname` that are not nested in another loop (its pass loops)"""
    import ast

    key = (filename, funcname)
    if key in _TOP_CACHE:
        return _TOP_CACHE[key]
    lines = set()
    with open(filename) as fh:
        tree = ast.parse(fh.read())

    def walk(stmts):
        for st in stmts:
            if isinstance(st, (ast.For, ast.While)):
                lines.add(st.lineno)
                continue  # do not descend: nested loops are not pass loops
            for field in ("body", "orelse", "finalbody", "handlers"):
                sub = getattr(st, field, None)
                if isinstance(sub, list):
                    walk([x for x in sub if isinstance(x, ast.AST)])

    for node in ast.walk(tree):
        if isinstance(node, ast.FunctionDef) and node.name == funcname:
            walk(node.body)
    _TOP_CACHE[key] = lines
    return lines


# ------------------------------------------------------------------ orbital bookkeeping


def real_orbitals(n_heavy, n_hydro):
    n_heavy = int(n_heavy)
    n_hydro = int(n_hydro)
    return np.array(list(range(4 * n_heavy)) + [4 * n_heavy + 4 * j for j in range(n_hydro)], dtype=np.int64)


def rebuild_fock(molecule, dm):
    """F(P), Hcore (symmetric) as numpy, rebuilt with the package's own hcore + fock from `dm`."""
    import torch
    from seqm.seqm_functions.fock import fock as fock_r
    from seqm.seqm_functions.fock_u_batch import fock_u_batch
    from seqm.seqm_functions.hcore import hcore

    with torch.no_grad():
        M, w = hcore(molecule)[:2]
        P = torch.as_tensor(dm, dtype=M.dtype).clone()
        nmol = int(molecule.nHeavy.shape[0])
        molsize = int(molecule.molsize)
        par = molecule.parameters
        fk = fock_u_batch if P.dim() == 4 else fock_r
        W = torch.tensor([0])
        F = fk(
            nmol, molsize, P, M, molecule.maskd, molecule.mask, molecule.idxi, molecule.idxj, w, W,
            par["g_ss"], par["g_pp"], par["g_sp"], par["g_p2"], par["h_sp"], molecule.method,
            par["s_orb_exp_tail"], par["p_orb_exp_tail"], par["d_orb_exp_tail"], molecule.Z, par["F0SD"], par["G2SD"],
        )  # fmt: skip
        H = M.reshape(nmol, molsize, molsize, 4, 4).transpose(2, 3).reshape(nmol, 4 * molsize, 4 * molsize)
        H = H.triu() + H.triu(1).transpose(1, 2)
    return F.numpy().copy(), H.numpy().copy()


def _aufbau(Fr, nocc, factor):
    e, C = np.linalg.eigh(Fr)
    D = factor * C[:, :nocc] @ C[:, :nocc].T
    gap = (e[nocc] - e[nocc - 1]) if 0 < nocc < len(e) else np.inf
    return D, e, gap


def residuals(molecule, dm, Eelec=None, q=None):
    """Per-molecule residual dict for the returned density `dm` (numpy, (nmol,n,n) or (nmol,2,n,n))."""
    dm = np.asarray(dm)
    F, H = rebuild_fock(molecule, dm)
    nH = molecule.nHeavy.numpy()
    nHy = molecule.nHydro.numpy()
    nocc = molecule.nocc.numpy()
    tore = molecule.const.tore.numpy()
    species = molecule.species.numpy()
    charge = molecule.tot_charge.numpy() if hasattr(molecule.tot_charge, "numpy") else np.zeros(len(nH))
    uhf = dm.ndim == 4
    out = []
    for i in range(dm.shape[0]):
        idx = real_orbitals(nH[i], nHy[i])
        n_el = float(tore[species[i]].sum() - charge[i])
        r = {"norb": int(len(idx)), "n_el": n_el, "npad": int(dm.shape[-1] // 4 - nH[i] - nHy[i])}
        Ps = [dm[i, 0], dm[i, 1]] if uhf else [dm[i]]
        Fs = [F[i, 0], F[i, 1]] if uhf else [F[i]]
        occs = [int(nocc[i, 0]), int(nocc[i, 1])] if uhf else [int(nocc[i])]
        factor = 1.0 if uhf else 2.0
        sym = leak = idem = pd = comm = 0.0
        gap = np.inf
        tr = 0.0
        for P, Fk, no in zip(Ps, Fs, occs):
            sym = max(sym, float(np.abs(P - P.T).max()))
            mask = np.ones(P.shape, bool)
            mask[np.ix_(idx, idx)] = False
            leak = max(leak, float(np.abs(P[mask]).max()) if mask.any() else 0.0)
            Pr = P[np.ix_(idx, idx)]
            Fr = Fk[np.ix_(idx, idx)]
            tr += float(np.trace(Pr))
            idem = max(idem, float(np.abs(Pr @ Pr - factor * Pr).max()))
            comm = max(comm, float(np.abs(Fr @ Pr - Pr @ Fr).max()))
            if no > 0:
                D, e, g = _aufbau(Fr, no, factor)
                gap = min(gap, float(g))
                pd = max(pd, float(np.abs(Pr - D).max()))
            else:
                pd = max(pd, float(np.abs(Pr).max()))
        Ptot = Ps[0] + Ps[1] if uhf else Ps[0]
        if uhf:
            ef = 0.5 * float((Ptot * H[i]).sum() + (Ps[0] * Fs[0]).sum() + (Ps[1] * Fs[1]).sum())
        else:
            ef = 0.5 * float((Ptot * (H[i] + Fs[0])).sum())
        r.update(sym=sym, leak=leak, trace=abs(tr - n_el), idem=idem, pd=pd, comm=comm, gap=gap, efunc=ef)
        r["finite"] = bool(np.isfinite(dm[i]).all() and np.isfinite(F[i]).all())
        if Eelec is not None:
            r["eelec"] = abs(float(Eelec[i]) - ef)
            r["eelec_ref"] = float(Eelec[i])
        if q is not None:
            nat = int(nH[i] + nHy[i])
            r["qsum"] = abs(float(np.sum(q[i][:nat])) - float(charge[i]))
            r["qpad"] = float(np.abs(q[i][nat:]).max()) if nat < len(q[i]) else 0.0
        out.append(r)
    return out


def perturbation(molecule, shape, amp=1e-2):
    """Fixed symmetric, traceful, non-idempotent matrix supported on the real orbitals of each molecule."""
    nH = molecule.nHeavy.numpy()
    nHy = molecule.nHydro.numpy()
    S = np.zeros(shape)
    for i in range(shape[0]):
        idx = real_orbitals(nH[i], nHy[i])
        a = np.arange(len(idx), dtype=float)
        B = np.cos(1.3 * a[:, None] + 0.7 * a[None, :] + 0.4 * i)
        B = 0.5 * (B + B.T)
        B *= amp / np.abs(B).max()
        if len(shape) == 4:
            S[i, 0][np.ix_(idx, idx)] = B
            S[i, 1][np.ix_(idx, idx)] = -0.5 * B.T[::-1, ::-1]
            S[i, 1] = 0.5 * (S[i, 1] + S[i, 1].T)
        else:
            S[i][np.ix_(idx, idx)] = B
    return S
