"""Unit-constant oracle for the MD module (C08; C12 and C13 use k_B from here).

The package works in  Angstrom / femtosecond / (g/mol = u) / eV / K.  The four conversion factors
`seqm.MolecularDynamics.PhysicalConstants` carries are fully determined by three SI constants:

    e   elementary charge      1.602 176 634 e-19  C      (exact since the 2019 SI)
    k   Boltzmann constant     1.380 649     e-23  J/K    (exact since the 2019 SI)
    u   atomic mass constant   1.660 539 066 60 e-27 kg   (CODATA 2018, rel. unc. 3.0e-10)

    ACC_SCALE            (eV/A)/u   -> A/fs^2 :  e/u * 1e10   [m/s^2]  * 1e-20 [A/fs^2 per m/s^2]
    KINETIC_ENERGY_SCALE u (A/fs)^2 -> eV     :  u * 1e10 / e
    TEMPERATURE_SCALE    K per eV             :  e / k
    VEL_SCALE            sqrt(K/u)  -> A/fs   :  sqrt(k/u) * 1e-5

Two dimensionless identities follow and must hold to round-off whatever CODATA edition was used,
because the same quantity is converted along two routes inside the integrator / thermostat /
thermometer:

    ACC_SCALE * KINETIC_ENERGY_SCALE                     = 1   (work done by the force = kinetic energy gained)
    VEL_SCALE^2 * TEMPERATURE_SCALE * KINETIC_ENERGY_SCALE = 1 (the k_B of the velocity draw / Langevin noise
                                                                = the k_B of the temperature read-out)

Measured on the pinned tree: identities hold to 2e-16 and 4e-16; the values are within 4.3e-8
(ACC, KE: the package carries the CODATA-2010 elementary charge 1.602176565e-19) and 1.3e-10 of CODATA 2018.
"""
import math

E_CHARGE = 1.602176634e-19  # C, exact
K_BOLTZMANN = 1.380649e-23  # J/K, exact
AMU = 1.66053906660e-27  # kg, CODATA 2018

CODATA2018 = {
    "ACC_SCALE": E_CHARGE / AMU * 1.0e10 * 1.0e-20,
    "KINETIC_ENERGY_SCALE": AMU * 1.0e10 / E_CHARGE,
    "TEMPERATURE_SCALE": E_CHARGE / K_BOLTZMANN,
    "VEL_SCALE": math.sqrt(K_BOLTZMANN / AMU) * 1.0e-5,
}

IDENTITY_TOL = 1.0e-14  # round-off of a handful of float64 operations, measured 2e-16 / 4e-16
CODATA_TOL = 1.0e-6  # relative; CODATA editions since 1998 differ by < 1e-7 in these combinations


def identities(c):
    """the two dimensionless identities, as (name, value-1) pairs; `c` has the four attributes"""
    return [
        ("ACC_SCALE*KINETIC_ENERGY_SCALE", c.ACC_SCALE * c.KINETIC_ENERGY_SCALE - 1.0),
        ("VEL_SCALE^2*TEMPERATURE_SCALE*KINETIC_ENERGY_SCALE", c.VEL_SCALE**2 * c.TEMPERATURE_SCALE * c.KINETIC_ENERGY_SCALE - 1.0),
    ]


def deviations(c):
    """relative deviation of each constant from its CODATA-2018 value"""
    return [(k, getattr(c, k) / v - 1.0) for k, v in CODATA2018.items()]


def check(c):
    """list of problem strings (empty = consistent)"""
    prob = []
    for name, d in identities(c):
        if not abs(d) <= IDENTITY_TOL:
            prob.append(f"identity {name} = 1 violated by {d:.3e} (tolerance {IDENTITY_TOL:g})")
    for name, d in deviations(c):
        if not abs(d) <= CODATA_TOL:
            prob.append(f"{name} = {getattr(c, name)!r} deviates from CODATA 2018 by {d:.3e} relative (tolerance {CODATA_TOL:g})")
    return prob


def k_boltzmann_package(c):
    """k_B in u A^2 fs^-2 K^-1 as implied by the package's temperature read-out
    T = Ek[eV] * TEMPERATURE_SCALE / (n_dof/2),  Ek[eV] = 1/2 m v^2 * KINETIC_ENERGY_SCALE"""
    return 1.0 / (c.TEMPERATURE_SCALE * c.KINETIC_ENERGY_SCALE)
