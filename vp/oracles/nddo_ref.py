"""Independent scalar reference model of the published NDDO methods MNDO / AM1 / PM3.

Plain Python + numpy + scipy.  No torch, no batching, no packed storage, own CSV reader,
own physical constants and element tables.  Nothing here is transcribed from the package:

* Slater overlaps ........ numerical quadrature in prolate spheroidal coordinates
                           (Gauss-Laguerre in xi, Gauss-Legendre in eta, phi analytic);
* D1, D2 ................. from the radial moments <ns|r|np>/sqrt(3), sqrt(<np|r^2|np>/5)
                           (Dewar & Thiel, Theor. Chim. Acta 46 (1977) 89);
* rho0, rho1, rho2 ....... rho0 = 1/(2 g_ss); rho1, rho2 by *bracketing* root solves (brentq) of
                           the one-centre conditions  [mu,mu](R=0) = h_sp,  [Q_xy,Q_xy](R=0) = h_pp,
                           evaluated with the same point-charge routine as the two-centre terms;
* two-centre ERIs ........ explicit point-charge configurations of the Dewar-Thiel multipoles with
                           Klopman-Ohno damping, full 4x4x4x4 local tensor, one convention applied:
                           (p_pi p_pi'|p_pi p_pi') = 1/2[(p_pi p_pi|p_pi p_pi) - (p_pi p_pi|p_pi' p_pi')];
* rotation ............... generic 4-index transformation with an own local frame
                           (e_z from A to B; e_x, e_y by Gram-Schmidt from a fixed generic vector);
* core-electron attraction, beta-overlap resonance integrals, one-centre two-electron tensor from
  g_ss, g_sp, g_pp, g_p2, h_sp (and h_pp = (g_pp-g_p2)/2), core-core repulsion (MNDO form,
  N-H / O-H special form, AM1 / PM3 Gaussian terms), isolated-atom energies from occupation
  numbers, heat of formation, RHF and UHF Fock matrices by dense J/K contraction, damped SCF.

Units: eV and bohr inside; Angstrom at the interface.  1 hartree = 27.21 eV, a0 = 0.529167 A,
1 eV = 23.061 kcal/mol — the values of the MOPAC parameterisations (the parameters were fitted
with them, so they are part of the published model, not of the implementation under test).

MOPAC conventions that are *mirrored* on purpose (documented, not defects):
  * h_pp entering the rho2 condition is floored at 0.1 eV (MOPAC calpar.f: HPP = MAX(0.1, HPP));
    the one-centre Fock terms use the unfloored (g_pp - g_p2)/2.
  * PM3 uses two Gaussians per element, AM1 up to four.
  * optional (`mopac_series=True`, used by Model for the resonance integrals): MOPAC's overlap routine
    truncates the power series of its B auxiliary integrals after order 6 when
    1e-6 < |R (zeta_a - zeta_b)/2| <= 0.5.  The reference reproduces the *effect* inside its own quadrature
    (exp(-beta*eta) -> 6th-order Taylor polynomial); the exact overlaps are always computed too, and the
    difference (<= 2.5e-7 on an overlap on the C06 lattice) is reported by the check as a documented approximation.
Deviation that is *not* mirrored: MOPAC and the package stop the secant iteration for rho1 / rho2
after 5 steps; the reference solves the condition to machine precision.  `secant5_rho()` evaluates
how far a 5-step secant lands from the root so that the check can derive its tolerance.
"""
import csv
import math
import os

import numpy as np
from scipy.optimize import brentq

EV = 27.21
A0 = 0.529167
KCAL_PER_EV = 23.061

# ---------------------------------------------------------------------------- element tables
SYMBOL = {1: "H", 3: "Li", 4: "Be", 5: "B", 6: "C", 7: "N", 8: "O", 9: "F", 11: "Na", 12: "Mg", 13: "Al", 14: "Si", 15: "P", 16: "S", 17: "Cl"}
# ground-state valence configuration (n_s, n_p) and principal quantum number
CONFIG = {
    1: (1, 0), 3: (1, 0), 4: (2, 0), 5: (2, 1), 6: (2, 2), 7: (2, 3), 8: (2, 4), 9: (2, 5),
    11: (1, 0), 12: (2, 0), 13: (2, 1), 14: (2, 2), 15: (2, 3), 16: (2, 4), 17: (2, 5),
}  # fmt: skip
NQ = {Z: (1 if Z <= 2 else 2 if Z <= 10 else 3) for Z in CONFIG}
# experimental heats of formation of the gaseous atoms, kcal/mol (MOPAC manual)
EHEAT_KCAL = {
    1: 52.102, 3: 38.410, 4: 76.960, 5: 135.700, 6: 170.890, 7: 113.000, 8: 59.559, 9: 18.890,
    11: 25.850, 12: 35.000, 13: 79.490, 14: 108.390, 15: 75.570, 16: 66.400, 17: 28.990,
}  # fmt: skip


def core_charge(Z):
    ns, npp = CONFIG[Z]
    return ns + npp


def norb(Z):
    return 1 if Z == 1 else 4


# ---------------------------------------------------------------------------- parameters
_TABLES = {}


def table_path(method, repo=None):
    repo = repo or os.environ.get("VP_REPO", "/repo")
    return os.path.join(repo, "seqm", "params", f"parameters_{method}_MOPAC.csv")


def load_table(method, repo=None):
    key = (method, repo or os.environ.get("VP_REPO", "/repo"))
    if key in _TABLES:
        return _TABLES[key]
    out = {}
    with open(table_path(method, repo), newline="") as fh:
        rd = csv.reader(fh)
        header = [h.strip() for h in next(rd)]
        for row in rd:
            if not row or not row[0].strip():
                continue
            cells = [c.strip() for c in row]
            Z = int(cells[0])
            if Z not in CONFIG:  # only H..Cl with an s/sp shell are in scope (the PM3 Ti row is malformed)
                continue
            rec = {}
            for h, c in zip(header[2:], cells[2:]):
                rec[h] = float(c)
            out[Z] = rec
    _TABLES[key] = out
    return out


NGAUSS = {"MNDO": 0, "AM1": 4, "PM3": 2}


class Atom:
    """derived one-centre quantities of an element in a method (all lengths in bohr, energies eV)."""

    def __init__(self, method, Z, repo=None):
        p = load_table(method, repo)[Z]
        self.method, self.Z = method, Z
        self.p = p
        self.n = NQ[Z]
        self.core = core_charge(Z)
        self.nao = norb(Z)
        self.uss, self.upp = p["U_ss"], p["U_pp"]
        self.zs, self.zp = p["zeta_s"], p["zeta_p"]
        self.bs, self.bp = p["beta_s"], p["beta_p"]
        self.gss, self.gsp, self.gpp, self.gp2, self.hsp = p["g_ss"], p["g_sp"], p["g_pp"], p["g_p2"], p["h_sp"]
        self.alpha = p["alpha"]
        self.gauss = []
        for k in range(1, NGAUSS[method] + 1):
            K, L, Mm = p.get(f"Gaussian{k}_K", 0.0), p.get(f"Gaussian{k}_L", 0.0), p.get(f"Gaussian{k}_M", 0.0)
            if K != 0.0:
                self.gauss.append((K, L, Mm))
        self.rho0 = 0.5 * EV / self.gss
        self.D1 = self.D2 = self.rho1 = self.rho2 = 0.0
        self.hpp_raw = 0.5 * (self.gpp - self.gp2)
        self.hpp = max(0.1, self.hpp_raw)  # MOPAC floor, used for rho2 only
        if self.nao == 4:
            n = self.n
            # <ns| r |np> and <np| r^2 |np> of normalised Slater radial functions
            ns_ = (2 * self.zs) ** (n + 0.5) / math.sqrt(math.factorial(2 * n))
            np_ = (2 * self.zp) ** (n + 0.5) / math.sqrt(math.factorial(2 * n))
            r_sp = ns_ * np_ * math.factorial(2 * n + 1) / (self.zs + self.zp) ** (2 * n + 2)
            r2_pp = np_ * np_ * math.factorial(2 * n + 2) / (2 * self.zp) ** (2 * n + 3)
            self.D1 = r_sp / math.sqrt(3.0)
            self.D2 = math.sqrt(r2_pp / 5.0)
            self.rho1 = _solve_additive(lambda rho: _self_energy(_dipole(self.D1, 2, rho)), self.hsp)
            self.rho2 = _solve_additive(lambda rho: _self_energy(_square(self.D2, 0, 1, rho)), self.hpp)

    # charge configuration of the orbital product (mu nu| on this atom, in a frame whose axes are 0,1,2
    def product(self, mu, nu):
        if mu > nu:
            mu, nu = nu, mu
        if mu == 0 and nu == 0:
            return [(1.0, (0.0, 0.0, 0.0), self.rho0)]
        if mu == 0:
            return _dipole(self.D1, nu - 1, self.rho1)
        if mu == nu:
            return [(1.0, (0.0, 0.0, 0.0), self.rho0)] + _linear(self.D2, mu - 1, self.rho2)
        return _square(self.D2, mu - 1, nu - 1, self.rho2)

    def one_centre_tensor(self):
        """(mu nu|la si) on one atom from g_ss, g_sp, g_pp, g_p2, h_sp (h_pp unfloored)."""
        n = self.nao
        g = np.zeros((n, n, n, n))
        g[0, 0, 0, 0] = self.gss
        if n == 1:
            return g
        hpp = 0.5 * (self.gpp - self.gp2)
        for a in (1, 2, 3):
            g[0, 0, a, a] = g[a, a, 0, 0] = self.gsp
            g[0, a, 0, a] = g[a, 0, a, 0] = g[0, a, a, 0] = g[a, 0, 0, a] = self.hsp
            g[a, a, a, a] = self.gpp
            for b in (1, 2, 3):
                if b != a:
                    g[a, a, b, b] = self.gp2
                    g[a, b, a, b] = g[a, b, b, a] = hpp
        return g

    def eisol(self):
        """energy of the isolated atom from its occupation numbers (restricted, averaged p shell)."""
        ns, k = CONFIG[self.Z]
        l = min(k, 6 - k)
        c_gss = max(ns - 1, 0)
        c_gsp = ns * k
        c_gp2 = k * (k - 1) / 2.0 + 0.5 * l * (l - 1) / 2.0
        c_gpp = -0.5 * l * (l - 1) / 2.0
        c_hsp = -0.5 * ns * k  # ns*k s-p pairs, each (g_sp - h_sp/2)
        return (
            ns * self.uss + k * self.upp + c_gss * self.gss + c_gsp * self.gsp + c_gp2 * self.gp2 + c_gpp * self.gpp + c_hsp * self.hsp
        )


def _unit(ax):
    v = [0.0, 0.0, 0.0]
    v[ax] = 1.0
    return v


def _dipole(D, ax, rho):
    e = _unit(ax)
    return [(0.5, tuple(D * c for c in e), rho), (-0.5, tuple(-D * c for c in e), rho)]


def _linear(D2, ax, rho):
    e = _unit(ax)
    return [
        (0.25, tuple(2 * D2 * c for c in e), rho),
        (0.25, tuple(-2 * D2 * c for c in e), rho),
        (-0.5, (0.0, 0.0, 0.0), rho),
    ]


def _square(D2, a, b, rho):
    ea, eb = _unit(a), _unit(b)
    pp = tuple(D2 * (x + y) for x, y in zip(ea, eb))
    pm = tuple(D2 * (x - y) for x, y in zip(ea, eb))
    return [
        (0.25, pp, rho),
        (0.25, tuple(-c for c in pp), rho),
        (-0.25, pm, rho),
        (-0.25, tuple(-c for c in pm), rho),
    ]


def interaction(ca, cb, shift):
    """Klopman-Ohno interaction (eV) of two point-charge configurations; cb is displaced by `shift`."""
    e = 0.0
    for qa, ra, rhoa in ca:
        for qb, rb, rhob in cb:
            dx = ra[0] - rb[0] - shift[0]
            dy = ra[1] - rb[1] - shift[1]
            dz = ra[2] - rb[2] - shift[2]
            e += qa * qb / math.sqrt(dx * dx + dy * dy + dz * dz + (rhoa + rhob) ** 2)
    return EV * e


def _self_energy(cfg):
    return interaction(cfg, cfg, (0.0, 0.0, 0.0))


def _solve_additive(fun, target):
    """rho with fun(rho) = target; fun decreases monotonically from +inf to 0 on (0, inf)."""
    if target <= 0.0:
        raise ValueError("one-centre condition has no root for a non-positive integral")
    lo, hi = 1e-3, 1.0
    while fun(lo) < target:
        lo *= 0.1
        if lo < 1e-12:
            raise ValueError("no bracket (lo)")
    while fun(hi) > target:
        hi *= 2.0
        if hi > 1e9:
            raise ValueError("no bracket (hi)")
    return brentq(lambda r: fun(r) - target, lo, hi, xtol=1e-15, rtol=8.9e-16, maxiter=500)


def secant5_rho(kind, D, target_ev, steps=5):
    """What a `steps`-step secant iteration in the variable 1/(2 rho) (the scheme of MOPAC's calpar) returns.
    Used only to *derive the tolerance* of the comparison, never as the reference value."""
    t = target_ev / EV
    if kind == 1:
        f = lambda d: 0.5 * d - 0.5 / math.sqrt(4.0 * D * D + 1.0 / (d * d))  # noqa: E731
        d1 = (abs(t) / D**2) ** (1.0 / 3.0)
    else:
        f = lambda q: 0.25 * q - 0.5 / math.sqrt(4.0 * D * D + 1.0 / (q * q)) + 0.25 / math.sqrt(8.0 * D * D + 1.0 / (q * q))  # noqa: E731
        d1 = (abs(t) / 3.0 / D**4) ** 0.2
    d2 = d1 + 0.04
    for _ in range(steps):
        h1, h2 = f(d1), f(d2)
        d3 = d1 + (d2 - d1) * (t - h1) / (h2 - h1) if abs(h2 - h1) > 1e-16 else d2
        d1, d2 = d2, d3
    return 0.5 / d2


# ---------------------------------------------------------------------------- overlaps
_LAG = np.polynomial.laguerre.laggauss(24)
_LEG = np.polynomial.legendre.leggauss(160)


def _sto_norm(n, z):
    return (2.0 * z) ** (n + 0.5) / math.sqrt(math.factorial(2 * n))


BSERIES_LO, BSERIES_HI, BSERIES_ORDER = 1.0e-6, 0.5, 6


def overlap_local(A, B, R, mopac_series=False):
    """overlap integrals of the valence STOs of A (at the origin) and B (at +R e_z), both sets of p
    orbitals along the *same* axes; returns an (nao_A, nao_B) matrix in the order s, px, py, pz.

    mopac_series=True reproduces, inside this quadrature, the one documented approximation of MOPAC's
    overlap algorithm (routine BINTGS, LAST=6): for 1e-6 < |beta| <= 0.5, beta = R (zeta_a - zeta_b)/2,
    the factor exp(-beta*eta) of the integrand is replaced by its Taylor polynomial of order 6.  The
    effect is <= 1.3e-7 on an overlap; both values are kept so that the check can report it."""
    S = np.zeros((A.nao, B.nao))
    h = 0.5 * R
    t, wt = _LAG
    eta, we = _LEG
    ETA = eta[None, :]
    WE = we[None, :]

    def quad(za, zb, poly):
        a = h * (za + zb)
        b = h * (za - zb)
        xi = 1.0 + t / a  # Gauss-Laguerre on xi-1 (exact: the integrand is polynomial x exponential in xi)
        XI = xi[:, None]
        ra = h * (XI + ETA)
        rb = h * (XI - ETA)
        zA = h * (1.0 + XI * ETA)
        zB = h * (XI * ETA - 1.0)
        rho2 = h * h * (XI * XI - 1.0) * (1.0 - ETA * ETA)
        if mopac_series and BSERIES_LO < abs(b) <= BSERIES_HI:
            x = -b * ETA
            ser = sum(x**m / math.factorial(m) for m in range(BSERIES_ORDER + 1))
            ebe = math.exp(-a) * ser
        else:
            ebe = np.exp(-a - b * ETA)
        f = poly(ra, rb, zA, zB, rho2) * (XI * XI - ETA * ETA) * ebe
        return h**3 * float(np.sum(f * (wt[:, None] / a) * WE))

    na, nb = A.n, B.n
    c_s = 1.0 / math.sqrt(4 * math.pi)
    c_p = math.sqrt(3.0 / (4 * math.pi))
    Ns_a, Ns_b = _sto_norm(na, A.zs), _sto_norm(nb, B.zs)
    S[0, 0] = Ns_a * Ns_b * c_s * c_s * 2 * math.pi * quad(A.zs, B.zs, lambda ra, rb, zA, zB, r2: ra ** (na - 1) * rb ** (nb - 1))
    if A.nao == 4:
        Np_a = _sto_norm(na, A.zp)
        S[3, 0] = Np_a * Ns_b * c_p * c_s * 2 * math.pi * quad(A.zp, B.zs, lambda ra, rb, zA, zB, r2: ra ** (na - 2) * zA * rb ** (nb - 1))
    if B.nao == 4:
        Np_b = _sto_norm(nb, B.zp)
        S[0, 3] = Ns_a * Np_b * c_s * c_p * 2 * math.pi * quad(A.zs, B.zp, lambda ra, rb, zA, zB, r2: ra ** (na - 1) * rb ** (nb - 2) * zB)
    if A.nao == 4 and B.nao == 4:
        S[3, 3] = Np_a * Np_b * c_p * c_p * 2 * math.pi * quad(A.zp, B.zp, lambda ra, rb, zA, zB, r2: ra ** (na - 2) * zA * rb ** (nb - 2) * zB)
        pipi = Np_a * Np_b * c_p * c_p * math.pi * quad(A.zp, B.zp, lambda ra, rb, zA, zB, r2: ra ** (na - 2) * rb ** (nb - 2) * r2)
        S[1, 1] = S[2, 2] = pipi
    return S


# ---------------------------------------------------------------------------- two-centre integrals
def eri_local(A, B, R):
    """(mu nu|la si), mu nu on A at the origin, la si on B at +R e_z, common axes (x,y,z) = (0,1,2)."""
    W = np.zeros((A.nao, A.nao, B.nao, B.nao))
    shift = (0.0, 0.0, R)
    for m in range(A.nao):
        for n in range(m, A.nao):
            ca = A.product(m, n)
            for l in range(B.nao):
                for s in range(l, B.nao):
                    v = interaction(ca, B.product(l, s), shift)
                    W[m, n, l, s] = W[n, m, l, s] = W[m, n, s, l] = W[n, m, s, l] = v
    if A.nao == 4 and B.nao == 4:
        # published convention that keeps the integrals invariant to rotations about the bond
        v = 0.5 * (W[1, 1, 1, 1] - W[1, 1, 2, 2])
        for (m, n) in ((1, 2), (2, 1)):
            for (l, s) in ((1, 2), (2, 1)):
                W[m, n, l, s] = v
    return W


LOCAL22 = [
    # name, (mu,nu | la,si) in the reference frame; sigma = z (from A towards B), pi = x, pi' = y
    ("ss|ss", (0, 0, 0, 0)), ("so|ss", (0, 3, 0, 0)), ("oo|ss", (3, 3, 0, 0)), ("pp|ss", (1, 1, 0, 0)),
    ("ss|os", (0, 0, 3, 0)), ("so|so", (0, 3, 0, 3)), ("sp|sp", (0, 1, 0, 1)), ("oo|so", (3, 3, 0, 3)),
    ("pp|so", (1, 1, 0, 3)), ("po|sp", (1, 3, 0, 1)), ("ss|oo", (0, 0, 3, 3)), ("ss|pp", (0, 0, 1, 1)),
    ("so|oo", (0, 3, 3, 3)), ("so|pp", (0, 3, 1, 1)), ("sp|op", (0, 1, 3, 1)), ("oo|oo", (3, 3, 3, 3)),
    ("pp|oo", (1, 1, 3, 3)), ("oo|pp", (3, 3, 1, 1)), ("pp|pp", (1, 1, 1, 1)), ("po|po", (1, 3, 1, 3)),
    ("pp|p*p*", (1, 1, 2, 2)), ("p*p|p*p", (2, 1, 2, 1)),
]  # fmt: skip


def local_frame(d):
    """orthonormal right-handed frame (e_x, e_y, e_z) with e_z = d/|d|; columns of the returned matrix."""
    ez = np.asarray(d, float)
    ez = ez / np.linalg.norm(ez)
    g = np.array([0.5773, -0.211, 0.7888])  # fixed generic vector, never parallel to a lattice direction
    if abs(g @ ez) / np.linalg.norm(g) > 0.95:
        g = np.array([-0.3, 0.9, 0.31])
    ex = g - (g @ ez) * ez
    ex /= np.linalg.norm(ex)
    ey = np.cross(ez, ex)
    return np.stack([ex, ey, ez], axis=1)


def _orbital_transform(nao, E):
    T = np.zeros((nao, nao))
    T[0, 0] = 1.0
    if nao == 4:
        T[1:, 1:] = E
    return T


def rotate2(S_loc, A, B, E):
    TA, TB = _orbital_transform(A.nao, E), _orbital_transform(B.nao, E)
    return TA @ S_loc @ TB.T


def rotate4(W_loc, A, B, E):
    TA, TB = _orbital_transform(A.nao, E), _orbital_transform(B.nao, E)
    return np.einsum("ai,bj,ck,dl,ijkl->abcd", TA, TA, TB, TB, W_loc, optimize=True)


# ---------------------------------------------------------------------------- pair quantities
class PairLocal:
    """everything of a pair that depends on (method, ZA, ZB, R) only."""

    def __init__(self, A, B, R_ang):
        self.A, self.B = A, B
        self.R_ang = R_ang
        self.R = R_ang / A0
        self.S = overlap_local(A, B, self.R)
        self.S_mopac = overlap_local(A, B, self.R, mopac_series=True)
        self.W = eri_local(A, B, self.R)
        self.enuc = core_core(A, B, R_ang, self.W[0, 0, 0, 0])


def core_core(A, B, R_ang, gam):
    """core-core repulsion (eV) of the pair; gam = (s_A s_A|s_B s_B)."""
    za, zb = A.core, B.core
    fa = math.exp(-A.alpha * R_ang)
    fb = math.exp(-B.alpha * R_ang)
    # N-H and O-H pairs: the heavy-atom term carries a factor R (Dewar & Thiel 1977)
    if A.Z in (7, 8) and B.Z == 1:
        fa *= R_ang
    if B.Z in (7, 8) and A.Z == 1:
        fb *= R_ang
    e = za * zb * gam * (1.0 + fa + fb)
    if A.method in ("AM1", "PM3"):
        g = 0.0
        for X in (A, B):
            for K, L, Mm in X.gauss:
                g += K * math.exp(-L * (R_ang - Mm) ** 2)
        e += za * zb / R_ang * g
    return e


# ---------------------------------------------------------------------------- molecules
class Model:
    """NDDO model of one molecule: basis, H_core, full ERI tensor, core repulsion."""

    def __init__(self, method, species, coords, repo=None, atom_cache=None, pair_cache=None, mopac_series=True):
        """mopac_series: build the resonance integrals from the overlaps that carry MOPAC's documented
        B-integral truncation (see overlap_local); the exact overlaps are kept in pairs[..]["S_exact"]."""
        self.method = method
        self.species = [int(z) for z in species]
        self.xyz = np.asarray(coords, float)
        cache = atom_cache if atom_cache is not None else {}
        self.atoms = []
        for Z in self.species:
            if (method, Z) not in cache:
                cache[(method, Z)] = Atom(method, Z, repo)
            self.atoms.append(cache[(method, Z)])
        self.off = np.cumsum([0] + [a.nao for a in self.atoms])
        self.nbas = int(self.off[-1])
        n = self.nbas
        self.H = np.zeros((n, n))
        self.S = np.eye(n)
        self.eri = np.zeros((n, n, n, n))
        self.enuc_pairs = {}
        self.pairs = {}
        for i, a in enumerate(self.atoms):
            o = self.off[i]
            self.H[o, o] = a.uss
            for k in range(1, a.nao):
                self.H[o + k, o + k] = a.upp
            self.eri[o : o + a.nao, o : o + a.nao, o : o + a.nao, o : o + a.nao] = a.one_centre_tensor()
        for i in range(len(self.atoms)):
            for j in range(i + 1, len(self.atoms)):
                A, B = self.atoms[i], self.atoms[j]
                d = self.xyz[j] - self.xyz[i]
                R_ang = float(np.linalg.norm(d))
                key = (method, A.Z, B.Z, round(R_ang, 12))
                if pair_cache is not None and key in pair_cache:
                    pl = pair_cache[key]
                else:
                    pl = PairLocal(A, B, R_ang)
                    if pair_cache is not None:
                        pair_cache[key] = pl
                E = local_frame(d)
                S_exact = rotate2(pl.S, A, B, E)
                S = rotate2(pl.S_mopac, A, B, E) if mopac_series else S_exact
                W = rotate4(pl.W, A, B, E)
                self.pairs[(i, j)] = dict(S=S, S_exact=S_exact, W=W, local=pl, E=E)
                oi, oj = self.off[i], self.off[j]
                si, sj = slice(oi, oi + A.nao), slice(oj, oj + B.nao)
                self.S[si, sj] = S
                self.S[sj, si] = S.T
                beta_a = np.array([A.bs] + [A.bp] * (A.nao - 1))
                beta_b = np.array([B.bs] + [B.bp] * (B.nao - 1))
                hab = 0.5 * (beta_a[:, None] + beta_b[None, :]) * S
                self.H[si, sj] = hab
                self.H[sj, si] = hab.T
                self.eri[si, si, sj, sj] = W
                self.eri[sj, sj, si, si] = W.transpose(2, 3, 0, 1)
                # core-electron attraction
                self.H[si, si] -= B.core * W[:, :, 0, 0]
                self.H[sj, sj] -= A.core * W[0, 0, :, :]
                self.enuc_pairs[(i, j)] = pl.enuc
        self.enuc = sum(self.enuc_pairs.values())

    # -- Fock builds ------------------------------------------------------------------------
    def JK(self, P):
        """Coulomb and exchange matrices  J_mn = sum_ls (mn|ls) P_ls,  K_mn = sum_ls (ml|ns) P_ls  for one
        matrix (n, n) or a stack (..., n, n) of general (not necessarily symmetric) matrices."""
        n = self.nbas
        if not hasattr(self, "_Jm"):
            self._Jm = self.eri.reshape(n * n, n * n)
            self._Km = np.ascontiguousarray(self.eri.transpose(0, 2, 1, 3)).reshape(n * n, n * n)
        P = np.asarray(P, float)
        Pf = P.reshape(-1, n * n)
        J = (Pf @ self._Jm.T).reshape(P.shape)
        K = (Pf @ self._Km.T).reshape(P.shape)
        return J, K

    def G_closed(self, P):
        """two-electron part for a closed-shell total density P (linear in P)."""
        J, K = self.JK(P)
        return J - 0.5 * K

    def fock_closed(self, P):
        return self.H + self.G_closed(P)

    def fock_open(self, Pa, Pb):
        J, _ = self.JK(np.asarray(Pa) + np.asarray(Pb))
        _, Ka = self.JK(Pa)
        _, Kb = self.JK(Pb)
        return self.H + J - Ka, self.H + J - Kb

    def eelec_closed(self, P):
        return 0.5 * float(np.sum(P * (self.H + self.fock_closed(P))))

    def eelec_open(self, Pa, Pb):
        Fa, Fb = self.fock_open(Pa, Pb)
        return 0.5 * float(np.sum((Pa + Pb) * self.H + Pa * Fa + Pb * Fb))

    # -- energies ---------------------------------------------------------------------------
    def eiso(self):
        return sum(a.eisol() for a in self.atoms)

    def eheat(self):
        return sum(EHEAT_KCAL[a.Z] for a in self.atoms) / KCAL_PER_EV

    def nelec(self, charge=0):
        return sum(a.core for a in self.atoms) - charge

    def scf(self, charge=0, mult=1, uhf=False, P0=None, damp=0.3, tol=1e-11, maxit=2000):
        """plain damped Roothaan iteration with aufbau occupation.  P0: total density (RHF) or (Pa, Pb)."""
        ne = self.nelec(charge)
        if not uhf:
            assert ne % 2 == 0 and mult == 1
            nocc = ne // 2
            P = np.array(P0, float) if P0 is not None else self._guess()
            for it in range(maxit):
                F = self.fock_closed(P)
                e, C = np.linalg.eigh(F)
                Pn = 2.0 * C[:, :nocc] @ C[:, :nocc].T
                err = np.max(np.abs(Pn - P))
                P = Pn if err < tol else damp * P + (1 - damp) * Pn
                if err < tol:
                    break
            Eel = self.eelec_closed(P)
            return dict(P=P, Eelec=Eel, Etot=Eel + self.enuc, converged=err < tol, iters=it + 1, e=e)
        na = (ne + mult - 1) // 2
        nb = ne - na
        if P0 is not None:
            Pa, Pb = np.array(P0[0], float), np.array(P0[1], float)
        else:
            Pa = Pb = 0.5 * self._guess()
        for it in range(maxit):
            Fa, Fb = self.fock_open(Pa, Pb)
            ea, Ca = np.linalg.eigh(Fa)
            eb, Cb = np.linalg.eigh(Fb)
            Pan = Ca[:, :na] @ Ca[:, :na].T
            Pbn = Cb[:, :nb] @ Cb[:, :nb].T
            err = max(np.max(np.abs(Pan - Pa)), np.max(np.abs(Pbn - Pb)))
            if err < tol:
                Pa, Pb = Pan, Pbn
                break
            Pa = damp * Pa + (1 - damp) * Pan
            Pb = damp * Pb + (1 - damp) * Pbn
        Eel = self.eelec_open(Pa, Pb)
        return dict(P=(Pa, Pb), Eelec=Eel, Etot=Eel + self.enuc, converged=err < tol, iters=it + 1, e=(ea, eb))

    def _guess(self):
        P = np.zeros((self.nbas, self.nbas))
        for i, a in enumerate(self.atoms):
            o = self.off[i]
            for k in range(a.nao):
                P[o + k, o + k] = a.core / float(a.nao)
        return P

    def heat_of_formation(self, etot):
        return etot - self.eiso() + self.eheat()


# ---------------------------------------------------------------------------- self test
def selftest():
    """internal consistency of the reference (no package involved); returns a list of problems."""
    prob = []

    class _A:  # bare hydrogen-like atom for closed-form checks
        pass

    a = _A()
    a.n, a.nao, a.zs, a.zp = 1, 1, 1.0, 0.0
    for R in (0.7, 1.4, 3.0, 9.0):
        s = overlap_local(a, a, R)[0, 0]
        ex = math.exp(-R) * (1 + R + R * R / 3.0)  # Mulliken 1s-1s, equal exponents
        if abs(s - ex) > 1e-13:
            prob.append(f"1s-1s overlap at R={R}: {s} vs closed form {ex}")
    b = _A()
    for n in (2, 3):
        b.n, b.nao, b.zs, b.zp = n, 4, 1.3, 0.9
        s = overlap_local(b, b, 1e-4)
        if np.max(np.abs(np.diag(s) - 1.0)) > 1e-7 or np.max(np.abs(s - np.eye(4))) > 1e-3:
            prob.append(f"n={n} self-overlap at R->0 is not the identity: {np.diag(s)}")
    # frame independence and one-centre conditions
    for method, Z in (("MNDO", 6), ("PM3", 17), ("AM1", 16)):
        try:
            A = Atom(method, Z)
        except (OSError, KeyError) as e:  # table missing
            prob.append(f"cannot load {method} {Z}: {e}")
            continue
        if abs(_self_energy(_dipole(A.D1, 0, A.rho1)) - A.hsp) > 1e-12:
            prob.append(f"{method} Z={Z}: rho1 does not satisfy the one-centre condition")
        if abs(_self_energy(_square(A.D2, 1, 2, A.rho2)) - A.hpp) > 1e-12:
            prob.append(f"{method} Z={Z}: rho2 does not satisfy the one-centre condition")
        W = eri_local(A, A, 2.7)
        c, s = math.cos(0.83), math.sin(0.83)
        Rz = np.array([[c, -s, 0], [s, c, 0], [0, 0, 1.0]])
        W2 = rotate4(W, A, A, Rz)
        if np.max(np.abs(W2 - W)) > 1e-12:
            prob.append(f"{method} Z={Z}: local integrals are not invariant to a rotation about the bond")
    return prob
