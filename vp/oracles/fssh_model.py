"""Reference model of fewest-switches surface hopping (plain numpy re-statement of the specification).

Pieces
  reference_propagation   c' = -(i/hbar) E(t) c - D(t) c with E, D linear in t over one nuclear step, integrated
                          with scipy DOP853 at rtol 1e-13 (independent of the package's interaction-picture RK4)
  hop_probabilities       g_aj = max(0, b_ja dt / rho_aa), b_ja dt = 2 dt Re(c_a* c_j) D_aj ; rows renormalised
                          when their sum exceeds one
  choose_target           hop a -> j iff  sum_{k<j} g_k <= r < sum_{k<=j} g_k   (r uniform on [0,1): a state with
                          zero probability is never chosen, r = 0 included)
  rescale                 v' = v + alpha M^-1 d, alpha the root of smaller modulus of
                          1/2 (d.M^-1 d) alpha^2 + (v.d) alpha + dE/k = 0 ; None (frustrated) when no real root
                          exists or d.M^-1 d <= 1e-12
  crossing_swaps          pairs (i<j), |i-j| <= 2, whose mutual overlap |<old_i|new_j>| and |<old_j|new_i>| >= 0.9
  step_model              one transition of the hop machine for one trajectory (hold-off, relabelling, hop, rescale,
                          decoherence) in terms of the observed propagated amplitudes
"""
import numpy as np

HBAR_EV_FS = 0.6582119514
THR = 0.9
WINDOW = 2


def reference_propagation(c0, e0, e1, n0, n1, dt):
    from scipy.integrate import solve_ivp

    n = len(e0)

    def rhs(t, y):
        tau = t / dt
        E = e0 + tau * (e1 - e0)
        D = n0 + tau * (n1 - n0)
        c = y[:n] + 1j * y[n:]
        dc = -1j / HBAR_EV_FS * E * c - D @ c
        return np.concatenate([dc.real, dc.imag])

    s = solve_ivp(rhs, (0.0, dt), np.concatenate([c0.real, c0.imag]), method="DOP853", rtol=1e-13, atol=1e-15)
    y = s.y[:, -1]
    return y[:n] + 1j * y[n:]


def hop_integral(c, nd_new, dt):
    """2 dt Re(c_i* c_j) D_ij, zero diagonal."""
    h = 2.0 * dt * np.real(np.conj(c)[:, None] * c[None, :]) * nd_new
    np.fill_diagonal(h, 0.0)
    return h


def hop_probabilities(hrow, pop_active):
    g = np.maximum(hrow / max(pop_active, 1e-10), 0.0)
    s = g.sum()
    if s > 1.0:
        g = g / s
    return g


def choose_target(g, r):
    c = np.cumsum(g)
    for j in range(len(g)):
        if g[j] > 0.0 and r < c[j]:
            return j
    return -1


def admissible_targets(g, r):
    """Targets compatible with the draw under either tie convention ([c_{j-1}, c_j) or (c_{j-1}, c_j]); a state of
    zero probability is never admissible; -1 (no hop) is admissible when r >= sum g."""
    c = np.concatenate([[0.0], np.cumsum(g)])
    out = set()
    for j in range(len(g)):
        if g[j] > 0.0 and c[j] <= r <= c[j + 1]:
            out.add(j)
    if r >= c[-1]:
        out.add(-1)
    return out


def rescale(v, d, minv, dE, kscale):
    """v, d: (natoms,3); minv: (natoms,). Returns (status, v_new, alpha, other_root); status in
    {'accept','frustrated','either'} ('either': discriminant exactly zero)."""
    d2 = float(np.sum(minv * np.sum(d * d, axis=1)))
    if d2 <= 1e-12:
        return "frustrated", v.copy(), 0.0, 0.0
    vd = float(np.sum(v * d))
    rad = vd * vd - 2.0 * (dE / kscale) * d2
    if rad < 0:
        return "frustrated", v.copy(), 0.0, 0.0
    sq = np.sqrt(rad)
    r1 = (-vd + sq) / d2
    r2 = (-vd - sq) / d2
    a, b = (r1, r2) if abs(r1) <= abs(r2) else (r2, r1)
    return ("either" if rad == 0 else "accept"), v + a * d * minv[:, None], a, b


def kinetic(v, minv, kscale):
    return float(0.5 * np.sum(np.sum(v * v, axis=1) / minv) * kscale)


def crossing_swaps(S_abs):
    n = S_abs.shape[0]
    out = []
    used = set()
    for i in range(n):
        for j in range(i + 1, min(n, i + WINDOW + 1)):
            if i in used or j in used:
                continue
            if S_abs[i, j] >= THR and S_abs[j, i] >= THR:
                out.append((i, j))
                used.update((i, j))
    return out


def step_model(pre, answers, obs, kscale, decohere):
    """One transition for one trajectory.

    pre      dict(active, hold, prev)            state before the step
    answers  dict(r, swaps [(i,j)...], E (nstates,), nacvec {(i,j): (natoms,3)}, minv (natoms,))
    obs      dict(amp_prop (nstates,3) after the real propagation, hopint (nstates,nstates), v_hop (natoms,3)
             velocities at hop time)
    returns  dict(active, hold, prev, amp (nstates,3), v, relabel (perm list), target, hop: None|'accept'|'frustrated'|'either')
    """
    n = len(answers["E"])
    a = int(pre["active"])
    hold = max(int(pre["hold"]) - 1, 0)
    prev = int(pre["prev"])
    perm = list(range(n))
    for i, j in answers["swaps"]:
        perm[i], perm[j] = j, i
    amp = obs["amp_prop"].copy()
    relabel = list(range(n))
    skip = False
    if hold > 0:
        # hold-off: no relabelling this step; NEXMD-style early reset when the active state's partner is new
        if perm[a] != a and prev >= 0 and perm[a] != prev:
            hold = 0
    elif perm != list(range(n)):
        relabel = perm
        new = amp.copy()
        for i in range(n):
            new[perm[i]] = amp[i]
        amp = new
        if perm[a] != a:
            prev = a
            a = perm[a]
            hold = 2
            skip = True
    skip = skip or hold > 0
    pop = amp[:, 0] ** 2 + amp[:, 1] ** 2
    hrow = obs["hopint"][a].copy()
    # the couplings of a relabelled pair are zeroed before the hop integral is formed (checked separately)
    g = hop_probabilities(hrow, pop[a])
    target = choose_target(g, answers["r"])
    adm = admissible_targets(g, answers["r"])
    if obs.get("target") is not None and int(obs["target"]) in adm:
        target = int(obs["target"])  # exact tie between the draw and a cumulative probability: either convention
    out = dict(g=g, target=target, admissible=adm, relabel=relabel, hop=None)
    v = obs["v_hop"].copy()
    if target >= 0 and not skip:
        dE = float(answers["E"][target] - answers["E"][a])
        key = (a, target) if a < target else (target, a)
        d = answers["nacvec"][key] * (1.0 if a < target else -1.0)
        status, vnew, alpha, other = rescale(v, d, answers["minv"], dE, kscale)
        out.update(hop=status, dE=dE, d=d, alpha=alpha, other_root=other, v_alt=vnew)
        if status == "accept":
            v = vnew
            a_new = target
            hold = 2
            if decohere:
                amp = np.zeros_like(amp)
                amp[a_new, 0] = 1.0
            out["from"] = a
            a = a_new
        elif status == "frustrated":
            if decohere:
                amp = np.zeros_like(amp)
                amp[a, 0] = 1.0
    out.update(active=a, hold=hold, prev=prev, amp=amp, v=v, skipped=skip)
    return out
